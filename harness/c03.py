"""C03 -- graph-library round trips are faithful and the backends agree.

Attribute graphs are built as REAL networkx / rustworkx / spatial_graph objects, written with geff.write into a
fresh MemoryStore (zarr_format 2 and 3), read back with geff.read(backend=...) for every backend (and with
read_to_memory), and canonicalised through the real GraphAdapters; in-memory geffs are handed to geff.construct
for every backend.

Correspondence: the observable content of the written object (node / edge iteration order as the library reports it)
-> Dicts.v / Backends.v (write_dicts, write_arrays, read_to_memory, construct, adapter view) evaluated in Coq.
Oracle: canonical-graph equality input vs output written from the property text (ids, edges, directedness, present
property sets, values, kinds), per backend domain.
"""
from __future__ import annotations

import copy
import itertools
import random

import numpy as np

from harness import graphgen as gg
from harness.common import DTYPE_COQ, Failure, HarnessError, cbool, clist, cnat, copt, cstr, cz, dtype_name, exn_name
from harness.storelib import Interner, abstract_meta_json, c_meta, enc_float

PROP = "C03"
PARALLEL = True
B63 = 2 ** 63
B64 = 2 ** 64

RULE = ("exhaustive block: every 2-node networkx graph with one property whose value per node ranges over {absent, True, False, 0, 7, "
        "2^63, 2^64-1, 1.5, 'a', '', [1,2], [3], [[1,2]], [1.5], [2^63, 2^64-1], []} (all 256 pairs) x directed/undirected x reader {networkx, rustworkx} and the "
        "same column as an edge property; thorough adds the 3-node block over 9 values (729 columns); random attribute graphs (N<=6; ids "
        "from {0, small, 2^63-1, 2^63, 2^63+k, 2^64-1}; edges incl. both orientations and self loops; per property a column kind in {bool, int, "
        "int beyond int64, float, str, fixed list rank 1/2 of bool/int/float/str, ragged lists, ragged with mixed rank / empty lists, "
        "mixed int+float, bool+int} present on {all, random subset, all but the first, none}) written from networkx, from rustworkx "
        "(index holes, explicit node_id_dict incl. missing keys) and from spatial_graph (node dtypes, int/float/vector attributes, "
        "metadata- or argument-supplied axis names) x reader {read_to_memory, networkx, rustworkx, spatial-graph} x zarr_format {2,3}; "
        "in-memory geffs (every id dtype, masks, var-length, float16/32, duplicate ids, edges to unknown nodes, no axes) x construct "
        "through the three backends; malformed stream: negative ids, ids >= 2^64, duplicate axis names, axis names that are no "
        "property, axes with missing values, ndims mismatch; audit streams: lists / ragged lists of ints in [2^63, 2^64), all-empty-list columns, "
        "floats that are multiples of 2^-10 but not float32-exact; oracle-only values (0.1, 1e-7, 2^-30, 1/3, 1e300, 5e-324, NaN, +-inf, strings with "
        "trailing / inner NUL, numpy scalars and ndarrays of several dtypes as attribute values); rustworkx multigraphs (parallel edges, both "
        "orientations undirected) and in-memory geffs with a repeated edge; 44 property names and 7 name sets on nodes and on edges under both zarr "
        "formats (reserved member names, '/', '\\', '.', '..', '', control characters, 300 characters); int8 / uint8 vector attributes and an "
        "int8 position through spatial-graph (negative control); one random graph in eight is written to a directory path instead of a store object; "
        "non-trivial = at least one node and one property; distinct by structural input")
EXHAUSTIVE_BLOCKS = ["networkx N=2 x one node property, per-node value over 16 choices incl. absent (256 columns) x directed {T,F} x reader "
                     "{networkx, rustworkx} ; the same 256 columns as an edge property on a 3-node path (reader networkx)",
                     "thorough: networkx N=3 x one node property over 9 choices (729 columns), reader networkx, zarr 3"]
ASSUMPTIONS = [
    "graph-library containers are modelled by their observable API: the harness reads node / edge iteration order and payloads off the "
    "real object and hands that to the model; networkx adjacency order, rustworkx index allocation and spatial_graph's C++ storage are trusted",
    "attribute values in the correspondence are Python bool/int/float/str and nested lists (numpy arrays / numpy scalars as attribute "
    "values are generated and oracle-only); floats in the correspondence are exact multiples of 2^-10 (others, NaN and +-inf are generated "
    "and oracle-only); ints lie in [-2^63, 2^64); strings ending in NUL are interned as token(stripped) + k*2^32 and are oracle-only "
    "(open finding str-trailing-nul-stripped: the theorems carry the hypothesis)",
    "mixed-kind columns (int with float, bool with int) are outside the claim (a column has one dtype) -- the oracle skips them, the "
    "correspondence still compares them; numbers mixed with strings are outside the model as well",
    "property names: the theorems carry Names.name_ok (one path segment, no reserved member name of either zarr format); name_ok_fmt is "
    "tied to the real write per format (IName cases), names with control characters are oracle-only; the set order of the collected names "
    "is irrelevant (dict semantics)",
    "no edge twice is a hypothesis of every networkx / agreement statement (networkx graphs are simple graphs); on repeated edges the oracle "
    "checks what each backend alone promises: rustworkx keeps every parallel edge in order, networkx keeps one edge per key with, per "
    "property, the value of the last occurrence that carries it; the RxGraphAdapter cannot address parallel edges (get_edge_data(u, v)), "
    "so the edges of a multigraph are read off weighted_edge_list()",
    "networkx node order is insertion order; networkx edge order is the adjacency order (EdgeView / OutEdgeView), computed in Coq from the "
    "model's insertion-ordered tables (Corr/C03.nx_edges_view) and compared position by position",
    "spatial-graph domain: >= 1 axis, int8..uint64 / float32 / float64 scalar attributes and int16..uint64 / float32 / float64 vector "
    "attributes on every element (int8 / uint8 VECTORS and an 8-bit position come back from spatial_graph as a bytes scalar: open finding "
    "sg-8bit-vector-read-as-bytes, generated as a negative control), no property "
    "called like position_attr, axis properties of one dtype (they are squished into one position array); outside it the oracle is silent",
    "fresh MemoryStore targets only (existing targets / overwrite are C06); metadata other than directed / axes names is an opaque token",
]


def encf(x) -> int:
    """Every finite float that is a multiple of 2^-10 is encoded exactly (value * 1024), whatever its magnitude."""
    x = float(x)
    if x != x or x in (float("inf"), float("-inf")):
        raise HarnessError("non-finite float in a C03 case")
    y = x * 1024.0
    if y != int(y):
        raise HarnessError(f"float {x!r} is not a multiple of 2^-10")
    return int(y)


def enc_arr_x(a, it) -> dict:
    a = np.asarray(a)
    dn = "str" if a.dtype.kind in "UT" else dtype_name(a.dtype)
    if dn.startswith("float"):
        flat = [encf(v) for v in a.ravel().tolist()]
    elif dn in ("str", "bytes", "object"):
        flat = [it.tok(v) for v in a.ravel().tolist()]
    else:
        flat = [int(v) for v in a.ravel().tolist()]
    return {"dt": dn, "shape": [int(s) for s in a.shape], "flat": flat}


def c_np_arr(a, it) -> str:
    e = enc_arr_x(a, it)
    return f"(mkarr {DTYPE_COQ[e['dt']]} {clist(e['shape'], cnat)} {clist(e['flat'], cz)})"


def c_varr(a, it) -> str:
    e = enc_arr_x(a, it)
    return f"(Build_varr {DTYPE_COQ[e['dt']]} {clist(e['shape'], cnat)} {clist(e['flat'], cz)})"


def c_prop_np(p, it) -> str:
    v = p["values"]
    if v.dtype == object:
        vals = f"(PVlen {clist(list(v), lambda x: c_varr(x, it))})"
    else:
        vals = f"(PFixed {c_np_arr(v, it)})"
    miss = "None" if p["missing"] is None else f"(Some {c_np_arr(p['missing'], it)})"
    return f"(mkprop {vals} {miss})"


def c_props_np(ps, it) -> str:
    return clist(list(ps.items()), lambda kv: f"({cstr(kv[0])}, {c_prop_np(kv[1], it)})")


def c_mgraph(g, it) -> str:
    md = abstract_meta_json(g["metadata"].model_dump(mode="json"), it)
    return (f"(mkmg {c_meta(md)} {c_np_arr(g['node_ids'], it)} {c_np_arr(g['edge_ids'], it)} "
            f"{c_props_np(g['node_props'], it)} {c_props_np(g['edge_props'], it)})")


NUL_BASE = 2 ** 32


class It(Interner):
    """The empty string is token 0 (the model's default fill for a string property).  A string with k >= 1 trailing NUL characters is
    token(string without them) + k * 2^32 (C03Lemmas.nul_base): the theorems speak about tokens below 2^32."""

    def __init__(self):
        super().__init__()
        self.tab[""] = 0

    def tok(self, s) -> int:
        if isinstance(s, str) and s.endswith("\x00"):
            base = s.rstrip("\x00")
            return super().tok(base) + (len(s) - len(base)) * NUL_BASE
        return super().tok(s)


# --------------------------------------------------------------------------
# attribute values that JSON cannot carry: numpy scalars / arrays, non-finite floats (tagged dicts in the case, decoded on use)
# --------------------------------------------------------------------------
def np_scalar(dt, v):
    return {"__np__": dt, "scalar": True, "v": v}


def np_array(dt, v):
    return {"__np__": dt, "scalar": False, "v": v}


def dec_val(v):
    if isinstance(v, dict) and "__np__" in v:
        if v["scalar"]:
            return np.dtype(v["__np__"]).type(v["v"])
        return np.array(v["v"], dtype=v["__np__"])
    if isinstance(v, dict) and "__f__" in v:
        return float(v["__f__"])
    if isinstance(v, (list, tuple)):
        return [dec_val(x) for x in v]
    return v


def dec_attrs(d: dict) -> dict:
    return {k: dec_val(v) for k, v in d.items()}


def val_outside_model(v) -> bool:
    """numpy values, non-finite floats, floats that are no multiple of 2^-10, strings ending in NUL: never sent to Coq."""
    if isinstance(v, dict):
        return True
    if isinstance(v, (list, tuple)):
        return any(val_outside_model(x) for x in v)
    if isinstance(v, float):
        return v != v or v in (float("inf"), float("-inf")) or v * 1024.0 != int(v * 1024.0)
    if isinstance(v, str):
        return v.endswith("\x00")
    return False


# --------------------------------------------------------------------------
# python value <-> canonical value
# --------------------------------------------------------------------------
def kind_of_py(v) -> str:
    if isinstance(v, (bool, np.bool_)):
        return "bool"
    if isinstance(v, (int, np.integer)):
        return "int"
    if isinstance(v, (float, np.floating)):
        return "float"
    if isinstance(v, str):
        return "str"
    if isinstance(v, (list, tuple, np.ndarray)):
        return "array"
    raise HarnessError(f"value of unsupported type {type(v)}")


def py_plain(v):
    """numpy scalars -> python scalars (JSON-able)."""
    if isinstance(v, np.bool_):
        return bool(v)
    if isinstance(v, np.integer):
        return int(v)
    if isinstance(v, np.floating):
        return float(v)
    if isinstance(v, np.str_):
        return str(v)
    return v


def list_shape_leaves(v):
    """(shape, leaves) of a rectangular nested list, or None when ragged."""
    if not isinstance(v, (list, tuple)):
        return (), [v]
    if len(v) == 0:
        return (0,), []
    subs = [list_shape_leaves(x) for x in v]
    if any(s is None for s in subs) or any(s[0] != subs[0][0] for s in subs):
        return None
    return (len(v),) + subs[0][0], [l for s in subs for l in s[1]]


def cv(v):
    """Canonical value: ['s', kind, value] | ['a', kind, shape, flat]  (kind of the leaves; '?' for an empty python list)."""
    if isinstance(v, np.ndarray):
        if v.dtype.kind == "S":
            return ["bytes", str(v.dtype), list(v.shape), v.tobytes().hex()]      # spatial_graph's view of an int8[k] / uint8[k] attribute
        k = {"b": "bool", "i": "int", "u": "int", "f": "float", "U": "str", "T": "str"}.get(v.dtype.kind)
        if k is None:
            raise HarnessError(f"array of dtype {v.dtype} in a canonical view")
        return ["a", k, list(v.shape), [py_plain(x) for x in v.ravel().tolist()]]
    k = kind_of_py(v)
    if k != "array":
        return ["s", k, py_plain(v)]
    sl = list_shape_leaves(v)
    if sl is None:
        raise HarnessError("ragged python list in a canonical view")
    shape, leaves = sl
    kinds = {kind_of_py(x) for x in leaves}
    if len(kinds) > 1:
        raise HarnessError("python list with leaves of different types in a canonical view")
    return ["a", kinds.pop() if kinds else "?", list(shape), [py_plain(x) for x in leaves]]


SK = {"bool": "SBool", "int": "SInt", "float": "SFloat", "str": "SStr"}


def enc_leaf(kind, x, it):
    if kind == "bool":
        return int(bool(x))
    if kind == "int":
        return int(x)
    if kind == "float":
        return encf(x)
    return it.tok(x)


def c_cval(c, it) -> str:
    if c[0] == "s":
        return f"(CScalar {SK[c[1]]} {cz(enc_leaf(c[1], c[2], it))})"
    if c[1] == "?":
        # an empty python list carries no element type; it only arises from a column of empty lists, which numpy makes float64
        return f"(CArr SFloat {clist(c[2], cnat)} [])"
    return f"(CArr {SK[c[1]]} {clist(c[2], cnat)} {clist([enc_leaf(c[1], x, it) for x in c[3]], cz)})"


def c_cattrs(d: dict, it) -> str:
    return clist(sorted(d.items()), lambda kv: f"({cstr(kv[0])}, {c_cval(kv[1], it)})")


def c_pyval(v, it) -> str:
    if isinstance(v, bool):
        return f"(PBool {cbool(v)})"
    if isinstance(v, int):
        return f"(PInt {cz(v)})"
    if isinstance(v, float):
        return f"(PFloat {cz(encf(v))})"
    if isinstance(v, str):
        return f"(PStr {cz(it.tok(v))})"
    if isinstance(v, (list, tuple)):
        return f"(PList {clist(v, lambda x: c_pyval(x, it))})"
    raise HarnessError(f"attribute value {v!r} outside the model")


def c_attrs(d: dict, it) -> str:
    return clist(list(d.items()), lambda kv: f"({cstr(kv[0])}, {c_pyval(kv[1], it)})")


def c_zz(p) -> str:
    return f"({cz(p[0])}, {cz(p[1])})"


# --------------------------------------------------------------------------
# building the real graphs
# --------------------------------------------------------------------------
def build_nx(w):
    import networkx as nx

    g = nx.DiGraph() if w["directed"] else nx.Graph()
    for nid, attrs in w["nodes"]:
        g.add_node(nid)
        g.nodes[nid].update(dec_attrs(copy.deepcopy(attrs)))
    for (u, v), attrs in w["edges"]:
        g.add_edge(u, v)
        g.edges[u, v].update(dec_attrs(copy.deepcopy(attrs)))
    return g


def build_rx(w):
    import rustworkx as rx

    g = rx.PyDiGraph() if w["directed"] else rx.PyGraph()
    for slot in w["slots"]:
        g.add_node({} if slot is None else dec_attrs(copy.deepcopy(slot)))
    for (u, v), attrs in w["edges"]:
        g.add_edge(u, v, dec_attrs(copy.deepcopy(attrs)))
    for i, slot in enumerate(w["slots"]):
        if slot is None:
            g.remove_node(i)
    return g


def sg_dtype_str(dt, inner):
    return dt if inner is None else f"{dt}[{inner}]"


def build_sg(w):
    import spatial_graph as sg

    nad = {k: sg_dtype_str(a["dtype"], a["inner"]) for k, a in w["nattrs"].items()}
    ead = {k: sg_dtype_str(a["dtype"], a["inner"]) for k, a in w["eattrs"].items()}
    g = sg.create_graph(ndims=w["ndims"], node_dtype=w["node_dtype"], node_attr_dtypes=nad, edge_attr_dtypes=ead,
                        position_attr=w["pos_name"], directed=w["directed"])
    if w["nodes"]:
        g.add_nodes(np.array(w["nodes"], dtype=w["node_dtype"]),
                    **{k: np.array(a["rows"], dtype=a["dtype"]) for k, a in w["nattrs"].items()})
        if w["edges"]:
            g.add_edges(np.array(w["edges"], dtype=w["node_dtype"]),
                        **{k: np.array(a["rows"], dtype=a["dtype"]) for k, a in w["eattrs"].items()})
    return g


def sg_metadata(w):
    from geff_spec import Axis, GeffMetadata

    if w.get("md") is None:
        return None
    return GeffMetadata(directed=w["md"]["directed"], axes=[Axis(name=a) for a in w["md"]["axes"]] if w["md"]["axes"] is not None else None,
                        node_props_metadata={}, edge_props_metadata={})


AXLIST_KEYS = ("axis_units", "axis_types", "axis_scales", "scaled_units", "axis_offset")


def md_kwargs(w):
    """metadata= / axis_* keyword arguments of geff.write for a networkx / rustworkx writer (the call shapes of BackendsMd.v)."""
    kw = {}
    if w.get("cmd") is not None:
        kw["metadata"] = gg.make_metadata(w["cmd"])
    for k in AXLIST_KEYS:
        if (w.get("axlists") or {}).get(k) is not None:
            kw[k] = list(w["axlists"][k])
    return kw


def has_md_shape(w) -> bool:
    return w.get("cmd") is not None or bool(w.get("axlists"))


def axis_entry(w, k):
    """entry k of every axis_* list (None where the list is absent or holds None)."""
    al = w.get("axlists") or {}
    pick = lambda key: None if al.get(key) is None else al[key][k]
    return {"type": pick("axis_types"), "unit": pick("axis_units"), "scale": pick("axis_scales"), "scaled_unit": pick("scaled_units"),
            "offset": pick("axis_offset")}


def axis_token(it, name, entry):
    """token of an axis carrying these fields, computed from an Axis built directly (not through update_metadata_axes)."""
    from geff_spec import Axis, GeffMetadata

    md = GeffMetadata(directed=True, axes=[Axis(name=name, **entry)], node_props_metadata={}, edge_props_metadata={})
    return abstract_meta_json(md.model_dump(mode="json"), it)["axes"][0]["tok"]


def effective_axes(w):
    """axis names of the written geff: the axis_names argument, else the caller's metadata axes."""
    if w.get("axes") is not None:
        return list(w["axes"])
    if w.get("cmd") is not None and w["cmd"].get("axes") is not None:
        return [a["name"] for a in w["cmd"]["axes"]]
    return None


def mem_geff(w):
    return {"metadata": gg.make_metadata(w["md"]), "node_ids": gg.to_np(w["nids"]), "edge_ids": gg.to_np(w["eids"]),
            "node_props": gg.props_to_np(w["nprops"]) or {}, "edge_props": gg.props_to_np(w["eprops"]) or {}}


# --------------------------------------------------------------------------
# observation
# --------------------------------------------------------------------------
BACKEND = {"nx": "networkx", "rx": "rustworkx", "sg": "spatial-graph"}


def np_to_spec(a: np.ndarray):
    if a.dtype == object:
        return {"vlen": [np_to_spec(x) for x in a]}
    dn = "str" if a.dtype.kind in "UT" else dtype_name(a.dtype)
    return {"dtype": dn, "shape": [int(s) for s in a.shape], "data": [py_plain(x) for x in a.ravel().tolist()]}


def mem_to_json(m):
    def props(ps):
        return {k: {"values": np_to_spec(np.asarray(v["values"])) if not (isinstance(v["values"], np.ndarray) and v["values"].dtype == object)
                    else np_to_spec(v["values"]),
                    "missing": None if v["missing"] is None else np_to_spec(np.asarray(v["missing"]))} for k, v in ps.items()}
    return {"md": m["metadata"].model_dump(mode="json"), "nids": np_to_spec(m["node_ids"]), "eids": np_to_spec(m["edge_ids"]),
            "nprops": props(m["node_props"]), "eprops": props(m["edge_props"])}


def adapter_view(backend: str, graph, md, extra_nnames=(), extra_enames=()):
    """Canonical view through the library's GraphAdapter: ids, edges, and for every declared name the value when present."""
    from geff._graph_libs._api_wrapper import get_backend

    ad = get_backend(backend).graph_adapter(graph)
    nnames = list(dict.fromkeys([*md.node_props_metadata.keys(), *extra_nnames]))
    enames = list(dict.fromkeys([*md.edge_props_metadata.keys(), *extra_enames]))
    nodes, edges = [], []
    for n in ad.get_node_ids():
        d = {}
        for nm in nnames:
            if ad.has_node_prop(nm, n, md):
                d[nm] = cv(ad.get_node_prop(nm, n, md))
        nodes.append([int(n), d])
    for e in ad.get_edge_ids():
        d = {}
        for nm in enames:
            if ad.has_edge_prop(nm, e, md):
                d[nm] = cv(ad.get_edge_prop(nm, e, md))
        edges.append([[int(e[0]), int(e[1])], d])
    return nodes, edges


def observe(reader: str, graph, md, pos: str):
    import networkx as nx
    import rustworkx as rx

    if reader == "nx":
        nn = {k for _, d in graph.nodes(data=True) for k in d}
        en = {k for _, _, d in graph.edges(data=True) for k in d}
        nodes, edges = adapter_view("networkx", graph, md, sorted(nn), sorted(en))
        return {"nx": {"directed": isinstance(graph, nx.DiGraph), "nodes": nodes, "edges": edges}}
    if reader == "rx":
        nn = {k for d in graph.nodes() for k in d}
        en = {k for _, _, d in graph.weighted_edge_list() for k in d}
        nodes, edges = adapter_view("rustworkx", graph, md, sorted(nn), sorted(en))
        if list(graph.node_indices()) != list(range(graph.num_nodes())):
            raise HarnessError("constructed rustworkx graph has index holes")
        raw_nodes = [{k: cv(v) for k, v in d.items()} for d in graph.nodes()]
        raw_edges = [[[int(u), int(v)], {k: cv(x) for k, x in d.items()}] for u, v, d in graph.weighted_edge_list()]
        idmap = [[int(k), int(v)] for k, v in graph.attrs["to_rx_id_map"].items()]
        return {"rx": {"directed": isinstance(graph, rx.PyDiGraph), "nodes": raw_nodes, "edges": raw_edges, "map": idmap,
                       "view_nodes": nodes, "view_edges": edges}}
    nodes, edges = adapter_view("spatial-graph", graph, md)

    def sig(dts):
        out = {}
        for k, s in dts.items():
            base, _, rest = s.partition("[")
            out[k] = [dtype_name(np.dtype(base)), int(rest[:-1]) if rest else None]
        return out
    return {"sg": {"directed": bool(graph.directed), "nodes": nodes, "edges": edges, "ndims": int(graph.ndims),
                   "node_dtype": dtype_name(graph.nodes.dtype), "nsig": sig(graph.node_attr_dtypes), "esig": sig(graph.edge_attr_dtypes)}}


def run_impl(c):
    import warnings

    warnings.simplefilter("ignore")
    import geff
    from geff.core_io import read_to_memory
    from zarr.storage import MemoryStore

    w = c["writer"]
    if c.get("kind") == "name":
        return run_name(c)
    if c.get("store") == "path":
        # a directory path instead of a store object (the theorems are stated for every store kind: C03_*_anystore)
        import shutil
        import tempfile

        tmp = tempfile.mkdtemp(prefix="c03-")
        try:
            return run_rt(c, tmp + "/g.geff")
        finally:
            shutil.rmtree(tmp, ignore_errors=True)
    return run_rt(c, None)


def run_rt(c, path):
    import geff
    from geff.core_io import read_to_memory
    from zarr.storage import MemoryStore

    w = c["writer"]
    try:
        if w["lib"] == "mem":
            m = mem_geff(w)
            md = m["metadata"]
            kw = {"position_attr": c["pos"]} if c["reader"] == "sg" and c["pos"] != "position" else {}
            graph = geff.construct(**m, backend=BACKEND[c["reader"]], **kw)
            return observe(c["reader"], graph, md, c["pos"])
        store = MemoryStore() if path is None else path
        if w["lib"] == "nx":
            geff.write(build_nx(w), store, axis_names=w["axes"], zarr_format=c["fmt"], **md_kwargs(w))
        elif w["lib"] == "rx":
            kw = {}
            if w["idmap"] is not None:
                kw["node_id_dict"] = {int(a): int(b) for a, b in w["idmap"]}
            geff.write(build_rx(w), store, axis_names=w["axes"], zarr_format=c["fmt"], **kw, **md_kwargs(w))
        else:
            geff.write(build_sg(w), store, metadata=sg_metadata(w), axis_names=w["axes"], zarr_format=c["fmt"])
        if c["reader"] == "mem":
            return {"mem": mem_to_json(read_to_memory(store))}
        kw = {"position_attr": c["pos"]} if c["reader"] == "sg" and c["pos"] != "position" else {}
        graph, md = geff.read(store, backend=BACKEND[c["reader"]], **kw)
        out = observe(c["reader"], graph, md, c["pos"])
        if has_md_shape(w):
            out["mdj"] = md.model_dump(mode="json")         # the metadata read back (oracle: directed, axes, entries)
        return out
    except HarnessError:
        raise
    except Exception as e:
        return {"exc": exn_name(e), "cls": type(e).__name__, "msg": str(e)[:200]}


def geff_left(store) -> bool:
    """Does the store (still) look like a geff: a root group with a `geff` attribute."""
    import zarr

    try:
        root = zarr.open_group(store, mode="r")
    except Exception:
        return False
    return "geff" in dict(root.attrs)


def run_name(c):
    """A graph whose property NAMES are the point of the case, written under zarr format 2 and 3: exact round trip, or refusal."""
    import geff
    from zarr.storage import MemoryStore

    out = {}
    for fmt in (2, 3):
        store = MemoryStore()
        g = build_nx(c["writer"])
        try:
            geff.write(g, store, zarr_format=fmt)
            g2, _ = geff.read(store, backend="networkx")
            same = (list(g2.nodes(data=True)) == list(g.nodes(data=True)) and
                    sorted(map(repr, g2.edges(data=True))) == sorted(map(repr, g.edges(data=True))))
            out[str(fmt)] = {"ok": same, "exc": None, "left": geff_left(store)}
        except HarnessError:
            raise
        except Exception as e:
            out[str(fmt)] = {"ok": False, "exc": type(e).__name__, "msg": str(e)[:120], "left": geff_left(store)}
    return {"name": out}


# --------------------------------------------------------------------------
# Coq printers
# --------------------------------------------------------------------------
def default_tokens(it):
    """Tokens of the parts of a freshly created metadata document the model does not look into."""
    from geff_spec import Axis, GeffMetadata
    from geff_spec.utils import create_or_update_metadata

    md = create_or_update_metadata(None, True)
    mdtok = abstract_meta_json(md.model_dump(mode="json"), it)["tok"]
    md2 = GeffMetadata(directed=True, axes=[Axis(name="x")], node_props_metadata={}, edge_props_metadata={})
    axtok = abstract_meta_json(md2.model_dump(mode="json"), it)["axes"][0]["tok"]
    return mdtok, axtok


def c_axes(ax) -> str:
    return copt(ax, lambda l: clist(l, cstr))


def c_caller_md(w, it) -> str:
    if w.get("cmd") is None:
        return "None"
    return f"(Some {c_meta(abstract_meta_json(gg.make_metadata(w['cmd']).model_dump(mode='json'), it))})"


def c_axes_tok(w, it) -> str:
    if w.get("axes") is None:
        return "None"
    al = w.get("axlists") or {}
    for k in AXLIST_KEYS:
        if al.get(k) is not None and len(al[k]) != len(w["axes"]):
            raise HarnessError("axis list of another length than axis_names: outside the zipped representation")
    return "(Some " + clist(list(enumerate(w["axes"])), lambda ia: f"({cstr(ia[1])}, {cz(axis_token(it, ia[1], axis_entry(w, ia[0])))})") + ")"


def c_dgraph(nodes, edges, it) -> str:
    ns = clist(nodes, lambda na: f"({cz(na[0])}, {c_attrs(na[1], it)})")
    es = clist(edges, lambda ea: f"({c_zz(ea[0])}, {c_attrs(ea[1], it)})")
    return f"(mkdg {ns} {es})"


def c_writer(w, it) -> str:
    if w["lib"] == "nx":
        g = build_nx(w)
        nodes = [(n, d) for n, d in g.nodes(data=True)]
        edges = [((u, v), d) for u, v, d in g.edges(data=True)]
        if has_md_shape(w):
            return f"(WNxMd {cbool(w['directed'])} {c_dgraph(nodes, edges, it)} {c_caller_md(w, it)} {c_axes_tok(w, it)})"
        return f"(WNx {cbool(w['directed'])} {c_dgraph(nodes, edges, it)} {c_axes(w['axes'])})"
    if w["lib"] == "rx":
        g = build_rx(w)
        nodes = list(zip(g.node_indices(), g.nodes()))
        edges = [((u, v), d) for u, v, d in g.weighted_edge_list()]
        idm = copt(w["idmap"], lambda l: clist(l, c_zz))
        if has_md_shape(w):
            return f"(WRxMd {cbool(w['directed'])} {c_dgraph(nodes, edges, it)} {idm} {c_caller_md(w, it)} {c_axes_tok(w, it)})"
        return f"(WRx {cbool(w['directed'])} {c_dgraph(nodes, edges, it)} {idm} {c_axes(w['axes'])})"
    if w["lib"] == "sg":
        g = build_sg(w)
        nattrs = [(k, np.asarray(getattr(g.node_attrs[g.nodes], k))) for k in g.node_attr_dtypes]
        eattrs = [(k, np.asarray(getattr(g.edge_attrs[g.edges], k))) for k in g.edge_attr_dtypes]
        fix = lambda a, k, dts, n: a if a.ndim == (2 if "[" in dts[k] else 1) else a.reshape((n, -1) if "[" in dts[k] else (n,))
        nattrs = [(k, fix(a, k, g.node_attr_dtypes, len(g.nodes))) for k, a in nattrs]
        eattrs = [(k, fix(a, k, g.edge_attr_dtypes, len(g.edges))) for k, a in eattrs]
        na = clist(nattrs, lambda ka: f"({cstr(ka[0])}, {c_np_arr(ka[1], it)})")
        ea = clist(eattrs, lambda ka: f"({cstr(ka[0])}, {c_np_arr(ka[1], it)})")
        md = sg_metadata(w)
        cmd = "None" if md is None else f"(Some {c_meta(abstract_meta_json(md.model_dump(mode='json'), it))})"
        edges = np.asarray(g.edges).reshape(-1, 2)
        return (f"(WSg (mksgc {cbool(bool(g.directed))} {cnat(g.ndims)} {c_np_arr(np.asarray(g.nodes), it)} {cstr(g.position_attr)} {na} "
                f"{c_np_arr(edges, it)} {ea}) {cmd} {c_axes(w['axes'])})")
    return f"(WMem {c_mgraph(mem_geff(w), it)})"


def c_table(rows, keyf, it) -> str:
    return clist(rows, lambda r: f"({keyf(r[0])}, {c_cattrs(r[1], it)})")


def c_obs(c, o, it) -> str:
    if "exc" in o:
        return f"(OErr {o['exc']})"
    if "mem" in o:
        m = o["mem"]
        g = {"metadata": None, "node_ids": gg.to_np(m["nids"]), "edge_ids": gg.to_np(m["eids"]),
             "node_props": gg.props_to_np(m["nprops"]), "edge_props": gg.props_to_np(m["eprops"])}
        md = abstract_meta_json(m["md"], it)
        return (f"(OMem (mkmg {c_meta(md)} {c_np_arr(g['node_ids'], it)} {c_np_arr(g['edge_ids'], it)} "
                f"{c_props_np(g['node_props'], it)} {c_props_np(g['edge_props'], it)}))")
    if "nx" in o:
        x = o["nx"]
        return f"(ONx (mkcg {cbool(x['directed'])} {c_table(x['nodes'], cz, it)} {c_table(x['edges'], c_zz, it)}))"
    if "rx" in o:
        x = o["rx"]
        return (f"(ORx (mkrxc {cbool(x['directed'])} {clist(x['nodes'], lambda d: c_cattrs(d, it))} {c_table(x['edges'], c_zz, it)} "
                f"{clist(x['map'], c_zz)}))")
    x = o["sg"]
    sig = lambda d: clist(sorted(d.items()), lambda kv: f"({cstr(kv[0])}, ({DTYPE_COQ[kv[1][0]]}, {copt(kv[1][1], cnat)}))")
    return (f"(OSg ({DTYPE_COQ[x['node_dtype']]}, {cnat(x['ndims'])}, {sig(x['nsig'])}, {sig(x['esig'])}) "
            f"(mkcg {cbool(x['directed'])} {c_table(x['nodes'], cz, it)} {c_table(x['edges'], c_zz, it)}))")


def coq_case(c, o):
    if c.get("kind") == "name":
        if len(c["names"]) != 1 or any(ord(ch) < 32 for ch in c["names"][0]):
            return None                                  # pairs of names; names the Coq string printer cannot carry
        r = o["name"]
        return f"(IName {cstr(c['names'][0])}, OName {cbool(r['2']['ok'])} {cbool(r['3']['ok'])})"
    if c.get("oracle_only"):
        return None
    if "exc" in o and o["exc"] == "OtherExn" and c.get("outside_ok"):
        return None
    it = It()
    try:
        mdtok, axtok = default_tokens(it)
        w = c_writer(c["writer"], it)
        r = {"mem": "RMem", "nx": "RNx", "rx": "RRx"}.get(c["reader"]) or f"(RSg {cstr(c['pos'])})"
        return f"(ICase {w} {r} {cz(mdtok)} {cz(axtok)}, {c_obs(c, o, it)})"
    except HarnessError:
        if c.get("outside_ok"):
            return None
        raise


# --------------------------------------------------------------------------
# oracle: canonical-graph equality input vs output, from the property text
# --------------------------------------------------------------------------
def expected_graph(w):
    """Canonical content of the written object: directed, {id: {name: python value}}, {(u,v): {name: value}}; None when the input
    lies outside the quantifier of the property (ids outside [0, 2^64), ...)."""
    if w["lib"] == "nx":
        nodes = {n: dec_attrs(a) for n, a in w["nodes"]}
        edges = {(u, v): dec_attrs(a) for (u, v), a in w["edges"]}
    elif w["lib"] == "rx":
        idm = None if w["idmap"] is None else {a: b for a, b in w["idmap"]}
        live = [i for i, s in enumerate(w["slots"]) if s is not None]
        if idm is not None and any(i not in idm for i in live):
            return None
        tr = (lambda i: i) if idm is None else (lambda i: idm[i])
        if len({tr(i) for i in live}) != len(live):
            return None
        nodes = {tr(i): dec_attrs(w["slots"][i]) for i in live}
        edges = {(tr(u), tr(v)): dec_attrs(a) for (u, v), a in w["edges"] if w["slots"][u] is not None and w["slots"][v] is not None}
    elif w["lib"] == "sg":
        names = w["axes"] if w["axes"] is not None else (w["md"]["axes"] if w.get("md") and w["md"]["axes"] is not None else None)
        if names is None:
            if w["nodes"]:
                return None
            names = []
        if len(names) != w["ndims"] and w["nodes"]:
            return None
        if len(set(names)) != len(names):
            return None
        nodes = {}
        for i, n in enumerate(w["nodes"]):
            d = {}
            for k, a in w["nattrs"].items():
                if k == w["pos_name"]:
                    for j, ax in enumerate(names):
                        d[ax] = np.array(a["rows"], dtype=a["dtype"])[i][j].item()
                elif k not in names:
                    d[k] = np.array(a["rows"], dtype=a["dtype"])[i].tolist()
            nodes[n] = d
        edges = {}
        for i, (u, v) in enumerate(w["edges"]):
            edges[(u, v)] = {k: np.array(a["rows"], dtype=a["dtype"])[i].tolist() for k, a in w["eattrs"].items()}
    else:
        nids = gg.to_np(w["nids"]).tolist()
        eids = [tuple(r) for r in gg.to_np(w["eids"]).reshape(-1, 2).tolist()]
        if len(set(nids)) != len(nids) or len(set(eids)) != len(eids) or any(x not in set(nids) for e in eids for x in e):
            return None

        def elems(ps, n):
            out = [dict() for _ in range(n)]
            for k, p in (gg.props_to_np(ps) or {}).items():
                if len(p["values"]) != n or (p["missing"] is not None and len(p["missing"]) != n):
                    return None
                for i in range(n):
                    if p["missing"] is None or not p["missing"][i]:
                        v = p["values"][i]
                        out[i][k] = v if isinstance(v, np.ndarray) and p["values"].dtype == object else np.asarray(v).tolist()
            return out
        ne, ee = elems(w["nprops"], len(nids)), elems(w["eprops"], len(eids))
        if ne is None or ee is None:
            return None
        if not w["md"]["directed"] and any((v, u) in set(eids) and u != v for u, v in eids):
            return None
        nodes = dict(zip(nids, ne))
        edges = dict(zip(eids, ee))
        return {"directed": w["md"]["directed"], "nodes": nodes, "edges": edges}
    if any((not isinstance(n, int)) or n < 0 or n >= B64 for n in nodes):
        return None
    return {"directed": w["directed"], "nodes": nodes, "edges": edges}


def column_status(values):
    """Classify the present values of one property: (claimed, kind, beyond_int64)."""
    kinds = {kind_of_py(v) for v in values}
    if len(kinds) != 1:
        return False, None, False
    k = kinds.pop()
    if k == "int":
        if any(v < -B63 or v >= B64 for v in values):
            return False, k, False
        return True, k, any(v >= B63 for v in values)
    if k == "array":
        ranks = set()
        leafkinds = set()
        beyond = False
        for v in values:
            a = v if isinstance(v, np.ndarray) else None
            if a is None:
                sl = list_shape_leaves(v)
                if sl is None:
                    return False, k, False          # ragged inside one value: not an array value
                ranks.add(len(sl[0]))
                leafkinds |= {kind_of_py(x) for x in sl[1]}
                if any(kind_of_py(x) == "int" and (x < -B63 or x >= B64) for x in sl[1]):
                    return False, k, False
                beyond = beyond or any(kind_of_py(x) == "int" and x >= B63 for x in sl[1])
            else:
                ranks.add(a.ndim)
        if len(ranks) > 1:
            return False, k, False                  # documented normalisation: leading axes are prepended
        if len(leafkinds) > 1:
            return False, k, False                  # leaves of different Python types in one array property: a mixed-kind column
        return True, k, beyond
    return True, k, False


def num_equal(ev, gv) -> bool:
    """ev: expected python value (scalar, nested list, ndarray); gv: canonical value observed.  Equal shape and equal
    elements (numbers by ==, strings by ==)."""
    if isinstance(ev, np.ndarray):
        shape, flat = list(ev.shape), [py_plain(v) for v in ev.ravel().tolist()]
    elif isinstance(ev, (list, tuple)):
        sl = list_shape_leaves(ev)
        if sl is None:
            return False
        shape, flat = list(sl[0]), sl[1]
    else:
        shape, flat = [], [ev]
    gshape, gflat = ([], [gv[2]]) if gv[0] == "s" else (list(gv[2]), list(gv[3]))
    if shape != gshape or len(flat) != len(gflat):
        return False
    for a, b in zip(flat, gflat):
        a = py_plain(a)
        if isinstance(a, str) != isinstance(b, str):
            return False
        if isinstance(a, float) and isinstance(b, float) and a != a and b != b:
            continue                                     # NaN comes back as NaN
        if a != b:
            return False
    return True


def elem_kind(ev):
    """Element kind of an expected array value (None: no element, e.g. [])."""
    if isinstance(ev, np.ndarray):
        return {"b": "bool", "i": "int", "u": "int", "f": "float", "U": "str", "T": "str"}.get(ev.dtype.kind) if ev.size else None
    sl = list_shape_leaves(ev)
    ks = {kind_of_py(x) for x in (sl[1] if sl else [])}
    return ks.pop() if len(ks) == 1 else None


def has_trailing_nul(ev) -> bool:
    if isinstance(ev, str):
        return ev.endswith("\x00")
    if isinstance(ev, (list, tuple)):
        return any(has_trailing_nul(x) for x in ev)
    return False


def column_may_raise(vs) -> bool:
    """Columns for which an exception is documented / expected behaviour: a value that is ragged inside, lists next to scalars,
    strings next to numbers inside lists, an int no 64-bit dtype holds."""
    kinds = {kind_of_py(v) for v in vs}
    if "array" in kinds and len(kinds) > 1:
        return True
    for v in vs:
        if isinstance(v, (list, tuple)):
            sl = list_shape_leaves(v)
            if sl is None:
                return True
            lk = {kind_of_py(x) for x in sl[1]}
            if "str" in lk and len(lk) > 1:
                return True
            if any(kind_of_py(x) == "int" and (x < -B63 or x >= B64) for x in sl[1]):
                return True
        elif kind_of_py(v) == "int" and (v < -B63 or v >= B64):
            return True
    if kinds == {"array"}:
        lks = set()
        for v in vs:
            if isinstance(v, (list, tuple)):
                lks |= {kind_of_py(x) for x in list_shape_leaves(v)[1]}
        if "str" in lks and len(lks) > 1:
            return True
    return False


def canon_value_to_py(c):
    if c[0] == "s":
        return c[2]
    return np.array(c[3], dtype=object).reshape(c[2]).tolist() if c[3] or c[2] else []


def sg_in_domain(exp, axes, pos):
    """The documented domain of the spatial-graph backend for this graph."""
    if not axes and exp["nodes"]:
        return False
    names = set()
    for d in list(exp["nodes"].values()):
        names |= set(d)
    if pos in names and pos not in axes:
        return False
    for table, n in ((exp["nodes"], len(exp["nodes"])), (exp["edges"], len(exp["edges"]))):
        cols = {}
        for d in table.values():
            for k, v in d.items():
                cols.setdefault(k, []).append(v)
        for k, vs in cols.items():
            if len(vs) != n:
                return False                        # missing on some element
            for v in vs:
                kk = kind_of_py(v)
                if kk in ("bool", "str"):
                    return False
                if kk == "array":
                    sl = list_shape_leaves(v) if not isinstance(v, np.ndarray) else ((v.ndim,), v.ravel().tolist())
                    if sl is None or len(sl[0]) != 1 or not sl[1] or any(kind_of_py(x) in ("bool", "str") for x in sl[1]):
                        return False
            st = column_status(vs)
            if not st[0] or st[2]:
                return False
            if kind_of_py(vs[0]) == "array" and len({len(v) for v in vs}) != 1:
                return False                        # var-length
    for ax in axes:
        for d in exp["nodes"].values():
            if ax not in d or kind_of_py(d[ax]) == "array":
                return False
    return True


def compare(c, exp, got_directed, got_nodes, got_edges, reader, axes):
    """got_nodes: {id: {name: canonical value}}.  Returns None or (what, tags)."""
    if got_directed != exp["directed"]:
        return f"directedness {exp['directed']} came back as {got_directed}", {"why": "directed"}
    if set(got_nodes) != set(exp["nodes"]):
        return f"node ids {sorted(exp['nodes'])} came back as {sorted(got_nodes)}", {"why": "node-ids"}
    norm = (lambda e: e) if exp["directed"] else (lambda e: (min(e), max(e)))
    ee = {norm(e): d for e, d in exp["edges"].items()}
    ge = {norm(e): d for e, d in got_edges.items()}
    if len(ge) != len(got_edges) or set(ee) != set(ge):
        return f"edges {sorted(exp['edges'])} came back as {sorted(got_edges)}", {"why": "edges"}
    axis_kinds = {kind_of_py(d[a]) for d in exp["nodes"].values() for a in axes if a in d}
    for what, et, gt in (("node", exp["nodes"], got_nodes), ("edge", ee, ge)):
        cols = {}
        for d in et.values():
            for k, v in d.items():
                cols.setdefault(k, []).append(v)
        status = {k: column_status(vs) for k, vs in cols.items()}
        for key, d in et.items():
            gd = gt[key]
            claimed_names = {k for k in set(d) | set(gd) if k not in status or status[k][0]}
            for k in claimed_names:
                if (k in d) != (k in gd):
                    if k in gd:
                        return (f"{what} {key} lacked property {k!r} but shows {canon_value_to_py(gd[k])!r}", {"why": "fill-value-visible"})
                    return f"{what} {key} lost property {k!r}", {"why": "property-lost"}
                if k not in d:
                    continue
                ev, gv = d[k], gd[k]
                ek = kind_of_py(ev)
                if gv[0] == "bytes":
                    return (f"{what} {key} property {k!r}: {ev!r} came back as a bytes scalar {gv[1]} 0x{gv[3]}", {"why": "sg-8bit-vector"})
                gk = "array" if gv[0] == "a" else gv[1]
                lenient = reader == "sg" and what == "node" and k in axes and len(axis_kinds) > 1
                if ek != gk and not lenient:
                    tags = {"why": "kind", "int_beyond_int64": bool(status[k][2])}
                    return (f"{what} {key} property {k!r}: {ek} value {ev!r} came back as {gk} {canon_value_to_py(gv)!r}", tags)
                if ek == "array" and status[k][2] and gv[0] == "a" and gv[1] == "float":
                    tags = {"why": "kind", "int_beyond_int64": True}
                    return (f"{what} {key} property {k!r}: integer array {ev!r} came back with float elements {canon_value_to_py(gv)!r}", tags)
                if not num_equal(ev, gv):
                    tags = {"why": "value", "int_beyond_int64": bool(status[k][2])}
                    if has_trailing_nul(ev):
                        tags["str_trailing_nul"] = True   # numpy's fixed-width <U strips trailing NULs
                    if ek == "array" and any(isinstance(x, (list, tuple)) and (list_shape_leaves(x) or ((), [0]))[1] == [] for x in cols[k]):
                        tags["empty_list"] = True     # an empty list is typed float64 by numpy and drags the column along
                    return f"{what} {key} property {k!r}: {ev!r} came back as {canon_value_to_py(gv)!r}", tags
                if ek == "array" and gv[0] == "a" and gv[1] != "?" and elem_kind(ev) is not None and elem_kind(ev) != gv[1]:
                    tags = {"why": "elem-kind", "int_beyond_int64": bool(status[k][2])}
                    if any(isinstance(x, (list, tuple)) and (list_shape_leaves(x) or ((), [0]))[1] == [] for x in cols[k]):
                        tags["empty_list"] = True     # an empty list is typed float64 by numpy and drags the column along
                    return (f"{what} {key} property {k!r}: array of {elem_kind(ev)} {ev!r} came back with {gv[1]} elements "
                            f"{canon_value_to_py(gv)!r}", tags)
    return None


def oracle(c, o):
    if c.get("kind") == "name":
        return name_oracle(c, o)
    if c["reader"] == "mem" or c.get("no_oracle"):
        return None
    w = c["writer"]
    if c.get("multi"):
        return multi_oracle(c, o)
    exp = expected_graph(w)
    if exp is None:
        return None                                     # outside the quantifier (malformed input)
    if w["lib"] in ("nx", "rx") and not md_in_quantifier(w, exp):
        return None                                     # caller entries for absent properties, axis lists of the wrong length, invalid axis fields
    if w["lib"] in ("nx", "rx") and effective_axes(w) is not None:
        ax = effective_axes(w)
        if len(set(ax)) != len(ax):
            return None
        for a in ax:
            vs = [d[a] for d in exp["nodes"].values() if a in d]
            if len(vs) != len(exp["nodes"]) or any(kind_of_py(v) in ("array", "str") for v in vs) or not column_status(vs)[0] or column_status(vs)[2]:
                return None                             # an axis must be a complete scalar numeric property
    # names the libraries / zarr cannot carry are not generated
    if w["lib"] == "nx" or w["lib"] == "rx":
        axes = effective_axes(w) or []
    elif w["lib"] == "sg":
        axes = w["axes"] if w["axes"] is not None else (w["md"]["axes"] if w.get("md") and w["md"]["axes"] is not None else [])
    else:
        axes = [a["name"] for a in (w["md"].get("axes") or [])]
    for table in (exp["nodes"], exp["edges"]):
        for d in table.values():
            for v in d.values():
                if kind_of_py(v) == "int" and (v < -B63 or v >= B64):
                    return None
    if c["reader"] == "sg" and not sg_in_domain(exp, axes, c["pos"]):
        return None
    if c["reader"] == "sg" and w["lib"] == "mem" and any(p["missing"] is not None and any(p["missing"]["data"])
                                                          for ps in (w["nprops"], w["eprops"]) for p in ps.values()):
        return None                                     # spatial-graph has no missing values (documented)
    if w["lib"] == "sg" and (not axes and exp["nodes"]):
        return None
    if "exc" in o and c.get("sg8"):
        return Failure(c, o, f"spatial-graph view of an 8-bit position raised {o.get('cls')}: {o.get('msg')}",
                       {"why": "sg-8bit-vector", "exc": o.get("cls"), "writer": w["lib"], "reader": c["reader"]})
    if "exc" in o:
        # any column that cannot be one array (mixed kinds, strings with numbers, ragged inside a value) excuses an exception
        for table in (exp["nodes"], exp["edges"]):
            cols = {}
            for d in table.values():
                for k, v in d.items():
                    cols.setdefault(k, []).append(v)
            if any(column_may_raise(vs) for vs in cols.values()):
                return None
        return Failure(c, o, f"round trip {w['lib']} -> {c['reader']} raised {o.get('cls')}: {o.get('msg')}",
                       {"why": "raises", "exc": o.get("cls"), "writer": w["lib"], "reader": c["reader"]})
    if "nx" in o:
        x = o["nx"]
        gn = {n: d for n, d in x["nodes"]}
        ge = {tuple(e): d for e, d in x["edges"]}
        r = compare(c, exp, x["directed"], gn, ge, "nx", axes)
    elif "rx" in o:
        x = o["rx"]
        inv = {}
        for k, v in x["map"]:
            inv.setdefault(v, []).append(k)
        if any(len(inv.get(i, [])) != 1 for i, _ in x["view_nodes"]):
            return Failure(c, o, "to_rx_id_map does not identify every rustworkx node with exactly one geff id", {"why": "node-ids"})
        gn = {inv[i][0]: d for i, d in x["view_nodes"]}
        ge = {(inv[e[0]][0], inv[e[1]][0]): d for e, d in x["view_edges"]}
        r = compare(c, exp, x["directed"], gn, ge, "rx", axes)
    else:
        x = o["sg"]
        gn = {n: d for n, d in x["nodes"]}
        ge = {tuple(e): d for e, d in x["edges"]}
        r = compare(c, exp, x["directed"], gn, ge, "sg", axes)
    if r is None:
        r = md_oracle(c, o, exp)
    if r is None:
        return None
    what, tags = r
    tags = dict(tags, writer=w["lib"], reader=c["reader"])
    return Failure(c, o, f"{w['lib']} -> {c['reader']} (zarr {c['fmt']}): {what}", tags)


# ---- property names (audit F3) ----
RESERVED_V2 = (".zarray", ".zgroup", ".zattrs", ".zmetadata")
RESERVED_V3 = ("zarr.json",)


def name_ok_py(name: str, fmt=None) -> bool:
    """Names.name_ok (fmt None) / Names.name_ok_fmt, re-stated from the zarr rules, not from the Coq text."""
    if name == "" or "/" in name or "\\" in name or name in (".", ".."):
        return False
    if fmt in (None, 2) and name in RESERVED_V2:
        return False
    if fmt in (None, 3) and name in RESERVED_V3:
        return False
    return True


def name_oracle(c, o):
    """Every property name: the write either round-trips exactly or is refused with an exception leaving no geff behind; a set of
    usable names (name_ok for the format) must round-trip."""
    for fmt in (2, 3):
        r = o["name"][str(fmt)]
        usable = all(name_ok_py(n, fmt) for n in c["names"])
        if r["ok"]:
            continue
        if r["exc"] is None:
            return Failure(c, o, f"property names {c['names']!r} (zarr {fmt}): the graph read back differs from the graph written",
                           {"why": "name", "fmt": fmt})
        if r["left"]:
            return Failure(c, o, f"property names {c['names']!r} (zarr {fmt}): {r['exc']} raised and a geff was left behind",
                           {"why": "name-left", "fmt": fmt})
        if usable:
            return Failure(c, o, f"usable property names {c['names']!r} (zarr {fmt}) refused: {r['exc']}: {r.get('msg')}",
                           {"why": "name-refused", "fmt": fmt})
    return None


# ---- repeated edges (audit F4): what each backend alone promises ----
def multi_edges(w):
    """(directed, {id: attrs}, [((u, v), attrs)] in stored order) of a rustworkx writer / an in-memory geff with repeated edges."""
    if w["lib"] == "rx":
        idm = None if w["idmap"] is None else {a: b for a, b in w["idmap"]}
        tr = (lambda i: i) if idm is None else (lambda i: idm[i])
        nodes = {tr(i): dec_attrs(s_) for i, s_ in enumerate(w["slots"]) if s_ is not None}
        return w["directed"], nodes, [((tr(u), tr(v)), dec_attrs(a)) for (u, v), a in w["edges"]]
    nids = gg.to_np(w["nids"]).tolist()
    eids = [tuple(r) for r in gg.to_np(w["eids"]).reshape(-1, 2).tolist()]
    ne = [dict() for _ in nids]
    ee = [dict() for _ in eids]
    for ps, out in ((w["nprops"], ne), (w["eprops"], ee)):
        for k, p in (gg.props_to_np(ps) or {}).items():
            for i in range(len(out)):
                if p["missing"] is None or not p["missing"][i]:
                    out[i][k] = np.asarray(p["values"][i]).tolist()
    return w["md"]["directed"], dict(zip(nids, ne)), list(zip(eids, ee))


def multi_oracle(c, o):
    """rustworkx keeps every parallel edge, in order, with its own attributes; networkx keeps ONE edge per key (unordered key when
    undirected) carrying, per property, the value of the LAST occurrence that has it (documented domain of networkx: simple graphs)."""
    w = c["writer"]
    directed, nodes, edges = multi_edges(w)
    norm = (lambda e: e) if directed else (lambda e: (min(e), max(e)))
    if "exc" in o:
        return Failure(c, o, f"multigraph {w['lib']} -> {c['reader']} raised {o.get('cls')}: {o.get('msg')}",
                       {"why": "raises", "exc": o.get("cls"), "writer": w["lib"], "reader": c["reader"], "multi": True})
    if "nx" in o:
        x = o["nx"]
        coll = {}
        for e, a in edges:
            coll.setdefault(norm(e), {}).update(a)          # later occurrences overwrite, property by property
        exp = {"directed": directed, "nodes": nodes, "edges": coll}
        r = compare(c, exp, x["directed"], {n: d for n, d in x["nodes"]}, {tuple(e): d for e, d in x["edges"]}, "nx", [])
    elif "rx" in o:
        x = o["rx"]
        inv = {v: k for k, v in x["map"]}
        # the RxGraphAdapter addresses an edge by its endpoints (graph.get_edge_data(u, v)) and so cannot tell parallel edges apart:
        # the edges of a multigraph are read off weighted_edge_list() (what the correspondence compares as well)
        if len(inv) != len(x["map"]) or len(x["edges"]) != len(edges):
            return Failure(c, o, f"rustworkx multigraph: {len(edges)} edges written, {len(x['edges'])} read", {"why": "edges", "multi": True})
        r = compare(c, {"directed": directed, "nodes": nodes, "edges": {}}, x["directed"], {inv[i]: d for i, d in x["view_nodes"]}, {}, "rx", [])
        for j, ((e, a), (ge, gd)) in enumerate(zip(edges, x["edges"])):
            if r is not None:
                break
            gkey = (inv[ge[0]], inv[ge[1]])
            if norm(gkey) != norm(e):
                r = (f"edge {j}: {e} came back as {gkey}", {"why": "edges"})
                break
            ends = {e[0]: nodes[e[0]], e[1]: nodes[e[1]]}
            r = compare(c, {"directed": directed, "nodes": ends, "edges": {e: a}}, directed,
                        {k: {kk: cv(vv) for kk, vv in d.items()} for k, d in ends.items()}, {gkey: gd}, "rx", [])
    else:
        return None
    if r is None:
        return None
    what, tags = r
    return Failure(c, o, f"multigraph {w['lib']} -> {c['reader']}: {what}", dict(tags, writer=w["lib"], reader=c["reader"], multi=True))


VALID_AXIS_TYPES = (None, "space", "time", "channel")


def md_in_quantifier(w, exp) -> bool:
    """The metadata arguments of a networkx / rustworkx write are ones the property speaks about."""
    al = w.get("axlists") or {}
    if al and w.get("axes") is None:
        return True                                     # the lists are ignored without axis_names
    for k in AXLIST_KEYS:
        if al.get(k) is not None and len(al[k]) != len(w["axes"]):
            return False
    if any(t not in VALID_AXIS_TYPES for t in (al.get("axis_types") or [])):
        return False
    if any(u is not None and ((al.get("axis_scales") or [None] * len(w["axes"]))[k] is None) for k, u in enumerate(al.get("scaled_units") or [])):
        return False
    cmd = w.get("cmd")
    if cmd is not None:
        nnames = {k for d in exp["nodes"].values() for k in d}
        enames = {k for d in exp["edges"].values() for k in d}
        if not set(cmd.get("nprops_md") or {}) <= nnames or not set(cmd.get("eprops_md") or {}) <= enames:
            return False
        if cmd.get("display_hints") is not None:
            return False
    return True


def md_oracle(c, o, exp):
    """The metadata read back after a networkx / rustworkx write with caller metadata / axis lists, from the property text:
    directedness of the GRAPH, one axis per effective axis name with min / max of the column and the fields handed in, one entry per
    written property keeping the caller's unit / name / description, the caller's extra."""
    w = c["writer"]
    mdj = o.get("mdj")
    if mdj is None or w["lib"] not in ("nx", "rx"):
        return None
    if mdj["directed"] != exp["directed"]:
        return f"metadata says directed={mdj['directed']} for a graph with directed={exp['directed']}", {"why": "md-directed"}
    names = effective_axes(w)
    got = mdj.get("axes")
    if names is None:
        if got:
            return f"axes {got} appeared from nowhere", {"why": "md-axes"}
    else:
        if [a["name"] for a in (got or [])] != names:
            return f"axes {names} came back as {[a['name'] for a in (got or [])]}", {"why": "md-axes"}
        for k, a in enumerate(got):
            col = [d[names[k]] for d in exp["nodes"].values() if names[k] in d]
            if col and (a.get("min") != float(min(col)) or a.get("max") != float(max(col))):
                return (f"axis {names[k]!r}: column min/max {float(min(col))}/{float(max(col))} stored as {a.get('min')}/{a.get('max')}", {"why": "md-axis-minmax"})
            want = axis_entry(w, k) if w.get("axes") is not None else {f: w["cmd"]["axes"][k].get(f) for f in ("type", "unit", "scale", "scaled_unit", "offset")}
            for f, v in want.items():
                if a.get(f) != v:
                    return f"axis {names[k]!r}: {f}={v!r} handed in, {a.get(f)!r} stored", {"why": "md-axis-field", "field": f}
    for kind, table, key in (("node", exp["nodes"], "node_props_metadata"), ("edge", exp["edges"], "edge_props_metadata")):
        have = {k for d in table.values() for k in d}
        if set(mdj.get(key) or {}) != have:
            return f"{kind} properties {sorted(have)} are declared as {sorted(mdj.get(key) or {})}", {"why": "md-entries"}
        for nm, ent in ((w.get("cmd") or {}).get("nprops_md" if kind == "node" else "eprops_md") or {}).items():
            for f in ("unit", "name", "description"):
                if ent.get(f) is not None and mdj[key][nm].get(f) != ent[f]:
                    return f"{kind} property {nm!r}: caller's {f}={ent[f]!r} came back as {mdj[key][nm].get(f)!r}", {"why": "md-entry-field"}
    if (w.get("cmd") or {}).get("extra") and mdj.get("extra") != w["cmd"]["extra"]:
        return f"extra {w['cmd']['extra']} came back as {mdj.get('extra')}", {"why": "md-extra"}
    return None


# --------------------------------------------------------------------------
# generators
# --------------------------------------------------------------------------
ID_POOL = [0, 1, 2, 3, 5, 7, 40, 255, 256, 65535, 2 ** 31, 2 ** 32 - 1, 2 ** 53 + 1, B63 - 2, B63 - 1, B63, B63 + 1, B63 + 5, B64 - 2, B64 - 1]
FLOATS = [0.0, 0.5, 1.5, -2.25, 3.0, 100.125, -0.0009765625, 4096.0, 2.0 ** 20,
          # multiples of 2^-10 that are NOT float32-exact (and not float16-exact): a narrowing through float32 would change them
          2.0 ** 20 + 2.0 ** -10, 2.0 ** 40 + 2.0 ** -10, -(2.0 ** 30) - 2.0 ** -10, 8193.0009765625, 16777217.0]
# floats the payload encoding (value * 2^10) cannot carry: oracle-only
FLOATS_X = [0.1, 1e-7, 2.0 ** -30, 1 / 3, 1e300, 5e-324, -0.1, 123456.789, {"__f__": "nan"}, {"__f__": "inf"}, {"__f__": "-inf"}]
INTS = [0, 1, -1, 2, 7, -128, 255, 2 ** 31, -(2 ** 31) - 1, 2 ** 53 + 1, B63 - 1, -B63]
BIGINTS = [B63, B63 + 1, B63 + 5, B64 - 1, B64 - 2]
STRS = ["a", "", "bcd", "ünï", "x y", "0", "日本", " a "]
STRS_NUL = ["a\x00", "\x00", "ab\x00\x00", "a\x00b"]          # trailing NULs are stripped by numpy's <U (open finding); an inner NUL is kept
NAMES = ["a", "b", "w", "score", "label", "flag", "p0", "vec", "名", " ", "a.b", "..a", "values", "c"]


def rand_ids(rng, n, big=True):
    # structured id sets: exactly {0..n-1} or a contiguous range, stored in a shuffled (or the sorted) order -- the layouts for which an
    # "ids are the identity / a dense range" shortcut in a backend is tempting and wrong when the stored order is not the sorted one
    r = rng.random()
    if n >= 2 and r < 0.3:
        base = 0 if r < 0.2 else rng.choice([1, 5, 2**32 - 1] if big else [1, 5])
        ids = [base + i for i in range(n)]
        if r >= 0.05:
            rng.shuffle(ids)
        return ids
    ids = []
    while len(ids) < n:
        v = rng.choice(ID_POOL) if big and rng.random() < 0.6 else rng.randint(0, 30)
        if v not in ids:
            ids.append(v)
    return ids


def rand_leaf(rng, kind):
    if kind == "bool":
        return rng.random() < 0.5
    if kind == "int":
        return rng.choice(INTS) if rng.random() < 0.5 else rng.randint(-20, 20)
    if kind == "bigint":
        return rng.choice(BIGINTS)
    if kind == "float":
        return rng.choice(FLOATS) if rng.random() < 0.6 else rng.randint(-2000, 2000) / rng.choice([1, 2, 4, 8])
    return rng.choice(STRS)


def rand_list(rng, kind, shape):
    if not shape:
        return rand_leaf(rng, kind)
    return [rand_list(rng, kind, shape[1:]) for _ in range(shape[0])]


COLUMN_KINDS = ["bool", "int", "float", "str", "bigint", "int+bigint", "list1", "list2", "ragged", "ragged2", "ragged_rank", "ragged_empty",
                "int+float", "bool+int", "liststr", "listbool", "listbig", "raggedbig", "emptylists"]
# value classes outside the Coq encoding (oracle-only): numpy scalars / arrays as attribute values, non-dyadic / non-finite floats,
# strings with NUL characters
X_KINDS = ["floatx", "floatx_list", "strnul", "np_bool", "np_u64", "np_i8", "np_f32", "np_f16", "np_mixed", "np_arr_u8", "np_arr_f32",
           "np_arr_bool", "np_arr_ragged", "np_arr_ragged_mixed", "np_arr_u64"]


def rand_column(rng, n, kind=None, presence=None):
    """n optional values of one property."""
    kind = kind or rng.choice(COLUMN_KINDS)
    presence = presence or rng.choice(["all", "all", "subset", "subset", "notfirst", "one", "none"])
    if kind in ("bool", "int", "float", "str", "bigint"):
        vals = [rand_leaf(rng, kind) for _ in range(n)]
    elif kind == "int+bigint":
        vals = [rand_leaf(rng, rng.choice(["int", "bigint"])) for _ in range(n)]
        if n:
            vals[rng.randrange(n)] = rng.choice(BIGINTS)
    elif kind == "int+float":
        vals = [rand_leaf(rng, rng.choice(["int", "float"])) for _ in range(n)]
    elif kind == "bool+int":
        vals = [rand_leaf(rng, rng.choice(["bool", "int"])) for _ in range(n)]
    elif kind in ("list1", "liststr", "listbool"):
        lk = {"list1": rng.choice(["int", "float"]), "liststr": "str", "listbool": "bool"}[kind]
        k = rng.randint(1, 3)
        vals = [rand_list(rng, lk, [k]) for _ in range(n)]
    elif kind == "list2":
        lk = rng.choice(["int", "float", "bool"])
        sh = [rng.randint(1, 2), rng.randint(1, 3)]
        vals = [rand_list(rng, lk, sh) for _ in range(n)]
    elif kind == "listbig":
        k = rng.randint(1, 3)
        vals = [rand_list(rng, "bigint", [k]) for _ in range(n)]
    elif kind == "raggedbig":
        vals = [rand_list(rng, "bigint", [rng.randint(1, 3)]) for _ in range(n)]
    elif kind == "emptylists":
        sh = rng.choice([[0], [0], [2, 0], [0, 2]])
        vals = [rand_list(rng, "int", sh) for _ in range(n)]
    elif kind == "floatx":
        vals = [rng.choice(FLOATS_X) for _ in range(n)]
    elif kind == "floatx_list":
        k = rng.randint(1, 2)
        vals = [[rng.choice(FLOATS_X[:8]) for _ in range(k)] for _ in range(n)]
    elif kind == "strnul":
        vals = [rng.choice(STRS_NUL + STRS[:3]) for _ in range(n)]
        if n:
            vals[rng.randrange(n)] = rng.choice(STRS_NUL[:3])
    elif kind == "np_bool":
        vals = [np_scalar("bool", rng.random() < 0.5) for _ in range(n)]
    elif kind == "np_u64":
        vals = [np_scalar("uint64", rng.choice(BIGINTS)) for _ in range(n)]
    elif kind == "np_i8":
        vals = [np_scalar("int8", rng.randint(-128, 127)) for _ in range(n)]
    elif kind == "np_f32":
        vals = [np_scalar("float32", rng.choice([0.1, 1.5, -2.25, 1e-7, 3.0e38])) for _ in range(n)]
    elif kind == "np_f16":
        vals = [np_scalar("float16", rng.choice([0.1, 1.5, -2.25, 1000.5])) for _ in range(n)]
    elif kind == "np_mixed":
        vals = [rng.choice([np_scalar("int8", -1), np_scalar("uint8", 200), np_scalar("int64", 2 ** 40), np_scalar("uint16", 7)]) for _ in range(n)]
    elif kind == "np_arr_u8":
        k = rng.randint(1, 3)
        vals = [np_array("uint8", [rng.randint(0, 255) for _ in range(k)]) for _ in range(n)]
    elif kind == "np_arr_f32":
        k = rng.randint(1, 3)
        vals = [np_array("float32", [rng.choice([0.1, 1.5, -2.25, 1e-7]) for _ in range(k)]) for _ in range(n)]
    elif kind == "np_arr_bool":
        vals = [np_array("bool", [[rng.random() < 0.5, rng.random() < 0.5]]) for _ in range(n)]
    elif kind == "np_arr_ragged":
        vals = [np_array("uint8", [rng.randint(0, 255) for _ in range(rng.randint(1, 3))]) for _ in range(n)]
    elif kind == "np_arr_ragged_mixed":
        vals = [np_array(rng.choice(["int8", "uint8"]), [rng.randint(0, 100) for _ in range(rng.randint(1, 3))]) for _ in range(n)]
    elif kind == "np_arr_u64":
        k = rng.randint(1, 2)
        vals = [np_array("uint64", [rng.choice(BIGINTS) for _ in range(k)]) for _ in range(n)]
    elif kind == "ragged":
        lk = rng.choice(["int", "float", "bool", "str"])
        vals = [rand_list(rng, lk, [rng.randint(1, 3)]) for _ in range(n)]
    elif kind == "ragged2":
        lk = rng.choice(["int", "float"])
        vals = [rand_list(rng, lk, [rng.randint(1, 2), rng.randint(1, 3)]) for _ in range(n)]
    elif kind == "ragged_rank":
        lk = rng.choice(["int", "float"])
        vals = [rand_list(rng, lk, [rng.randint(1, 3)] if rng.random() < 0.5 else [1, rng.randint(1, 3)]) for _ in range(n)]
    else:  # ragged_empty
        lk = rng.choice(["int", "float"])
        vals = [rand_list(rng, lk, [rng.randint(0, 2)]) for _ in range(n)]
    if presence == "all":
        keep = [True] * n
    elif presence == "subset":
        keep = [rng.random() < 0.6 for _ in range(n)]
    elif presence == "notfirst":
        keep = [i > 0 for i in range(n)]
    elif presence == "one":
        j = rng.randrange(n) if n else 0
        keep = [i == j for i in range(n)]
    else:
        keep = [False] * n
    return [v if k else None for v, k in zip(vals, keep)]


def rand_edges(rng, ids, directed, self_loops=True, max_e=6):
    pairs = [(u, v) for u in ids for v in ids if (u != v or self_loops)]
    rng.shuffle(pairs)
    out, seen = [], set()
    for u, v in pairs:
        key = (u, v) if directed else (min(u, v), max(u, v))
        if key in seen:
            continue
        seen.add(key)
        out.append((u, v))
        if len(out) >= max_e:
            break
    e = 0 if not pairs else rng.choice([0, 1, 2, rng.randint(0, max_e)])
    return out[:e]


def attach(n, cols: dict):
    """{name: [optional value]*n} -> list of attribute dicts."""
    out = [dict() for _ in range(n)]
    for name, col in cols.items():
        for i, v in enumerate(col):
            if v is not None:
                out[i][name] = v
    return out


def rand_nx_writer(rng, max_n=6, sg_template=None):
    directed = rng.random() < 0.5
    if sg_template is not None:
        return template_nx(rng, sg_template, directed)
    n = rng.choice([0, 1, 2, 3, rng.randint(0, max_n)])
    ids = rand_ids(rng, n)
    edges = rand_edges(rng, ids, directed)
    ncols = {nm: rand_column(rng, n) for nm in rng.sample(NAMES, rng.randint(0, 3))}
    ecols = {nm: rand_column(rng, len(edges)) for nm in rng.sample(NAMES, rng.randint(0, 2))}
    axes = None
    if n and rng.random() < 0.3:
        axes = rng.sample(["x", "y", "t"], rng.randint(1, 2))
        for a in axes:
            k = rng.choice(["float", "float", "int"])
            ncols[a] = [small_leaf(rng, k) for _ in range(n)]       # axis bounds pass through Python float: keep them small
    na, ea = attach(n, ncols), attach(len(edges), ecols)
    return {"lib": "nx", "directed": directed, "nodes": [[i, a] for i, a in zip(ids, na)],
            "edges": [[list(e), a] for e, a in zip(edges, ea)], "axes": axes}


UNITS = {"x": "micrometer", "y": "micrometer", "z": "nanometer", "t": "second"}
TYPES = {"x": "space", "y": "space", "z": "space", "t": "time"}


def rand_md_writer(rng, mode=None, n=None):
    """A networkx writer with one of the metadata call shapes: axis_names with per-axis lists, a caller GeffMetadata (axes named in
    it, stale ranges, `directed` possibly opposite to the graph's, entries with unit / name / description, extra), both, or neither."""
    directed = rng.random() < 0.5
    n = rng.choice([1, 2, 3, 4]) if n is None else n
    ids = rand_ids(rng, n)
    edges = rand_edges(rng, ids, directed)
    axn = rng.sample(["x", "y", "z", "t"], rng.randint(1, 3))
    ncols = {}
    for a in axn:
        k = rng.choice(["float", "float", "int", "bool"]) if rng.random() < 0.9 else "bool"
        ncols[a] = [small_leaf(rng, k) if k != "bool" else rng.random() < 0.5 for _ in range(n)]
    for nm in rng.sample(NAMES, rng.randint(0, 2)):
        ncols[nm] = rand_column(rng, n, kind=rng.choice(["bool", "int", "float", "str", "list1", "ragged"]))
    ecols = {nm: rand_column(rng, len(edges), kind=rng.choice(["int", "float", "str"])) for nm in rng.sample(NAMES, rng.randint(0, 1))}
    mode = mode or rng.choice(["lists", "lists", "md", "md", "both", "md_noaxes", "lists_bare"])
    axes, axlists, cmd = None, None, None
    if mode in ("lists", "both", "lists_bare"):
        axes = list(axn)
        if mode != "lists_bare":
            lst = lambda f, p_absent=0.35: None if rng.random() < p_absent else [f(a) if rng.random() < 0.75 else None for a in axn]
            axlists = {"axis_units": lst(lambda a: UNITS[a]), "axis_types": lst(lambda a: TYPES[a]),
                       "axis_scales": lst(lambda a: rng.choice([0.5, 2.0, 1.0])), "scaled_units": lst(lambda a: UNITS[a], 0.6),
                       "axis_offset": lst(lambda a: rng.choice([-1.5, 10.0, 0.0]))}
            if axlists["scaled_units"] is not None:         # Axis: a scaled unit needs a scale (the invalid combination is in md_malformed)
                axlists["scaled_units"] = [u if axlists["axis_scales"] is not None and axlists["axis_scales"][k] is not None else None
                                           for k, u in enumerate(axlists["scaled_units"])]
    if mode in ("md", "both", "md_noaxes"):
        present = [k for k, col in ncols.items() if any(v is not None for v in col)]
        epresent = [k for k, col in ecols.items() if any(v is not None for v in col)]
        cax = None
        if mode == "md":
            cax = [{"name": a, "min": -100.0, "max": 100.0, "unit": UNITS[a] if rng.random() < 0.7 else None,
                    "type": TYPES[a] if rng.random() < 0.7 else None, **({"scale": 0.5, "offset": 2.0} if rng.random() < 0.3 else {})} for a in axn]
        elif mode == "both":
            cax = [{"name": rng.choice(["q", axn[0]]), "min": 0.0, "max": 1.0}]          # replaced by axis_names; may name no property
        cmd = {"directed": (not directed) if rng.random() < 0.6 else directed, "axes": cax,
               "nprops_md": {k: {"identifier": k, "dtype": "int8", "unit": "um", **({"name": "N " + k, "description": "d"} if rng.random() < 0.5 else {})}
                             for k in present if rng.random() < 0.5},
               "eprops_md": {k: {"identifier": k, "dtype": "float32", "varlength": True, "unit": "s"} for k in epresent if rng.random() < 0.5},
               "extra": {"k": 7, "who": "caller"} if rng.random() < 0.5 else None}
    na, ea = attach(n, ncols), attach(len(edges), ecols)
    return {"lib": "nx", "directed": directed, "nodes": [[i, a] for i, a in zip(ids, na)],
            "edges": [[list(e), a] for e, a in zip(edges, ea)], "axes": axes, "axlists": axlists, "cmd": cmd, "mdmode": mode}


def md_malformed(rng):
    """metadata call shapes outside args_dom: each is refused with an exception and leaves no geff."""
    out = []
    base = lambda **kw: {"lib": "nx", "directed": True, "nodes": [[1, {"x": 1.0, "a": 3}], [2, {"x": 2.5, "a": 4}]], "edges": [[[1, 2], {}]],
                         "axes": None, "axlists": None, "cmd": None, **kw}
    ghost = {"directed": True, "axes": None, "nprops_md": {"ghost": {"identifier": "ghost", "dtype": "int8"}}, "eprops_md": {}}
    out.append((base(cmd=ghost), {}))
    out.append((base(cmd={"directed": False, "axes": [{"name": "nope"}], "nprops_md": {}, "eprops_md": {}}), {}))          # caller axis that is no property
    out.append((base(axes=["x", "x"], axlists={"axis_units": ["micrometer", "micrometer"]}), {}))
    w = base(axes=["x"], axlists={"axis_types": ["space"]})
    w["nodes"][1][1].pop("x")
    out.append((w, {}))                                                                                                     # axis missing on a node
    out.append((base(axes=["x"], axlists={"axis_units": ["micrometer", "second"]}), {"outside_ok": True}))                  # list length
    out.append((base(axes=["x"], axlists={"axis_types": ["bogus"]}), {"oracle_only": True}))
    out.append((base(axes=["x"], axlists={"scaled_units": ["micrometer"]}), {"oracle_only": True}))                        # scaled unit without a scale
    sx = base(cmd={"directed": True, "axes": [{"name": "s"}], "nprops_md": {}, "eprops_md": {}})
    for nd in sx["nodes"]:
        nd[1]["s"] = "txt"
    out.append((sx, {"oracle_only": True}))                                                                                 # a string axis: np.min has no loop
    # the lists are ignored without axis_names
    out.append((base(axlists={"axis_units": ["micrometer"]}), {}))
    # empty graph with axes from the lists / from the caller
    out.append(({"lib": "nx", "directed": False, "nodes": [], "edges": [], "axes": ["x", "t"], "axlists": {"axis_types": ["space", "time"]}, "cmd": None}, {}))
    out.append(({"lib": "nx", "directed": False, "nodes": [], "edges": [], "axes": None, "axlists": None,
                 "cmd": {"directed": True, "axes": [{"name": "x", "min": -1.0, "max": 1.0}], "nprops_md": {}, "eprops_md": {}}}, {}))
    return out


def md_cases(rng, quick):
    out = []
    for i in range(70 if quick else 700):
        w = rand_md_writer(rng)
        fmt = rng.choice([2, 3])
        for r in (["mem", "nx"] if i % 3 else ["mem", "nx", "rx"]):
            out.append(case(w, r, fmt, block="md"))
        if i % 3 == 0:
            wr = to_rx_writer(rng, w, idmap_mode=rng.choice(["none", "ids"]))
            wr["cmd"], wr["axlists"] = w["cmd"], w["axlists"]
            for r in ("mem", "rx"):
                out.append(case(wr, r, fmt, block="md"))
    for w, kw in md_malformed(rng):
        for r in ("mem", "nx"):
            out.append(case(w, r, 2, block="md-malformed", **kw))
    return out


def to_rx_writer(rng, w, holes=True, idmap_mode=None):
    """The same graph as a rustworkx object: slots (None = removed node), edges between indices, optional node_id_dict."""
    ids = [n for n, _ in w["nodes"]]
    slots, index = [], {}
    for n, a in w["nodes"]:
        while holes and rng.random() < 0.3:
            slots.append(None)
        index[n] = len(slots)
        slots.append(a)
    if holes and rng.random() < 0.3:
        slots.append(None)
    mode = idmap_mode or rng.choice(["none", "ids", "ids", "missingkey"])
    if mode == "none":
        idmap = None
    else:
        idmap = [[index[n], n] for n in ids]
        if mode == "missingkey" and idmap:
            idmap.pop(rng.randrange(len(idmap)))
    edges = [[[index[u], index[v]], a] for (u, v), a in w["edges"]]
    return {"lib": "rx", "directed": w["directed"], "slots": slots, "edges": edges, "idmap": idmap, "axes": w["axes"]}


# --- graphs every backend can hold: a small fixed family of (names, dtypes) so that spatial_graph compiles few classes ---
SG_TEMPLATES = {
    "T1": {"axes": ["t"], "axk": "int", "nattrs": {}, "eattrs": {}},
    "T2": {"axes": ["x", "y"], "axk": "float", "nattrs": {"a": ("int", None)}, "eattrs": {"w": ("float", None)}},
    "T3": {"axes": ["t", "y", "x"], "axk": "int", "nattrs": {"vec": ("int", 2)}, "eattrs": {}},
    "T4": {"axes": ["x"], "axk": "float", "nattrs": {"a": ("int", None), "score": ("float", None)}, "eattrs": {"w": ("int", None), "ev": ("float", 2)}},
    # negative control (used with idt = int8 / uint8 only): an 8-bit VECTOR attribute, which spatial_graph hands back as bytes
    "T8": {"axes": ["x"], "axk": "float", "nattrs": {"vec": ("int", 2)}, "eattrs": {}},
}


NONNEG = [False]


def small_leaf(rng, kind):
    if kind == "int":
        return rng.randint(0, 50) if NONNEG[0] else rng.randint(-50, 50)
    return rng.randint(-400, 400) / 4


def template_nx(rng, tname, directed, n=None):
    t = SG_TEMPLATES[tname]
    n = rng.choice([1, 2, 3, 5]) if n is None else n
    ids = rand_ids(rng, n)
    edges = rand_edges(rng, ids, directed, self_loops=False, max_e=5)
    nodes = []
    for i in ids:
        d = {a: small_leaf(rng, t["axk"]) for a in t["axes"]}
        for k, (kind, inner) in t["nattrs"].items():
            d[k] = small_leaf(rng, kind) if inner is None else [small_leaf(rng, kind) for _ in range(inner)]
        nodes.append([i, d])
    es = []
    for e in edges:
        d = {k: (small_leaf(rng, kind) if inner is None else [small_leaf(rng, kind) for _ in range(inner)]) for k, (kind, inner) in t["eattrs"].items()}
        es.append([list(e), d])
    return {"lib": "nx", "directed": directed, "nodes": nodes, "edges": es, "axes": list(t["axes"]), "template": tname}


def template_sg(rng, tname, directed, node_dtype="uint64", fdt="float64", idt="int64", n=None, md_mode=None):
    """A spatial_graph object of the template's signature."""
    t = SG_TEMPLATES[tname]
    NONNEG[0] = idt.startswith("uint")
    w = template_nx(rng, tname, directed, n)
    NONNEG[0] = False
    info = np.iinfo(node_dtype)
    ids = []
    while len(ids) < len(w["nodes"]):
        v = rng.choice([x for x in ID_POOL if x <= info.max]) if rng.random() < 0.5 else rng.randint(0, min(info.max, 60))
        if v not in ids:
            ids.append(v)
    ren = {old: new for (old, _), new in zip(w["nodes"], ids)}
    dt_of = {"int": idt, "float": fdt}
    nattrs = {k: {"dtype": dt_of[kind], "inner": inner, "rows": [d[k] for _, d in w["nodes"]]} for k, (kind, inner) in t["nattrs"].items()}
    nattrs["position"] = {"dtype": dt_of[t["axk"]], "inner": len(t["axes"]), "rows": [[d[a] for a in t["axes"]] for _, d in w["nodes"]]}
    eattrs = {k: {"dtype": dt_of[kind], "inner": inner, "rows": [d[k] for _, d in w["edges"]]} for k, (kind, inner) in t["eattrs"].items()}
    md_mode = md_mode or rng.choice(["arg", "md", "both"])
    return {"lib": "sg", "directed": directed, "node_dtype": node_dtype, "ndims": len(t["axes"]), "pos_name": "position",
            "nodes": ids, "nattrs": nattrs, "edges": [[ren[u], ren[v]] for (u, v), _ in w["edges"]], "eattrs": eattrs,
            "md": None if md_mode == "arg" else {"directed": rng.random() < 0.5, "axes": list(t["axes"])},
            "axes": None if md_mode == "md" else list(t["axes"]), "template": tname}


def mem_from_template(rng, tname, directed, node_dtype="uint64", fdt="float64", idt="int64", n=None, missing=False):
    """An in-memory geff every backend accepts (or, with missing, every backend but spatial-graph)."""
    t = SG_TEMPLATES[tname]
    w = template_sg(rng, tname, directed, node_dtype, fdt, idt, n, "arg")
    N, E = len(w["nodes"]), len(w["edges"])
    dt_of = {"int": idt, "float": fdt}
    nprops, eprops = {}, {}
    for j, a in enumerate(t["axes"]):
        nprops[a] = {"values": {"dtype": dt_of[t["axk"]], "shape": [N], "data": [r[j] for r in w["nattrs"]["position"]["rows"]]}, "missing": None}
    for k, (kind, inner) in t["nattrs"].items():
        rows = w["nattrs"][k]["rows"]
        nprops[k] = {"values": {"dtype": dt_of[kind], "shape": [N] + ([inner] if inner else []), "data": [x for r in rows for x in (r if inner else [r])]},
                     "missing": gg.rand_mask(rng, N, "rand") if missing else None}
    for k, (kind, inner) in t["eattrs"].items():
        rows = w["eattrs"][k]["rows"]
        eprops[k] = {"values": {"dtype": dt_of[kind], "shape": [E] + ([inner] if inner else []), "data": [x for r in rows for x in (r if inner else [r])]},
                     "missing": gg.rand_mask(rng, E, "rand") if missing else None}
    md = {"directed": directed, "axes": [{"name": a} for a in t["axes"]],
          "nprops_md": {k: {"identifier": k, "dtype": v["values"]["dtype"]} for k, v in nprops.items()},
          "eprops_md": {k: {"identifier": k, "dtype": v["values"]["dtype"]} for k, v in eprops.items()}}
    return {"lib": "mem", "nids": {"dtype": node_dtype, "shape": [N], "data": w["nodes"]},
            "eids": {"dtype": node_dtype, "shape": [E, 2], "data": [x for e in w["edges"] for x in e]},
            "nprops": nprops, "eprops": eprops, "md": md, "template": tname}


def rand_mem(rng):
    """A general in-memory geff (any dtype, masks, var-length): networkx / rustworkx construct."""
    g = gg.rand_graph(rng, max_n=5, max_e=5, max_props=3, axes=False)
    n = g["nids"]["shape"][0]
    # unique ids, edges between listed nodes, no repeated edge (a well-formed geff)
    ids = g["nids"]["data"]
    e = g["eids"]["shape"][0]
    pairs = [(u, v) for u in ids for v in ids if u != v]
    rng.shuffle(pairs)
    seen, es = set(), []
    for u, v in pairs:
        k = (u, v) if g["md"]["directed"] else (min(u, v), max(u, v))
        if k not in seen:
            seen.add(k)
            es.append((u, v))
    es = es[:e]
    g["eids"] = {"dtype": g["nids"]["dtype"], "shape": [len(es), 2], "data": [x for p in es for x in p]}
    for ps, cnt in ((g["nprops"], n), (g["eprops"], len(es))):
        for k in list((ps or {})):
            p = ps[k]
            if "vlen" in p["values"]:
                p["values"]["vlen"] = p["values"]["vlen"][:cnt] if len(p["values"]["vlen"]) >= cnt else None
                if p["values"]["vlen"] is None:
                    del ps[k]
                    continue
                # exact floats / no zero-sized python-visible problems: keep as generated
            else:
                sh = p["values"]["shape"]
                if sh[0] != cnt or 0 in sh[1:]:
                    del ps[k]
                    continue
            if p["missing"] is not None and p["missing"]["shape"][0] != cnt:
                del ps[k]
    for ps in (g["nprops"], g["eprops"]):
        for k in list(ps or {}):
            p = ps[k]
            specs = p["values"]["vlen"] if "vlen" in p["values"] else [p["values"]]
            bad = False
            for s in specs:
                if s["dtype"].startswith("float"):
                    s["data"] = [x if not isinstance(x, str) and float(x) * 1024 == int(float(x) * 1024) and abs(x) < 2 ** 30 else 1.5 for x in s["data"]]
                    if s["dtype"] == "float16":
                        s["data"] = [float(np.float16(x)) if abs(x) < 60000 else 1.5 for x in s["data"]]
                        s["data"] = [x if x * 1024 == int(x * 1024) else 0.5 for x in s["data"]]
            if bad:
                del ps[k]
    md = {"directed": g["md"]["directed"],
          "nprops_md": {k: {"identifier": k, "dtype": pm_dtype(v), "varlength": "vlen" in v["values"]} for k, v in (g["nprops"] or {}).items()},
          "eprops_md": {k: {"identifier": k, "dtype": pm_dtype(v), "varlength": "vlen" in v["values"]} for k, v in (g["eprops"] or {}).items()}}
    return {"lib": "mem", "nids": g["nids"], "eids": g["eids"], "nprops": g["nprops"] or {}, "eprops": g["eprops"] or {}, "md": md}


def pm_dtype(p):
    v = p["values"]
    dt = (v["vlen"][0]["dtype"] if v["vlen"] else "int64") if "vlen" in v else v["dtype"]
    return "float32" if dt == "float16" else dt


# ---- audit streams ----
def x_cases(rng, quick):
    """Attribute values outside the Coq encoding (oracle-only): non-dyadic / non-finite floats, strings with NUL, numpy scalars and
    ndarrays as attribute values -- inside the quantifier of the property ("scalar ... fixed-shape and ragged lists/arrays")."""
    out = []
    for i in range(90 if quick else 900):
        directed = rng.random() < 0.5
        n = rng.choice([1, 2, 3, 4])
        ids = rand_ids(rng, n)
        edges = rand_edges(rng, ids, directed)
        kinds = [X_KINDS[i % len(X_KINDS)]] + ([rng.choice(X_KINDS)] if rng.random() < 0.3 else [])
        ncols = {nm: rand_column(rng, n, kind=k) for nm, k in zip(rng.sample(NAMES[:9], len(kinds)), kinds)}
        if rng.random() < 0.5:
            ncols["plain"] = rand_column(rng, n, kind=rng.choice(["int", "float", "str", "bool"]))
        ecols = {"ex": rand_column(rng, len(edges), kind=rng.choice(X_KINDS))} if edges and rng.random() < 0.5 else {}
        na, ea = attach(n, ncols), attach(len(edges), ecols)
        w = {"lib": "nx", "directed": directed, "nodes": [[i_, a] for i_, a in zip(ids, na)], "edges": [[list(e), a] for e, a in zip(edges, ea)],
             "axes": None}
        fmt = 2 + i % 2
        out.append(case(w, "nx", fmt, block="xvals", oracle_only=True))
        if i % 3 == 0:
            out.append(case(to_rx_writer(rng, w, idmap_mode=rng.choice(["none", "ids"])), "rx", fmt, block="xvals", oracle_only=True))
    # fixed witnesses of the audit (p1.py / p3.py)
    fixed = [
        [[1, {"p": "a\x00"}], [2, {"p": "b"}]], [[1, {"p": "\x00"}], [2, {}]], [[1, {"p": ["a\x00", "b"]}], [2, {"p": ["c", "d"]}]],
        [[1, {"p": 2.0 ** 20 + 2.0 ** -10}], [2, {}]], [[1, {"p": 0.1}], [2, {"p": 1e-7}]], [[1, {"p": {"__f__": "nan"}}], [2, {"p": 1.0}]],
        [[1, {"p": np_scalar("uint64", B63 + 5)}], [2, {}]], [[1, {"p": np_scalar("bool", True)}], [2, {}], [3, {"p": np_scalar("bool", False)}]],
        [[1, {"p": np_array("uint8", [1, 2])}], [2, {}], [3, {"p": np_array("uint8", [3, 4])}]],
        [[1, {"p": np_array("uint8", [1, 2])}], [2, {}], [3, {"p": np_array("uint8", [3])}]],
        [[1, {"p": np_array("int8", [1, 2])}], [3, {"p": np_array("uint8", [200])}]],
        [[1, {"p": np_scalar("float32", 0.1)}], [2, {}]], [[1, {"p": np_scalar("float16", 0.1)}], [2, {}]],
        [[1, {"p": np_scalar("int8", -1)}], [2, {"p": np_scalar("uint64", B63)}]],
    ]
    for nodes in fixed:
        for fmt in (2, 3):
            out.append(case({"lib": "nx", "directed": True, "nodes": nodes, "edges": [], "axes": None}, "nx", fmt, block="xvals", oracle_only=True))
    return out


def multi_cases(rng, quick):
    """Graphs with a REPEATED edge: rustworkx multigraphs (parallel edges; (a,b) and (b,a) undirected) written and read through
    rustworkx / networkx, and in-memory geffs with a repeated edge through both constructs."""
    out = []
    for i in range(40 if quick else 400):
        directed = rng.random() < 0.5
        n = rng.choice([2, 2, 3, 4])
        ids = rand_ids(rng, n)
        base = rand_edges(rng, ids, directed, max_e=3) or [(ids[0], ids[1])]
        edges = list(base)
        for _ in range(rng.randint(1, 3)):
            u, v = rng.choice(base)
            edges.append((v, u) if (not directed and rng.random() < 0.5) else (u, v))
        rng.shuffle(edges)
        ecols = {"w": rand_column(rng, len(edges), kind=rng.choice(["int", "float", "bool", "str"]), presence=rng.choice(["all", "subset"]))}
        if rng.random() < 0.5:
            ecols["u"] = rand_column(rng, len(edges), kind=rng.choice(["int", "list1"]), presence="subset")
        ncols = {"a": rand_column(rng, n, kind="int")} if rng.random() < 0.5 else {}
        w = {"lib": "nx", "directed": directed, "nodes": [[i_, a] for i_, a in zip(ids, attach(n, ncols))],
             "edges": [[list(e), a] for e, a in zip(edges, attach(len(edges), ecols))], "axes": None}
        wr = to_rx_writer(rng, w, idmap_mode=rng.choice(["none", "ids"]))
        fmt = 2 + i % 2
        for r in ("rx", "nx", "mem"):
            out.append(case(wr, r, fmt, block="multi", multi=True))
    # in-memory geffs with a repeated edge (structurally valid): undirected (1,2),(2,1) and directed (1,2),(1,2) (audit p5.py), and random ones
    for directed, e in ((False, [1, 2, 2, 1]), (True, [1, 2, 1, 2]), (False, [1, 1, 1, 1]), (True, [2, 1, 1, 2, 2, 1])):
        ne = len(e) // 2
        wm = {"lib": "mem", "nids": {"dtype": "uint64", "shape": [2], "data": [1, 2]}, "eids": {"dtype": "uint64", "shape": [ne, 2], "data": e},
              "nprops": {}, "eprops": {"w": {"values": {"dtype": "int64", "shape": [ne], "data": list(range(1, ne + 1))},
                                             "missing": {"dtype": "bool", "shape": [ne], "data": [False] * (ne - 1) + [ne > 2]}}},
              "md": {"directed": directed, "nprops_md": {}, "eprops_md": {"w": {"identifier": "w", "dtype": "int64"}}}}
        for r in ("nx", "rx"):
            out.append(case(wm, r, 2, block="multi", multi=True))
    return out


NAME_POOL = ["a", " ", "a.b", "..a", "...", "values", "missing", "c", "A", "é", "名", "p" * 300, "a b", "-", "_", "0", "nodes", "props",
             ".a", "a.", "zarr.json", ".zattrs", ".zarray", ".zgroup", ".zmetadata", "a/b", "a/values", "/a", "a/", "//", "a//b", "a\\b",
             ".", "..", "./a", "a/../b", "c/0", "", "\t", "\n", "a\x00b", ".zattrs2", "zarr.json.bak", "zarr.jsonx"]
NAME_SETS = [["a", "a/b"], ["a/b", "a/c"], ["a", "A"], ["x", "x/values"], ["a", "a."], [".zattrs", "b"], ["a", "b", "c"]]


def name_cases(rng, quick):
    """Property NAMES (audit F3): every name alone on the nodes and on the edges, and some sets of names, under zarr 2 and 3 (one case
    runs both formats).  Tied to Names.name_ok_fmt in Coq (single names without control characters); oracle: refused cleanly or exact."""
    out = []
    for on in ("node", "edge"):
        for names in [[n] for n in NAME_POOL] + (NAME_SETS if on == "node" else NAME_SETS[:3]):
            attrs1 = {nm: 1 + k for k, nm in enumerate(names)}
            attrs2 = {nm: 10 + k for k, nm in enumerate(names)}
            if on == "node":
                w = {"lib": "nx", "directed": True, "nodes": [[1, attrs1], [2, attrs2]], "edges": [[[1, 2], {}]], "axes": None}
            else:
                w = {"lib": "nx", "directed": True, "nodes": [[1, {}], [2, {}], [3, {}]], "edges": [[[1, 2], attrs1], [[2, 3], attrs2]], "axes": None}
            c = case(w, "nx", 0, block="names", names=list(names), on=on)
            c["kind"] = "name"
            out.append(c)
    return out


def sg8_cases(rng, quick):
    """Negative control (audit F1): int8 / uint8 VECTOR attributes and an 8-bit position through spatial-graph.  spatial_graph hands
    them back as a bytes scalar (the 8-bit position makes the adapter raise IndexError): outside sg_dom / sgc_dom, known finding."""
    out = []
    for idt in (["int8"] if quick else ["int8", "uint8"]):
        for directed in ((True,) if quick else (True, False)):
            for k in range(1 if quick else 3):
                wm = mem_from_template(rng, "T8", directed, idt=idt, n=2 + k)
                out.append(case(wm, "sg", 2, block="sg8", oracle_only=True, sg8=True))
                out.append(case(wm, "nx", 2, block="sg8"))
                ws = template_sg(rng, "T8", directed, idt=idt, n=2 + k, md_mode="arg")
                out.append(case(ws, "sg", 2 + k % 2, block="sg8", oracle_only=True, sg8=True))
                out.append(case(ws, "nx", 2 + k % 2, block="sg8"))
                out.append(case(ws, "mem", 2 + k % 2, block="sg8"))
                w1 = mem_from_template(rng, "T1", directed, idt=idt, n=2)           # 8-bit position
                out.append(case(w1, "sg", 2, block="sg8", oracle_only=True, sg8=True))
                out.append(case(w1, "nx", 2, block="sg8"))
    return out


def case(writer, reader, fmt=2, pos="position", **kw):
    return {"kind": "construct" if writer["lib"] == "mem" else "rt", "writer": writer, "reader": reader, "fmt": fmt, "pos": pos, **kw}


EXH_VALUES = [None, True, False, 0, 7, B63, B64 - 1, 1.5, "a", "", [1, 2], [3], [[1, 2]], [1.5], [B63, B64 - 1], []]
EXH3_VALUES = [None, True, 0, B63, 1.5, "a", [1, 2], [3], [1.5]]


def needs_skip_model(col) -> bool:
    """Numbers next to strings: numpy turns the numbers into strings -- outside the model."""
    ks = set()
    for v in col:
        if v is None:
            continue
        if isinstance(v, list):
            sl = list_shape_leaves(v)
            ks |= {kind_of_py(x) for x in (sl[1] if sl else [])} | {"list"}
        else:
            ks.add(kind_of_py(v))
    return "str" in ks and len(ks - {"list"}) > 1


def writer_outside_model(w) -> bool:
    if w["lib"] in ("nx", "rx"):
        tabs = ([a for _, a in w["nodes"]] if w["lib"] == "nx" else [a for a in w["slots"] if a is not None]) + [a for _, a in w["edges"]]
        if any(val_outside_model(v) for d in tabs for v in d.values()):
            return True
        if any(any(ord(ch) < 32 for ch in k) for d in tabs for k in d):
            return True                                 # a name the Coq string printer cannot carry
    if w["lib"] == "nx":
        tables = ([a for _, a in w["nodes"]], [a for _, a in w["edges"]])
    elif w["lib"] == "rx":
        tables = ([a for a in w["slots"] if a is not None], [a for _, a in w["edges"]])
    else:
        return False
    for t in tables:
        cols = {}
        for d in t:
            for k, v in d.items():
                cols.setdefault(k, []).append(v)
        if any(needs_skip_model(vs) for vs in cols.values()):
            return True
    return False


def generate(rng: random.Random, tier: str):
    quick = tier == "quick"
    out = []
    # ---- exhaustive block: N=2, one node property ----
    for a, b in itertools.product(EXH_VALUES, repeat=2):
        for directed in (True, False):
            for reader in ("nx", "rx"):
                w = {"lib": "nx", "directed": directed, "nodes": [[1, {} if a is None else {"p": a}], [B63 + 5, {} if b is None else {"p": b}]],
                     "edges": [[[B63 + 5, 1], {}]], "axes": None}
                out.append(case(w, reader, 2 if directed else 3, block="exh2"))
        # the same column on the edges of a path 5 -> 3 -> 9
        w = {"lib": "nx", "directed": True, "nodes": [[5, {}], [3, {}], [9, {}]],
             "edges": [[[5, 3], {} if a is None else {"q": a}], [[3, 9], {} if b is None else {"q": b}]], "axes": None}
        out.append(case(w, "nx", 2, block="exh2e"))
    if not quick:
        for a, b, d in itertools.product(EXH3_VALUES, repeat=3):
            w = {"lib": "nx", "directed": True, "nodes": [[0, {} if a is None else {"p": a}], [B63, {} if b is None else {"p": b}], [B64 - 1, {} if d is None else {"p": d}]],
                 "edges": [], "axes": None}
            out.append(case(w, "nx", 3, block="exh3"))
    # ---- fixed boundary graphs ----
    w = {"lib": "nx", "directed": False, "nodes": [[1, {}], [B63 + 5, {}]], "edges": [[[1, B63 + 5], {}]], "axes": None}
    for r in ("mem", "nx", "rx"):
        for fmt in (2, 3):
            out.append(case(w, r, fmt))
            out.append(case(to_rx_writer(rng, w, holes=True, idmap_mode="ids"), r, fmt))
    w = {"lib": "nx", "directed": True, "nodes": [[1, {"b": True}], [2, {}], [3, {"b": False}]], "edges": [[[1, 2], {"w": 1.0}], [[2, 1], {}], [[2, 3], {"w": 2.5}]], "axes": None}
    for r in ("mem", "nx", "rx"):
        for fmt in (2, 3):
            out.append(case(w, r, fmt))
    # ---- random attribute graphs written from networkx and rustworkx ----
    nrand = 260 if quick else 2600
    for i in range(nrand):
        w = rand_nx_writer(rng)
        fmt = rng.choice([2, 3])
        readers = ["mem", "nx", "rx"] if i % 2 == 0 else [rng.choice(["mem", "nx", "rx"])]
        for r in readers:
            out.append(case(w, r, fmt, **({"store": "path"} if i % 8 == 3 else {})))
        if i % 2 == 1:
            wr = to_rx_writer(rng, w)
            for r in (["mem", "nx", "rx"] if i % 4 == 1 else [rng.choice(["nx", "rx"])]):
                out.append(case(wr, r, rng.choice([2, 3])))
    # ---- graphs in the common domain of the three backends: every ordered backend pair x zarr format ----
    # spatial_graph compiles one extension module per signature (~1 min each on a cold witty cache): the quick tier keeps to T1 / T2
    tnames = ["T1", "T2"] + ([] if quick else ["T3", "T4"])
    reps = 3 if quick else 14
    for tname in tnames:
        for directed in (True, False):
            for k in range(reps):
                fmt = 2 + (k % 2)
                w = template_nx(rng, tname, directed, n=(1 if k == 0 else None))
                if k == 1:
                    w["edges"] = []                      # nodes without edges
                for r in ("nx", "rx", "sg", "mem"):
                    out.append(case(w, r, fmt))
                wr = to_rx_writer(rng, w, idmap_mode=rng.choice(["none", "ids"]))
                for r in ("nx", "rx", "sg"):
                    out.append(case(wr, r, fmt))
                ws = template_sg(rng, tname, directed, n=(1 if k == 0 else None))
                if k == 1:
                    ws["edges"] = []
                    for a in ws["eattrs"].values():
                        a["rows"] = []
                for r in ("nx", "rx", "sg", "mem"):
                    out.append(case(ws, r, fmt, **({"store": "path"} if k == 2 else {})))
                wm = mem_from_template(rng, tname, directed)
                for r in ("nx", "rx", "sg"):
                    out.append(case(wm, r, fmt))
    # other dtypes through spatial-graph (each is a separately compiled class: few of them)
    variants = [] if quick else [("T2", "uint8", "float32", "int16"), ("T2", "int32", "float64", "uint16"), ("T3", "uint16", "float64", "int32"), ("T1", "int64", "float32", "int64")]
    for tname, ndt, fdt, idt in variants:
        for directed in (True, False) if not quick else (True,):
            for k in range(2 if quick else 5):
                ws = template_sg(rng, tname, directed, ndt, fdt, idt)
                for r in ("nx", "sg", "mem"):
                    out.append(case(ws, r, 2 + k % 2))
                wm = mem_from_template(rng, tname, directed, ndt, fdt, idt)
                for r in ("nx", "rx", "sg"):
                    out.append(case(wm, r, 2))
    # ---- general in-memory geffs through networkx and rustworkx; masks visible to spatial-graph ----
    for i in range(120 if quick else 1500):
        wm = rand_mem(rng)
        for r in ("nx", "rx"):
            out.append(case(wm, r, 2))
    for i in range(6 if quick else 40):
        wm = mem_from_template(rng, "T2" if quick else rng.choice(["T2", "T3"]), rng.random() < 0.5, missing=True)
        for r in ("nx", "rx", "sg"):
            out.append(case(wm, r, 2))
    # ---- empty graphs ----
    for directed in (True, False):
        for fmt in (2, 3):
            we = {"lib": "nx", "directed": directed, "nodes": [], "edges": [], "axes": None}
            for r in ("mem", "nx", "rx", "sg"):
                out.append(case(we, r, fmt))
                out.append(case({"lib": "rx", "directed": directed, "slots": [None], "edges": [], "idmap": None, "axes": None}, r, fmt))
            ws = template_sg(rng, "T1", directed, n=0, md_mode="arg")
            for r in ("mem", "nx", "sg"):
                out.append(case(ws, r, fmt))
            ws = copy.deepcopy(ws)
            ws["axes"] = None
            out.append(case(ws, "mem", fmt))
            out.append(case(ws, "sg", fmt))
    # ---- metadata call shapes of the dict-based backends (BackendsMd.v) ----
    out.extend(md_cases(rng, quick))
    # ---- audit streams: values outside the encoding, repeated edges, property names, 8-bit vectors through spatial-graph ----
    out.extend(x_cases(rng, quick))
    out.extend(multi_cases(rng, quick))
    out.extend(name_cases(rng, quick))
    out.extend(sg8_cases(rng, quick))
    # ---- malformed / boundary stream ----
    out.extend(malformed(rng, quick))
    for c in out:
        if writer_outside_model(c["writer"]):
            c["oracle_only"] = True
    warm_up(out)
    return out


def sg_key(c):
    """Cases with the same key instantiate the same compiled spatial_graph classes."""
    w = c["writer"]
    if w["lib"] != "sg" and c["reader"] != "sg":
        return None
    if w["lib"] == "sg":
        sig = (w["node_dtype"], tuple(sorted((k, a["dtype"], a["inner"]) for k, a in w["nattrs"].items())),
               tuple(sorted((k, a["dtype"], a["inner"]) for k, a in w["eattrs"].items())))
    elif w["lib"] == "mem":
        sig = (w["nids"]["dtype"], tuple(sorted((k, p["values"].get("dtype"), tuple(p["values"].get("shape", [0])[1:])) for k, p in w["nprops"].items())),
               tuple(sorted((k, p["values"].get("dtype"), tuple(p["values"].get("shape", [0])[1:])) for k, p in w["eprops"].items())),
               tuple(a["name"] for a in (w["md"].get("axes") or [])))
    else:
        attrs = [a for _, a in w["nodes"]] if w["lib"] == "nx" else [a for a in w["slots"] if a is not None]
        first = attrs[0] if attrs else {}
        efirst = w["edges"][0][1] if w["edges"] else {}
        sig = (tuple(sorted((k, type(v).__name__, len(v) if isinstance(v, list) else 0) for k, v in first.items())),
               tuple(sorted((k, type(v).__name__, len(v) if isinstance(v, list) else 0) for k, v in efirst.items())), tuple(w["axes"] or []))
    return repr((w["lib"] == "sg", c["reader"] == "sg", w.get("directed", w.get("md", {}).get("directed") if w["lib"] == "mem" else None), c["pos"], sig))


def _warm(c):
    try:
        run_impl(c)
    except Exception:
        pass
    return 0


def warm_up(cases):
    """spatial_graph compiles one extension module per (dtypes, attribute names, directedness) on first use (~20 s each, cached on
    disk by witty): compile every distinct one once, in parallel, before the case pool starts."""
    import multiprocessing as mp

    from harness.common import NCPU

    reps = {}
    for c in cases:
        k = sg_key(c)
        if k is not None and k not in reps:
            reps[k] = c
    if not reps:
        return
    with mp.get_context("fork").Pool(min(NCPU, len(reps))) as pool:
        pool.map(_warm, list(reps.values()), chunksize=1)


def malformed(rng, quick):
    out = []
    base = lambda nodes, edges=(), axes=None, directed=True: {"lib": "nx", "directed": directed, "nodes": [list(x) for x in nodes],
                                                              "edges": [list(x) for x in edges], "axes": axes}
    for r in ("nx", "mem"):
        out.append(case(base([[-1, {}], [2, {}]]), r, 2))
        out.append(case(base([[-1, {}], [B64, {}]]), r, 2))
        out.append(case(base([[B64, {}], [2, {}]]), r, 2, outside_ok=True))
        out.append(case(base([[1, {"x": 1.0}], [2, {"x": 2.0}]], axes=["x", "x"]), r, 2))
        out.append(case(base([[1, {"x": 1.0}], [2, {"x": 2.0}]], axes=["x", "zz"]), r, 2))
        out.append(case(base([[1, {"x": 1.0}], [2, {}]], axes=["x"]), r, 2))
        out.append(case(base([[1, {"x": [1.0, 2.0]}], [2, {"x": [1.0, 3.0]}]], axes=["x"]), r, 2))
        out.append(case(base([[1, {"x": 1.0}], [2, {"x": 2.0}]], axes=[]), r, 3))
    # values that cannot be one array
    out.append(case(base([[1, {"p": [[1], [2, 3]]}], [2, {"p": [[1], [2, 3]]}]]), "nx", 2))
    out.append(case(base([[1, {"p": [1, 2]}], [2, {"p": ["a"]}]]), "nx", 2))
    out.append(case(base([[1, {"p": [1, 2]}], [2, {"p": 3}]]), "nx", 2))
    # spatial-graph reader outside its domain
    out.append(case(base([[1, {"a": 1}], [2, {"a": 2}]]), "sg", 2))                                   # no axes
    out.append(case(base([[1, {"x": 1.0, "f": True}], [2, {"x": 2.0, "f": False}]], axes=["x"]), "sg", 2))  # bool attribute
    out.append(case(base([[1, {"x": 1.0, "s": "a"}], [2, {"x": 2.0, "s": "b"}]], axes=["x"]), "sg", 2))
    out.append(case(base([[1, {"x": 1.0, "a": [1, 2]}], [2, {"x": 2.0, "a": [3]}]], axes=["x"]), "sg", 2))  # var-length
    out.append(case(base([[1, {"x": 1.0, "position": 7}], [2, {"x": 2.0, "position": 8}]], axes=["x"]), "sg", 2))   # same class as T1
    if not quick:   # each of these instantiates its own spatial_graph class
        out.append(case(base([[1, {"x": 1.0, "a": 7}], [2, {"x": 2.0}]], [[[1, 2], {}]], axes=["x"]), "sg", 2))      # missing value shows its fill
        out.append(case(base([[1, {"x": 1.0, "position": 7}], [2, {"x": 2.0, "position": 8}]], [[[1, 2], {}]], axes=["x"]), "sg", 2, pos="pos"))
        out.append(case(base([[1, {"x": 1.0, "y": 2}], [2, {"x": 2.0, "y": 3}]], [[[1, 2], {}]], axes=["x", "y"]), "sg", 2))  # axes of two dtypes
        out.append(case(base([[1, {"x": 1, "m": [[1, 2], [3, 4]]}], [2, {"x": 2, "m": [[5, 6], [7, 8]]}]], axes=["x"]), "sg", 2))  # rank-3 property
    # in-memory geffs that are not well formed
    wm = mem_from_template(rng, "T2", True, n=3)
    bad = copy.deepcopy(wm)
    bad["eids"] = {"dtype": "uint64", "shape": [1, 2], "data": [bad["nids"]["data"][0], 777]}
    for k in list(bad["eprops"]):
        rows = bad["eprops"][k]["values"]
        rows["shape"][0] = 1
        rows["data"] = rows["data"][: int(np.prod(rows["shape"]))] if rows["data"] else [1.0]
        if len(rows["data"]) < int(np.prod(rows["shape"])):
            rows["data"] = [1.0] * int(np.prod(rows["shape"]))
    for r in ("nx", "rx", "sg"):
        out.append(case(bad, r, 2, no_oracle=True))
    dup = copy.deepcopy(wm)
    dup["nids"]["data"][1] = dup["nids"]["data"][0]
    dup["eids"] = {"dtype": "uint64", "shape": [0, 2], "data": []}
    for k in dup["eprops"]:
        dup["eprops"][k]["values"]["shape"][0] = 0
        dup["eprops"][k]["values"]["data"] = []
    for r in ("nx", "rx"):
        out.append(case(dup, r, 2, no_oracle=True))
    noax = copy.deepcopy(wm)
    noax["md"]["axes"] = None
    out.append(case(noax, "sg", 2))
    # spatial_graph writer: ndims mismatch, no axis names, duplicate names
    ws = template_sg(rng, "T2", True, n=2, md_mode="arg")
    for axes in (["x"], ["x", "y", "z"], ["x", "x"], None):
        w2 = copy.deepcopy(ws)
        w2["axes"] = axes
        out.append(case(w2, "mem", 2))
    # rustworkx: node_id_dict with a negative / huge id
    wr = {"lib": "rx", "directed": True, "slots": [{"a": 1}, None, {"a": 2}], "edges": [[[0, 2], {"w": 1.5}]], "idmap": [[0, -4], [2, 5]], "axes": None}
    out.append(case(wr, "rx", 2))
    wr = copy.deepcopy(wr)
    wr["idmap"] = [[0, B63 + 5], [2, 7]]
    for r in ("nx", "rx", "mem"):
        out.append(case(wr, r, 2))
    return out


# --------------------------------------------------------------------------
def nontrivial(c, o):
    w = c["writer"]
    if "exc" in o:
        return False
    if w["lib"] == "nx":
        return bool(w["nodes"]) and any(a for _, a in w["nodes"])
    if w["lib"] == "rx":
        return any(s for s in w["slots"])
    if w["lib"] == "sg":
        return bool(w["nodes"])
    return w["nids"]["shape"][0] > 0 and bool(w["nprops"])


def describe(c, o):
    w = c["writer"]
    n = {"nx": lambda: len(w["nodes"]), "rx": lambda: sum(s is not None for s in w["slots"]), "sg": lambda: len(w["nodes"]),
         "mem": lambda: w["nids"]["shape"][0]}[w["lib"]]()
    res = "exc:" + o["exc"] if "exc" in o else "ok"
    return f"{w['lib']}->{c['reader']}:fmt{c['fmt']}:n={min(n, 4)}:{c.get('block', w.get('template', 'rand'))}:{res}"


def search(rng, budget):
    yield from generate(rng, "thorough")
