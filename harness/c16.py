"""C16 -- TrackMate conversion preserves spots, links, features and tracks.

Synthetic TrackMate documents are described as plain data (`tm`: units, feature declarations, spots with attribute
texts and optional ROI text, tracks with edges, FilteredTracks ids, optional sections), written as real XML files,
converted with geff.convert.from_trackmate_xml_to_geff (or `geff convert-trackmate-xml`), read back with
read_to_memory and passed to the real validators.

Correspondence: the parsed document (attribute texts classified by Python's int()/float(), interned by stok) + call
parameters + the tree found at the target -> TrackMate.v (from_trackmate ; read_to_memory ; graph / lineage verdicts)
evaluated in Coq.
Oracle: independent reconstruction of the expected graph from the document description + the real validators.
"""
from __future__ import annotations

import copy
import itertools
import math
import os
import random
import shutil
from collections import Counter
from pathlib import Path
from xml.sax.saxutils import quoteattr

import numpy as np

from harness.common import WORK, Failure, HarnessError, cbool, clist, cnat, copt, cstr, cz, exn_name

PROP = "C16"
PARALLEL = True
RULE = ("exhaustive block: every link graph on 3 spots (frames 0,1,2 and 0,0,1) and on 4 spots (frames 0,1,1,2; quick: every 6th) "
        "whose tracks are its connected components x every FilteredTracks list (each subset of the track ids, and no section) x the 4 "
        "discard-flag combinations, one int and one float feature on alternating spots; fixed boundary documents (lone spots, track id 0, "
        "no track at all, every node discarded, ROIs of equal / differing sizes, NaN / Infinity values, int64 limits, all 14 TrackMate "
        "dimensions, absent units) x flags x zarr_format x API/CLI x occupied target; random well-formed documents (1..5 frames, up to 12 spots "
        "with sparse ids, disjoint tracks with splits and merges, lone spots, optional int/float features on subsets of spots / edges, name "
        "attributes, ROIs, with/without FilteredTracks / Settings / ImageData / Log / GUIState / DisplaySettings, version attribute); malformed "
        "stream (non-integer text in an int feature, spot without ID, edge to an unknown spot, edge without endpoint, Track without "
        "TRACK_ID, spot in two tracks, duplicate edge / spot id, self link, undeclared attributes, undeclared TRACK_ID, declaration without "
        "isint / dimension, unknown dimension, duplicate declaration, missing sections, bad TrackID entries, ROI count 0 / not dividing / "
        "missing on later spots / absent on earlier spots, negative id, missing coordinate, missing XML file); "
        "chunk-boundary sweep: two documents (ROIs + extra features; no ROI, absent units) padded so that a byte inside each labelled piece "
        "(Model, FeatureDeclarations, Spot/Edge/TrackFeatures and their end tags, first / middle / last Feature of each section, AllSpots, "
        "SpotsInFrame, first / middle / last Spot incl. its ROI text, AllTracks, Track, Edge, FilteredTracks, TrackID, /Model, Settings, "
        "ImageData, BasicSettings, /Settings, GUIState, DisplaySettings, /TrackMate) x 11 positions inside the piece is the first byte of a "
        "32768-byte read of the streaming parser, padding placed as an XML comment before the piece / whitespace before the piece / Log text / "
        "a comment before Model, boundary 1, 2 or 3 (quick: every 23rd, thorough: every 3rd combination) x flags x zarr_format; large "
        "documents of 50 KB .. 1.6 MB (Log up to 1.5 MB, up to 400 spots of which <= 30 linked, up to 70 extra declared features per "
        "section, ROIs up to 300 points, spot names and declaration names of ~1 KB, 33 KB attribute values in GUIState / ImageData, "
        "comments of up to 33 KB at random pieces); "
        "non-trivial = at least 2 spots and the parser reached the spots; distinct by structural input")
EXHAUSTIVE_BLOCKS = ["both tiers: all link graphs on 3 spots (frames 0,1,2: 8 edge sets; frames 0,0,1: 4 edge sets) x every FilteredTracks "
                     "subset + absent section x 4 discard-flag combinations",
                     "thorough: all 32 forward link sets on 4 spots (frames 0,1,1,2) x every FilteredTracks subset + absent x 4 flag "
                     "combinations (quick: every 6th)"]
ASSUMPTIONS = [
    "abstraction boundary: lxml / ElementTree event streaming; the model takes the parsed document (attribute texts classified by "
    "Python's own int() / float()); malformed XML is outside the claim.  Checked on every case: the Coq input rebuilt from an "
    "independent full parse (lxml etree.parse) of the written file is identical to the one given to the model (else HARNESS-ERROR); the "
    "implementation's streaming passes called directly (_get_specific_tags x2, _get_trackmate_version, _build_data) and the XML texts it "
    "stores agree with that full parse (else an oracle failure, why=streaming)",
    "sections appear in TrackMate's order (FeatureDeclarations, AllSpots, AllTracks, FilteredTracks inside Model)",
    "coordinates (POSITION_*) are exact multiples of 2^-10 so that axis min/max is exact in the model; other float features may be any "
    "float (NaN, infinities, non-dyadic values travel as opaque tokens)",
    "integer feature values lie in the int64 range and spot ids below 2^63 (beyond, numpy's dtype inference leaves int64: outside the model)",
    "a column never mixes text with numbers (numpy would stringify the numbers: outside the model); a ROI element without text is outside the model",
    "image folder / filename are normalised path texts (no trailing separator), the filename is relative (Path(folder) / filename with an absolute filename drops the folder: not modelled)",
    "a pre-existing target directory holds exactly a geff written by the library (foreign content at the target is C06's subject)",
    "validate_data(lineage) on a subset of the nodes (missing lineage ids) relies on the C14 model of validate_lineages",
]

TOK = 1 << 70
FSCALE = 1024
DIMS = ["NONE", "QUALITY", "COST", "INTENSITY", "INTENSITY_SQUARED", "STRING", "POSITION", "LENGTH", "TIME", "VELOCITY", "AREA",
        "ANGLE", "RATE", "ANGLE_RATE"]
ID_POOL = list(range(0, 24)) + [40, 77, 1000, 2 ** 31, 2 ** 53 + 1, 2 ** 63 - 1]
TRACK_POOL = [0, 1, 2, 3, 5, 7, 12, 2 ** 31 + 5]


# --------------------------------------------------------------------------
# tokens / value encoding shared with TrackMate.v
# --------------------------------------------------------------------------
def stok(s: str) -> int:
    return int.from_bytes(b"\x01" + s.encode("utf-8"), "big")


class StokInterner:
    """Drop-in for storelib.Interner: the token of a string is computable inside the model."""

    def tok(self, s) -> int:
        return stok(s if isinstance(s, str) else str(s))


def enc_float(x: float) -> int:
    from harness.storelib import enc_float as ef

    return ef(x)


def classify(text: str):
    """('int', z, f) | ('flt', f) | ('str',): what int(text) / float(text) make of an attribute text."""
    try:
        f = enc_float(float(text))
    except ValueError:
        f = None
    try:
        z = int(text)
    except ValueError:
        z = None
    if z is not None and f is not None:
        return ("int", z, f)
    if f is not None:
        return ("flt", f)
    if z is not None:
        raise HarnessError(f"text {text!r} parses as int but not as float")
    return ("str",)


def c_raw(text: str) -> str:
    k = classify(text)
    p = {"int": lambda: f"(PInt {cz(k[1])} {cz(k[2])})", "flt": lambda: f"(PFlt {cz(k[1])})", "str": lambda: "PStr"}[k[0]]()
    return f"(mkraw {cz(stok(text))} {p})"


def c_xattrs(attrs) -> str:
    return clist(attrs, lambda kv: f"({cstr(kv[0])}, {c_raw(kv[1])})")


# --------------------------------------------------------------------------
# document description -> XML text
# --------------------------------------------------------------------------
def xa(attrs) -> str:
    return "".join(f" {k}={quoteattr(str(v))}" for k, v in attrs)


def feature_xml(dc) -> str:
    a = [("feature", dc["feature"])]
    if dc.get("name") is not None:
        a.append(("name", dc["name"]))
    a.append(("shortname", dc["feature"][:6]))
    if dc.get("dimension") is not None:
        a.append(("dimension", dc["dimension"]))
    if dc.get("isint") is not None:
        a.append(("isint", dc["isint"]))
    return f"<Feature{xa(a)} />\n"


def xml_pieces(c):
    """The document as a list of [label, text]: every piece that a chunk boundary of the streaming parser may be aimed at
    carries a label (Model, FeatureDeclarations, feat:spot:3, spot:7, edge:0:1, Settings, ImageData, ...)."""
    s = [[None, '<?xml version="1.0" encoding="UTF-8"?>\n']]
    add = lambda label, text: s.append([label, text])
    add("TrackMate", "<TrackMate" + (xa([("version", c["version"])]) if c["version"] is not None else "") + ">\n")
    if c["log"]:
        add("Log", "<Log>" + (c.get("logtext") if c.get("logtext") is not None else "Starting detection process.\nFound 3 spots.") + "</Log>\n")
    units = [(k, c[v]) for k, v in (("spatialunits", "space"), ("timeunits", "time")) if c[v] is not None]
    add("Model", f"<Model{xa(units)}>\n")
    if c["decls"] is not None:
        add("FeatureDeclarations", "<FeatureDeclarations>\n")
        for tag, key in (("SpotFeatures", "spot"), ("EdgeFeatures", "edge"), ("TrackFeatures", "track")):
            add(tag, f"<{tag}>\n")
            for i, dc in enumerate(c["decls"][key]):
                add(f"feat:{key}:{i}", feature_xml(dc))
            add("/" + tag, f"</{tag}>\n")
        add("/FeatureDeclarations", "</FeatureDeclarations>\n")
    if c["spots"] is not None:
        add("AllSpots", f'<AllSpots nspots="{len(c["spots"])}">\n')
        cur = None
        for i, sp in enumerate(c["spots"]):
            if sp["frame"] != cur:
                if cur is not None:
                    add(None, "</SpotsInFrame>\n")
                cur = sp["frame"]
                add(f"SpotsInFrame:{i}", f'<SpotsInFrame frame="{cur}">\n')
            if sp.get("text") is None:
                add(f"spot:{i}", f"<Spot{xa(sp['attrs'])} />\n")
            else:
                add(f"spot:{i}", f"<Spot{xa(sp['attrs'])}>{sp['text']}</Spot>\n")
        if cur is not None:
            add(None, "</SpotsInFrame>\n")
        add("/AllSpots", "</AllSpots>\n")
    if c["tracks"] is not None:
        add("AllTracks", "<AllTracks>\n")
        for i, tr in enumerate(c["tracks"]):
            add(f"track:{i}", f"<Track{xa(tr['attrs'])}>\n")
            for j, e in enumerate(tr["edges"]):
                add(f"edge:{i}:{j}", f"<Edge{xa(e)} />\n")
            add(f"/track:{i}", "</Track>\n")
        add("/AllTracks", "</AllTracks>\n")
    if c["filtered"] is not None:
        add("FilteredTracks", "<FilteredTracks>\n")
        for i, t in enumerate(c["filtered"]):
            add(f"trackid:{i}", "<TrackID />\n" if t is None else f"<TrackID{xa([('TRACK_ID', t)])} />\n")
        add("/FilteredTracks", "</FilteredTracks>\n")
    add("/Model", "</Model>\n")
    if c["settings"] is not None:
        add("Settings", "<Settings>\n")
        im = c["settings"].get("image")
        if im is not None:
            add("ImageData", f"<ImageData{xa([('filename', im['filename']), ('folder', im['folder']), ('width', c.get('imgwidth', '128'))])} />\n")
        add("BasicSettings", '<BasicSettings xstart="0" xend="127" />\n')
        add("/Settings", "</Settings>\n")
    if c["gui"]:
        add("GUIState", f'<GUIState{xa([("state", c.get("guistate", "ConfigureViews"))])} />\n')
    if c["disp"]:
        add("DisplaySettings", "<DisplaySettings>{\n  \"name\": \"CurrentDisplaySettings\"\n}</DisplaySettings>\n")
    add("/TrackMate", "</TrackMate>\n")
    return s


def xml_of(c) -> str:
    """`pads` (label -> text) are inserted just before the labelled piece: XML comments / whitespace, which the parsed
    document does not contain (a comment is no element, whitespace between elements is ignored by the converter)."""
    pads = c.get("pads") or {}
    return "".join((pads.get(label, "") if label is not None else "") + text for label, text in xml_pieces(c))


# --------------------------------------------------------------------------
# generators
# --------------------------------------------------------------------------
def D(feature, isint, dim="NONE", name="="):
    return {"feature": feature, "name": (feature.replace("_", " ").title() if name == "=" else name),
            "isint": None if isint is None else ("true" if isint else "false"), "dimension": dim}


SPOT_CORE = [D("POSITION_X", False, "POSITION", "X"), D("POSITION_Y", False, "POSITION", "Y"), D("POSITION_Z", False, "POSITION", "Z"),
             D("POSITION_T", False, "TIME", "T"), D("FRAME", True, "NONE", "Frame")]
SPOT_OPT = [D("QUALITY", False, "QUALITY"), D("RADIUS", False, "LENGTH"), D("VISIBILITY", True, "NONE"),
            D("MEAN_INTENSITY_CH1", False, "INTENSITY", "Mean intensity ch1"), D("SNR_CH1", False, "NONE", None), D("AREA", False, "AREA"),
            D("K", True, "NONE", "k count"), D("ANG", False, "ANGLE"), D("RT", False, "RATE"), D("AR", False, "ANGLE_RATE"),
            D("I2", False, "INTENSITY_SQUARED"), D("ST", False, "STRING"), D("CO", False, "COST"), D("VEL", False, "VELOCITY"),
            D("MANUAL_SPOT_COLOR", True, "NONE")]
EDGE_CORE = [D("SPOT_SOURCE_ID", True, "NONE", "Source spot ID"), D("SPOT_TARGET_ID", True, "NONE", "Target spot ID")]
EDGE_OPT = [D("LINK_COST", False, "COST"), D("EK", True, "NONE"), D("DISPLACEMENT", False, "LENGTH"), D("EDGE_TIME", False, "TIME"),
            D("SPEED", False, "VELOCITY"), D("DIRECTIONAL_CHANGE_RATE", False, "ANGLE_RATE")]
TRACK_CORE = [D("TRACK_ID", True, "NONE", "Track ID"), D("TRACK_INDEX", True, "NONE", "Track index")]
TRACK_OPT = [D("NUMBER_SPOTS", True, "NONE"), D("TRACK_DURATION", False, "TIME"), D("TRACK_MEAN_SPEED", False, "VELOCITY")]

FLOAT_TEXTS = ["0.0", "0.5", "1.0", "-2.25", "3", "1024.0", "17.125", "NaN", "Infinity", "-Infinity", "0.1", "1.5E-3", "2.5e2", "-0.0",
               "123456.0009765625", "7"]
INT_TEXTS = ["0", "1", "-1", "3", "42", "-7", "2147483648", "9007199254740993", "9223372036854775807", "-9223372036854775808", "255"]


def dyadic(rng) -> str:
    return repr(rng.randint(-4096, 8192) / rng.choice([1, 2, 4, 8, 1024]))


def rand_value(rng, dc) -> str:
    if dc["isint"] == "true":
        return rng.choice(INT_TEXTS) if rng.random() < 0.7 else str(rng.randint(-50, 50))
    return rng.choice(FLOAT_TEXTS) if rng.random() < 0.6 else dyadic(rng)


def base_case(**kw):
    c = {"kind": "tm", "cls": "wf", "origin": "", "exists": True, "version": "7.11.1", "space": "micron", "time": "sec",
         "decls": {"spot": copy.deepcopy(SPOT_CORE), "edge": copy.deepcopy(EDGE_CORE), "track": copy.deepcopy(TRACK_CORE)},
         "spots": [], "tracks": [], "filtered": [], "settings": {"image": {"filename": "img.tif", "folder": "/data/run1"}},
         "log": True, "gui": True, "disp": True,
         "ds": False, "dt": False, "overwrite": False, "pre": None, "fmt": 2, "via": "api"}
    c.update(kw)
    return c


def mk_spot(sid, frame, x=None, extra=(), name=True, roi=None):
    attrs = [("ID", str(sid))]
    if name:
        attrs.append(("name", f"ID{sid}"))
    attrs += [("POSITION_X", repr(float(x if x is not None else (sid % 1000) * 1.5))), ("POSITION_Y", repr(0.25 * frame + 1.0)),
              ("POSITION_Z", "0.0"), ("POSITION_T", repr(float(frame) * 2.0)), ("FRAME", str(frame))]
    attrs += list(extra)
    sp = {"frame": frame, "attrs": [list(a) for a in attrs]}
    if roi is not None:
        sp["attrs"].append(["ROI_N_POINTS", str(len(roi))])
        sp["text"] = " ".join(repr(float(v)) for p in roi for v in p)
    return sp


def mk_edge(a, b, extra=()):
    return [["SPOT_SOURCE_ID", str(a)], ["SPOT_TARGET_ID", str(b)]] + [list(e) for e in extra]


def mk_track(tid, edges, index=0, extra=(), name=True):
    attrs = ([["name", f"Track_{tid}"]] if name else []) + [["TRACK_ID", str(tid)], ["TRACK_INDEX", str(index)]] + [list(e) for e in extra]
    return {"attrs": attrs, "edges": edges}


def rand_roi(rng, k):
    return [(rng.randint(-64, 64) / 4.0, rng.randint(-64, 64) / 4.0) for _ in range(k)]


def rand_doc(rng, max_frames=5, max_spots=12):
    """A well-formed document: disjoint connected tracks with splits and merges, lone spots, optional features on subsets."""
    c = base_case(origin="random")
    sd = [d for d in SPOT_OPT if rng.random() < 0.35]
    ed = [d for d in EDGE_OPT if rng.random() < 0.4]
    td = [d for d in TRACK_OPT if rng.random() < 0.4]
    c["decls"] = {"spot": copy.deepcopy(SPOT_CORE) + copy.deepcopy(sd), "edge": copy.deepcopy(EDGE_CORE) + copy.deepcopy(ed),
                  "track": copy.deepcopy(TRACK_CORE) + copy.deepcopy(td)}
    for key in ("spot", "edge", "track"):
        for dc in c["decls"][key]:
            if rng.random() < 0.1:
                dc["name"] = None
        if rng.random() < 0.3:
            rng.shuffle(c["decls"][key])
    T = rng.randint(1, max_frames)
    n = rng.randint(0 if rng.random() < 0.05 else 1, max_spots)
    ids = rng.sample(ID_POOL, n)
    frames = sorted(rng.randrange(T) for _ in range(n))
    roi_mode = rng.choice(["none", "none", "none", "equal", "differ"])
    names = rng.random() < 0.8
    spots = []
    for sid, fr in zip(ids, frames):
        extra = [(d["feature"], rand_value(rng, d)) for d in sd if rng.random() < 0.7]
        roi = None
        if roi_mode == "equal":
            roi = rand_roi(rng, 4)
        elif roi_mode == "differ":
            roi = rand_roi(rng, rng.randint(1, 5))
        sp = mk_spot(sid, fr, x=rng.randint(-2048, 4096) / rng.choice([1, 4, 1024]), extra=extra, name=names and rng.random() < 0.95, roi=roi)
        if rng.random() < 0.3:
            head, tail = sp["attrs"][:1], sp["attrs"][1:]
            rng.shuffle(tail)
            sp["attrs"] = head + tail if rng.random() < 0.7 else tail + head
        spots.append(sp)
    c["spots"] = spots
    # tracks: partition a subset of the spots; inside a track every later spot hangs on a spot of an earlier frame
    order = list(range(n))
    ntr = rng.randint(0, max(0, min(4, n // 2)))
    tids = rng.sample(TRACK_POOL, ntr)
    members = {t: [] for t in tids}
    for i in order:
        if tids and rng.random() < 0.8:
            members[rng.choice(tids)].append(i)
    tracks = []
    for idx, t in enumerate(tids):
        mem = members[t]
        edges, placed = [], []
        for i in mem:
            earlier = [j for j in placed if frames[j] < frames[i]]
            if not placed:
                placed.append(i)
            elif earlier:
                par = rng.choice(earlier)
                edges.append((par, i))
                if rng.random() < 0.15:
                    other = [j for j in earlier if j != par]
                    if other:
                        edges.append((rng.choice(other), i))        # merge
                placed.append(i)
        if not edges:
            continue
        rng.shuffle(edges)
        elist = [mk_edge(ids[a], ids[b], [(d["feature"], rand_value(rng, d)) for d in ed if rng.random() < 0.7]) for a, b in edges]
        tracks.append(mk_track(t, elist, idx, [(d["feature"], rand_value(rng, d)) for d in td if rng.random() < 0.8], name=rng.random() < 0.9))
    c["tracks"] = tracks
    present = [int(dict(map(tuple, tr["attrs"]))["TRACK_ID"]) for tr in tracks]
    r = rng.random()
    if r < 0.15:
        c["filtered"] = None
    elif r < 0.45:
        c["filtered"] = [str(t) for t in present]
    else:
        c["filtered"] = [str(t) for t in present if rng.random() < 0.5]
        if rng.random() < 0.1:
            c["filtered"].append("99")
    return c


def decorate(rng, c):
    c["version"] = rng.choice(["7.11.1", "7.11.1", "6.0.2", None, ""])
    c["space"] = rng.choice(["micron", "pixel", "micrometer", "µm", None])
    c["time"] = rng.choice(["sec", "frame", "second", "min", None])
    c["settings"] = rng.choice([None, {"image": None}, {"image": {"filename": "img.tif", "folder": "/data/run1"}},
                                {"image": {"filename": "a b.tif", "folder": "C:/Users/x"}}, {"image": {"filename": "", "folder": "/only/folder"}},
                                {"image": {"filename": "only.tif", "folder": ""}}, {"image": {"filename": "", "folder": ""}}])
    c["log"], c["gui"], c["disp"] = rng.random() < 0.7, rng.random() < 0.6, rng.random() < 0.6
    c["ds"], c["dt"] = rng.random() < 0.5, rng.random() < 0.5
    c["fmt"] = rng.choice([2, 3])
    c["via"] = "cli" if rng.random() < 0.12 else "api"
    if rng.random() < 0.15:
        c["pre"] = rng.choice([2, 3])
        c["overwrite"] = rng.random() < 0.6
    elif rng.random() < 0.1:
        c["overwrite"] = True
    return c


def components_of(n_ids, edges):
    par = {i: i for i in n_ids}

    def find(x):
        while par[x] != x:
            par[x] = par[par[x]]
            x = par[x]
        return x

    for a, b in edges:
        par[find(a)] = find(b)
    comp = {}
    for i in n_ids:
        comp.setdefault(find(i), []).append(i)
    return list(comp.values())


def doc_from_links(ids, frames, links, tid_pool, feat=True):
    """Tracks = connected components (with at least one link) of the link graph, in order of their first spot."""
    c = base_case()
    if feat:
        c["decls"]["spot"] += [D("K", True, "NONE", "k count"), D("QUALITY", False, "QUALITY")]
    spots = []
    for i, (sid, fr) in enumerate(zip(ids, frames)):
        extra = []
        if feat and i % 2 == 0:
            extra.append(("K", str(i + 3)))
        if feat and i % 2 == 1:
            extra.append(("QUALITY", repr(i + 0.5)))
        spots.append(mk_spot(sid, fr, extra=extra))
    c["spots"] = spots
    comps = [cp for cp in components_of(ids, links) if len(cp) > 1]
    tracks = []
    for k, cp in enumerate(comps):
        es = [mk_edge(a, b) for a, b in links if a in cp]
        tracks.append(mk_track(tid_pool[k], es, k))
    c["tracks"] = tracks
    return c, [tid_pool[k] for k in range(len(comps))]


def exhaustive_block(tier):
    shapes = [([1, 2, 3], [0, 1, 2], [(1, 2), (1, 3), (2, 3)], 1), ([4, 2, 9], [0, 0, 1], [(4, 9), (2, 9)], 1),
              ([1, 2, 3, 4], [0, 1, 1, 2], [(1, 2), (1, 3), (2, 4), (3, 4), (1, 4)], 1 if tier == "thorough" else 6)]
    count = 0
    for ids, frames, pairs, step in shapes:
        for r in range(len(pairs) + 1):
            for links in itertools.combinations(pairs, r):
                base, tids = doc_from_links(ids, frames, list(links), [0, 3, 1])
                opts = [None] + [list(s) for k in range(len(tids) + 1) for s in itertools.combinations(tids, k)]
                for flt in opts:
                    for ds, dt in itertools.product([False, True], repeat=2):
                        count += 1
                        if count % step:
                            continue
                        c = copy.deepcopy(base)
                        c.update(filtered=None if flt is None else [str(t) for t in flt], ds=ds, dt=dt, origin="exhaustive",
                                 fmt=2 + (count % 2))
                        yield c


def fixed_cases():
    out = []

    def add(name, c, **kw):
        c = copy.deepcopy(c)
        c.update(kw)
        c["origin"] = "fixed:" + name
        out.append(c)

    def flags(name, c, **kw):
        for ds, dt in itertools.product([False, True], repeat=2):
            for fmt in (2, 3):
                add(name, c, ds=ds, dt=dt, fmt=fmt, **kw)

    # lone spot + track 0 (the design-time defect F16a), and a lone spot with another track id
    for tid in (0, 3):
        c = base_case()
        c["decls"]["spot"] += [D("QUALITY", False, "QUALITY"), D("K", True, "NONE")]
        c["decls"]["edge"] += [D("LINK_COST", False, "COST"), D("EK", True, "NONE")]
        c["spots"] = [mk_spot(1, 0, extra=[("QUALITY", "0.5"), ("K", "3")]), mk_spot(5, 0), mk_spot(2, 1, extra=[("QUALITY", "NaN")]),
                      mk_spot(3, 1, extra=[("K", "4")]), mk_spot(4, 2)]
        c["tracks"] = [mk_track(tid, [mk_edge(1, 2, [("LINK_COST", "1.5"), ("EK", "2")]), mk_edge(1, 3), mk_edge(3, 4, [("LINK_COST", "2.5")])])]
        c["filtered"] = [str(tid)]
        flags(f"lone-spot-track-{tid}", c)
    # two lone spots and no track at all; every node discarded (F16b)
    c = base_case(spots=[mk_spot(1, 0), mk_spot(2, 1)], tracks=[], filtered=[])
    flags("no-track", c)
    c = base_case(spots=[mk_spot(1, 0), mk_spot(2, 1), mk_spot(3, 0), mk_spot(4, 1), mk_spot(5, 0)],
                  tracks=[mk_track(3, [mk_edge(1, 2)], 0), mk_track(4, [mk_edge(3, 4)], 1)], filtered=[])
    flags("keep-none", c)
    add("keep-one", c, filtered=["3"], dt=True)
    add("keep-one-cli", c, filtered=["4"], dt=True, ds=True, via="cli", fmt=3)
    add("no-filtered-section", c, filtered=None, dt=True)
    add("no-spots", base_case(spots=[], tracks=[], filtered=[]))
    # merge and split
    c = base_case(spots=[mk_spot(1, 0), mk_spot(2, 0), mk_spot(3, 1), mk_spot(4, 2), mk_spot(6, 2)],
                  tracks=[mk_track(2, [mk_edge(1, 3), mk_edge(2, 3), mk_edge(3, 4), mk_edge(3, 6)])], filtered=["2"])
    flags("merge-split", c)
    # ROIs
    sq = [(0.0, 0.0), (1.0, 0.0), (1.0, 1.0), (0.0, 1.0)]
    c = base_case(spots=[mk_spot(1, 0, roi=sq[:3]), mk_spot(2, 1, roi=sq), mk_spot(7, 1, roi=[(0.5, -0.25)])], tracks=[mk_track(3, [mk_edge(1, 2)])],
                  filtered=["3"])
    flags("roi-differ", c)
    c = base_case(spots=[mk_spot(1, 0, roi=sq[:3]), mk_spot(2, 1, roi=[(0.0, 0.0), (1.0, 0.0), (2.0, 1.0)])], tracks=[mk_track(3, [mk_edge(1, 2)])],
                  filtered=["3"])
    flags("roi-equal", c)
    add("roi-single", base_case(spots=[mk_spot(1, 0, roi=sq)], tracks=[], filtered=[]))
    # every dimension, absent names, absent units, boundary values
    c = base_case(space=None, time=None)
    c["decls"]["spot"] += [D(f"F_{d}", False, d, None if i % 3 == 0 else f"feature {d.lower()}") for i, d in enumerate(DIMS)]
    c["decls"]["edge"] += [D(f"E_{d}", i % 2 == 0, d) for i, d in enumerate(DIMS)]
    c["decls"]["track"] += [D(f"T_{d}", i % 2 == 1, d) for i, d in enumerate(DIMS)]
    c["spots"] = [mk_spot(10, 0, extra=[(f"F_{d}", FLOAT_TEXTS[i % len(FLOAT_TEXTS)]) for i, d in enumerate(DIMS)]),
                  mk_spot(11, 1, extra=[(f"F_{d}", FLOAT_TEXTS[(i + 5) % len(FLOAT_TEXTS)]) for i, d in enumerate(DIMS) if i % 2])]
    c["tracks"] = [mk_track(1, [mk_edge(10, 11, [(f"E_{d}", INT_TEXTS[i % len(INT_TEXTS)] if i % 2 == 0 else FLOAT_TEXTS[i % len(FLOAT_TEXTS)])
                                                  for i, d in enumerate(DIMS)])],
                            extra=[(f"T_{d}", "4" if i % 2 == 1 else "0.5") for i, d in enumerate(DIMS)])]
    c["filtered"] = ["1"]
    for sp, ti in ((None, None), ("micron", "sec"), ("pixel", "frame")):
        add("all-dimensions", c, space=sp, time=ti, fmt=3 if sp else 2)
    c = base_case()
    c["decls"]["spot"] += [D("K", True, "NONE"), D("Q", False, "QUALITY")]
    c["spots"] = [mk_spot(2 ** 63 - 1, 0, x=1.0, extra=[("K", "9223372036854775807"), ("Q", "Infinity")]),
                  mk_spot(0, 1, x=2.0, extra=[("K", "-9223372036854775808"), ("Q", "-Infinity")]), mk_spot(2 ** 53 + 1, 1, x=3.0, extra=[("Q", "NaN")])]
    c["tracks"] = [mk_track(2 ** 31 + 5, [mk_edge(2 ** 63 - 1, 0), mk_edge(2 ** 63 - 1, 2 ** 53 + 1)])]
    c["filtered"] = [str(2 ** 31 + 5)]
    flags("boundary-values", c)
    # sections and settings
    c = base_case(spots=[mk_spot(1, 0), mk_spot(2, 1)], tracks=[mk_track(0, [mk_edge(1, 2)])], filtered=["0"])
    for st in (None, {"image": None}, {"image": {"filename": "", "folder": ""}}, {"image": {"filename": "", "folder": "/f"}},
               {"image": {"filename": "n.tif", "folder": ""}}):
        add("settings", c, settings=st, log=st is None, gui=st is not None, disp=False, version=None if st is None else "7.0")
    add("occupied", c, pre=2)
    add("occupied-overwrite", c, pre=3, overwrite=True, fmt=2)
    add("occupied-cli", c, pre=2, via="cli")
    add("overwrite-cli", c, pre=2, overwrite=True, via="cli", fmt=3, ds=True, dt=True)
    return out


MALFORMATIONS = ["int_text", "no_id", "unknown_spot_edge", "edge_no_target", "edge_no_source", "track_no_id", "two_tracks", "dup_edge",
                 "dup_spot", "self_link", "undeclared_attr", "undeclared_track_id", "decl_no_isint", "decl_no_isint_unused", "decl_no_dim",
                 "decl_bad_dim", "dup_decl", "no_decls", "no_spots_section", "no_tracks_section", "trackid_no_attr", "trackid_text",
                 "roi_zero", "roi_ragged", "roi_later_missing", "roi_earlier_missing", "roi_no_position_x", "negative_id", "no_position_z",
                 "no_position_z_at_all", "no_xml", "float_track_id", "clash_decl", "unconnected_track", "same_track_id_twice", "edge_float_ids",
                 "empty_feature_name"]


def malform(rng, c, k=None):
    k = k or rng.choice(MALFORMATIONS)
    c["cls"] = "malformed:" + k
    spots, tracks = c["spots"], c["tracks"]

    def need_track():
        if not tracks:
            ids = [int(dict(map(tuple, sp["attrs"]))["ID"]) for sp in spots]
            if len(ids) < 2:
                spots.extend([mk_spot(90, 0), mk_spot(91, 1)])
                ids += [90, 91]
            tracks.append(mk_track(6, [mk_edge(ids[0], ids[-1])]))
            if c["filtered"] is not None:
                c["filtered"].append("6")

    def need_spots(n=2):
        while len(spots) < n:
            spots.append(mk_spot(80 + len(spots), len(spots)))

    if k == "int_text":
        need_spots()
        if not any(d["feature"] == "K" for d in c["decls"]["spot"]):
            c["decls"]["spot"].append(D("K", True))
        sp = rng.choice(spots)
        sp["attrs"] = [a for a in sp["attrs"] if a[0] != "K"] + [["K", rng.choice(["3.5", "abc", "", "NaN"])]]
    elif k == "no_id":
        need_spots()
        sp = rng.choice(spots)
        sp["attrs"] = [a for a in sp["attrs"] if a[0] != "ID"]
    elif k == "unknown_spot_edge":
        need_track()
        tr = rng.choice(tracks)
        src = dict(map(tuple, tr["edges"][0]))["SPOT_SOURCE_ID"]
        tr["edges"].append(mk_edge(src, 555) if rng.random() < 0.5 else mk_edge(555, src))
    elif k in ("edge_no_target", "edge_no_source"):
        need_track()
        tr = rng.choice(tracks)
        drop = "SPOT_TARGET_ID" if k == "edge_no_target" else "SPOT_SOURCE_ID"
        i = rng.randrange(len(tr["edges"]))
        tr["edges"][i] = [a for a in tr["edges"][i] if a[0] != drop]
    elif k == "track_no_id":
        need_track()
        tr = rng.choice(tracks)
        tr["attrs"] = [a for a in tr["attrs"] if a[0] != "TRACK_ID"]
    elif k == "two_tracks":
        need_track()
        need_spots(3)
        ids = [dict(map(tuple, sp["attrs"])).get("ID") for sp in spots]
        e = dict(map(tuple, tracks[0]["edges"][0]))
        other = next((i for i in ids if i not in (e["SPOT_SOURCE_ID"], e["SPOT_TARGET_ID"])), ids[0])
        tracks.append(mk_track(61, [mk_edge(e["SPOT_SOURCE_ID"], other)]))
    elif k == "dup_edge":
        need_track()
        tr = rng.choice(tracks)
        e = copy.deepcopy(rng.choice(tr["edges"]))
        if any(d["feature"] == "LINK_COST" for d in c["decls"]["edge"]):
            e = [a for a in e if a[0] != "LINK_COST"] + [["LINK_COST", "9.5"]]
        tr["edges"].append(e)
    elif k == "dup_spot":
        need_spots()
        sp = copy.deepcopy(rng.choice(spots))
        sp["attrs"] = [a for a in sp["attrs"] if a[0] != "name"]
        for a in sp["attrs"]:
            if a[0] == "POSITION_X":
                a[1] = "77.5"
        spots.append(sp)
        spots.sort(key=lambda s: s["frame"])
    elif k == "self_link":
        need_track()
        tr = rng.choice(tracks)
        src = dict(map(tuple, tr["edges"][0]))["SPOT_SOURCE_ID"]
        tr["edges"].append(mk_edge(src, src))
    elif k == "undeclared_attr":
        need_spots()
        for sp in spots:
            if rng.random() < 0.8:
                sp["attrs"].append(["EXTRA_INFO", rng.choice(["foo", "3", "2.5", ""])])
        need_track()
        tracks[0]["edges"][0].append(["NOTE", "x y"])
    elif k == "undeclared_track_id":
        need_track()
        c["decls"]["track"] = [d for d in c["decls"]["track"] if d["feature"] != "TRACK_ID"]
    elif k == "float_track_id":
        need_track()
        for d in c["decls"]["track"]:
            if d["feature"] == "TRACK_ID":
                d["isint"] = "false"
    elif k in ("decl_no_isint", "decl_no_isint_unused"):
        need_spots()
        c["decls"]["spot"].append(D("NOINT", None))
        if k == "decl_no_isint":
            spots[0]["attrs"].append(["NOINT", "1"])
    elif k == "decl_no_dim":
        rng.choice([c["decls"]["spot"], c["decls"]["edge"], c["decls"]["track"]]).append(D("NODIM", False, None))
    elif k == "decl_bad_dim":
        rng.choice([c["decls"]["spot"], c["decls"]["edge"], c["decls"]["track"]]).append(D("BADDIM", True, "FORCE"))
    elif k == "dup_decl":
        key = rng.choice(["spot", "edge", "track"])
        c["decls"][key].append(copy.deepcopy(c["decls"][key][0]))
    elif k == "clash_decl":
        need_spots()
        c["decls"]["edge"].append(D("FRAME", False, "NONE"))
    elif k == "no_decls":
        c["decls"] = None
    elif k == "no_spots_section":
        c["spots"] = None
    elif k == "no_tracks_section":
        c["tracks"] = None
    elif k == "trackid_no_attr":
        c["filtered"] = (c["filtered"] or []) + [None]
        rng.shuffle(c["filtered"])
    elif k == "trackid_text":
        c["filtered"] = (c["filtered"] or []) + [rng.choice(["x", "1.5", ""])]
    elif k in ("roi_zero", "roi_ragged", "roi_later_missing", "roi_earlier_missing", "roi_no_position_x"):
        need_spots(3)
        for i, sp in enumerate(spots):
            sp["attrs"] = [a for a in sp["attrs"] if a[0] != "ROI_N_POINTS"]
            sp["attrs"].append(["ROI_N_POINTS", "3"])
            sp["text"] = " ".join(repr(float(v)) for v in range(i, i + 6))
        if k == "roi_zero":
            spots[1]["attrs"][-1][1] = "0"
        elif k == "roi_ragged":
            spots[1]["text"] = " ".join(repr(float(v)) for v in range(rng.choice([5, 7, 4, 2])))
        elif k == "roi_later_missing":
            spots[-1]["attrs"].pop()
            spots[-1]["text"] = None
        elif k == "roi_earlier_missing":
            spots[0]["attrs"].pop()
            spots[0]["text"] = None
        else:
            c["decls"]["spot"] = [d for d in c["decls"]["spot"] if d["feature"] != "POSITION_X"]
    elif k == "negative_id":
        need_spots()
        sp = spots[0]
        for a in sp["attrs"]:
            if a[0] == "ID":
                a[1] = "-4"
    elif k == "no_position_z":
        need_spots()
        sp = rng.choice(spots)
        sp["attrs"] = [a for a in sp["attrs"] if a[0] != "POSITION_Z"]
    elif k == "no_position_z_at_all":
        need_spots()
        for sp in spots:
            sp["attrs"] = [a for a in sp["attrs"] if a[0] != "POSITION_Z"]
    elif k == "no_xml":
        c["exists"] = False
    elif k == "unconnected_track":
        need_spots(4)
        ids = [dict(map(tuple, sp["attrs"]))["ID"] for sp in spots]
        c["tracks"] = [mk_track(8, [mk_edge(ids[0], ids[1]), mk_edge(ids[2], ids[3])])]
        c["filtered"] = ["8"]
    elif k == "same_track_id_twice":
        need_spots(4)
        ids = [dict(map(tuple, sp["attrs"]))["ID"] for sp in spots]
        c["tracks"] = [mk_track(8, [mk_edge(ids[0], ids[1])]), mk_track(8, [mk_edge(ids[2], ids[3])], 1)]
        c["filtered"] = ["8"]
    elif k == "edge_float_ids":
        need_track()
        for d in c["decls"]["edge"]:
            if d["feature"] in ("SPOT_SOURCE_ID", "SPOT_TARGET_ID"):
                d["isint"] = "false"
    elif k == "empty_feature_name":
        c["decls"]["edge"].append(D("", False))
    return c


# --------------------------------------------------------------------------
# large documents, and section boundaries swept over the chunk boundaries of the streaming parser
# --------------------------------------------------------------------------
CHUNK = 32768          # lxml's iterparse hands the file to libxml2 in reads of this many bytes


def filler(rng, n: int) -> str:
    """n bytes of XML-safe text (no markup, no entity, no '--', so it can sit in a comment, an attribute or element text)."""
    words = ["Starting", "detection", "process.", "Found", "spots", "in", "frame", "LoG", "detector", "threshold", "0.75", "done",
             "Tracking", "LAP", "linking", "max", "distance", "15.0", "gap", "closing", "Computing", "features", "\n", "\n"]
    out, size = [], 0
    while size < n:
        w = rng.choice(words) if rng.random() < 0.9 else str(rng.randint(0, 10 ** 6))
        out.append(w)
        size += len(w) + 1
    return " ".join(out)[:n].replace("\n ", "\n").ljust(n, ".")


def large_doc(rng, n, n_feat=0, roi_pts=0, n_tracks=4, long_names=0, origin="large", opt=None, linked=30):
    """A well-formed document with n spots (sparse ids), n_feat additional declared features per section beside the usual
    ones, ROIs of up to roi_pts points, long attribute values (names of long_names bytes on three spots, long declaration names).
    At most `linked` spots take part in tracks (the lineage-validator model of C14 is cubic in the linked nodes; the other
    spots are lone spots, which the discard option removes)."""
    c = base_case(origin=origin)
    opt = len(SPOT_OPT) if opt is None else opt
    sd = copy.deepcopy(rng.sample(SPOT_OPT, opt)) + [D(f"SF_{i:03d}", i % 3 == 0, DIMS[i % len(DIMS)], f"spot feature {i} " + "n" * (long_names if i % 7 == 0 else 0))
                                    for i in range(n_feat)]
    ed = copy.deepcopy(EDGE_OPT[:max(1, opt // 3)]) + [D(f"EF_{i:03d}", i % 2 == 0, DIMS[(i + 3) % len(DIMS)]) for i in range(n_feat // 2)]
    td = copy.deepcopy(TRACK_OPT) + [D(f"TF_{i:03d}", i % 2 == 1, DIMS[(i + 5) % len(DIMS)]) for i in range(n_feat // 3)]
    c["decls"] = {"spot": copy.deepcopy(SPOT_CORE) + sd, "edge": copy.deepcopy(EDGE_CORE) + ed, "track": copy.deepcopy(TRACK_CORE) + td}
    if rng.random() < 0.5:
        rng.shuffle(c["decls"]["spot"])
    T = max(2, min(n, rng.randint(3, 40)))
    ids = rng.sample(range(0, 20 * n + 5), n)
    if n > 3 and rng.random() < 0.5:
        ids[rng.randrange(n)] = 2 ** 53 + 1
        ids[rng.randrange(n)] = 2 ** 63 - 1
        ids = list(dict.fromkeys(ids))
        n = len(ids)
    frames = sorted(rng.randrange(T) for _ in range(n))
    roi_mode = "none" if roi_pts == 0 else rng.choice(["equal", "differ"])
    carried = [d for d in sd if rng.random() < 0.6] if n_feat > 12 else sd
    spots = []
    for sid, fr in zip(ids, frames):
        extra = [(d["feature"], rand_value(rng, d)) for d in carried if rng.random() < 0.5]
        roi = None
        if roi_mode == "equal":
            roi = rand_roi(rng, roi_pts)
        elif roi_mode == "differ":
            roi = rand_roi(rng, rng.randint(1, roi_pts))
        sp = mk_spot(sid, fr, x=rng.randint(-2048, 4096) / rng.choice([1, 4, 1024]), extra=extra, name=True, roi=roi)
        if long_names and len(spots) % 3 == 1:
            sp["attrs"][1][1] = f"ID{sid} " + filler(rng, rng.randint(long_names // 2, long_names)).replace("\n", " ")
        spots.append(sp)
    c["spots"] = spots
    tids = rng.sample(TRACK_POOL + list(range(20, 60)), min(n_tracks, max(0, n // 2)))
    members = {t: [] for t in tids}
    for i in sorted(rng.sample(range(n), min(n, linked))):
        if tids and rng.random() < 0.9:
            members[rng.choice(tids)].append(i)
    tracks = []
    for idx, t in enumerate(tids):
        edges, placed = [], []
        for i in members[t]:
            earlier = [j for j in placed[-12:] if frames[j] < frames[i]]
            if not placed:
                placed.append(i)
            elif earlier:
                par = rng.choice(earlier)
                edges.append((par, i))
                if rng.random() < 0.1:
                    other = [j for j in earlier if j != par]
                    if other:
                        edges.append((rng.choice(other), i))
                placed.append(i)
        if not edges:
            continue
        rng.shuffle(edges)
        elist = [mk_edge(ids[a], ids[b], [(d["feature"], rand_value(rng, d)) for d in ed if rng.random() < 0.3]) for a, b in edges]
        tracks.append(mk_track(t, elist, idx, [(d["feature"], rand_value(rng, d)) for d in td if rng.random() < 0.5]))
    c["tracks"] = tracks
    present = [int(dict(map(tuple, tr["attrs"]))["TRACK_ID"]) for tr in tracks]
    c["filtered"] = None if rng.random() < 0.15 else [str(t) for t in present if rng.random() < 0.6]
    return c


def piece_offset(c, label) -> tuple[int, int]:
    """(byte offset of the labelled piece in xml_of(c), its byte length)"""
    pads = c.get("pads") or {}
    off = 0
    for lab, text in xml_pieces(c):
        if lab is not None:
            off += len(pads.get(lab, "").encode("utf-8"))
        if lab == label:
            return off, len(text.encode("utf-8"))
        off += len(text.encode("utf-8"))
    raise HarnessError(f"no piece {label!r}")


def aim(c, label, delta, kind, more=0, rng=None):
    """Pad the document so that the byte `delta` bytes into the piece `label` is the first byte of a chunk: `kind` says where the
    padding goes -- 'comment' / 'space' right before the piece, 'log' into the text of <Log>, 'early' a comment before <Model>."""
    c = copy.deepcopy(c)
    c.setdefault("pads", {})
    rng = rng or random.Random(0)
    if kind == "log":
        c["log"] = True
        c["logtext"] = ""
    off, size = piece_offset(c, label)
    need = (-(off + delta)) % CHUNK + more * CHUNK
    if kind in ("comment", "early") and need < 7:
        need += CHUNK
    if kind == "log":
        c["logtext"] = filler(rng, need)
    elif kind == "space":
        c["pads"][label] = c["pads"].get(label, "") + "".join(rng.choice(" \n\t") for _ in range(need))
    else:
        site = label if kind == "comment" else "Model"
        c["pads"][site] = c["pads"].get(site, "") + "<!--" + filler(rng, need - 7) + "-->"
    off, _ = piece_offset(c, label)
    if (off + delta) % CHUNK:
        raise HarnessError(f"aim: {label}+{delta} landed at {off + delta}")
    c["aimed"] = [label, delta, kind, (off + delta) // CHUNK]
    return c


def sweep_labels(c):
    labs = [lab for lab, _ in xml_pieces(c) if lab is not None and lab not in ("TrackMate", "Log")]
    keep = []
    for lab in labs:
        head = lab.split(":")[0]
        if head in ("feat", "spot", "edge", "trackid", "track", "/track", "SpotsInFrame"):
            # of the repeated pieces: the first, one in the middle, the last of each kind
            same = [x for x in labs if x.split(":")[0] == head and (head != "feat" or x.split(":")[1] == lab.split(":")[1])]
            if lab not in (same[0], same[len(same) // 2], same[-1]):
                continue
        keep.append(lab)
    return keep


def sweep_cases(rng, tier):
    """Every interesting piece of a document x positions inside it x where the padding sits x which chunk boundary."""
    r0 = random.Random(1632768)
    bases = []
    b = large_doc(r0, 9, n_feat=2, roi_pts=5, n_tracks=2, origin="sweep", opt=2)
    b["filtered"] = [dict(map(tuple, tr["attrs"]))["TRACK_ID"] for tr in b["tracks"]][:1] + ["99"]
    bases.append(b)
    b = large_doc(r0, 6, n_feat=0, roi_pts=0, n_tracks=2, origin="sweep", opt=1)
    b.update(space=None, gui=True, disp=True)
    bases.append(b)
    count = 0
    for bi, base in enumerate(bases):
        for lab in sweep_labels(base):
            _, size = piece_offset(base, lab)
            deltas = sorted({0, 1, 2, 5, size // 3, size // 2, 2 * size // 3, size - 3, size - 2, size - 1, size})
            for delta in deltas:
                for kind in ("comment", "space", "log", "early"):
                    count += 1
                    if count % (23 if tier == "quick" else 4):
                        continue
                    if bi == 1 and count % 3:
                        continue
                    c = aim(base, lab, delta, kind, more=(count // 4) % 3 if count % 5 == 0 else 0, rng=r0)
                    c.update(ds=bool(count & 1), dt=bool(count & 2), fmt=2 + (count // 4) % 2, origin=f"sweep:{lab}+{delta}:{kind}")
                    yield c


def large_cases(rng, tier):
    """Documents of 50 KB .. 2 MB: long Log, many spots, many features, long ROI texts, long attribute values, comments."""
    r0 = random.Random(1600000)
    shapes = [dict(n=40, n_feat=40, roi_pts=0, log=60_000, opt=5), dict(n=120, n_feat=3, roi_pts=40, log=0, opt=3),
              dict(n=30, n_feat=3, roi_pts=300, log=200, opt=3), dict(n=25, n_feat=2, roi_pts=0, log=1_500_000, opt=2),
              dict(n=60, n_feat=6, roi_pts=6, log=40_000, long_names=900, opt=2), dict(n=400, n_feat=2, roi_pts=8, log=0, opt=2),
              dict(n=12, n_feat=70, roi_pts=0, log=0, long_names=1200, opt=4), dict(n=80, n_feat=4, roi_pts=0, log=300_000, comments=40, opt=4)]
    reps = 1 if tier == "quick" else 4
    for rep in range(reps):
        for k, sh in enumerate(shapes):
            c = large_doc(r0, sh["n"], n_feat=sh["n_feat"], roi_pts=sh["roi_pts"], n_tracks=r0.randint(1, 6), long_names=sh.get("long_names", 0),
                          origin=f"large:{k}", opt=sh["opt"])
            c = decorate(r0, c)
            c.update(via="api", pre=None, overwrite=False)
            if sh["log"]:
                c["log"] = True
                c["logtext"] = filler(r0, sh["log"] + r0.randint(0, CHUNK))
            c["guistate"] = filler(r0, r0.choice([10, 5000, 40_000])).replace("\n", " ")
            c["imgwidth"] = "128" + "0" * r0.choice([0, 0, 33_000])
            labs = [lab for lab, _ in xml_pieces(c) if lab is not None and lab not in ("TrackMate", "Log")]
            c["pads"] = {}
            for lab in r0.sample(labs, min(len(labs), sh.get("comments", 3))):
                c["pads"][lab] = "<!--" + filler(r0, r0.choice([20, 3000, 33_000])) + "-->" + "\n" * r0.randint(0, 3)
            yield c


def generate(rng: random.Random, tier: str):
    yield from exhaustive_block(tier)
    yield from fixed_cases()
    yield from sweep_cases(rng, tier)
    yield from large_cases(rng, tier)
    for _ in range(260 if tier == "quick" else 2600):
        yield decorate(rng, rand_doc(rng))
    r0 = random.Random(16)
    for k in MALFORMATIONS:                 # every malformation at least twice, on small documents
        for _ in range(2):
            c = rand_doc(r0, max_frames=3, max_spots=5)
            c["ds"], c["dt"] = r0.random() < 0.4, r0.random() < 0.4
            yield malform(r0, c, k)
    for _ in range(90 if tier == "quick" else 800):
        c = rand_doc(rng, max_frames=3, max_spots=6)
        c["ds"], c["dt"] = rng.random() < 0.4, rng.random() < 0.4
        c["fmt"] = rng.choice([2, 3])
        yield malform(rng, c)


# --------------------------------------------------------------------------
# running the implementation
# --------------------------------------------------------------------------
_COUNTER = itertools.count()


def scratch_dir() -> Path:
    d = WORK / f"c16-{os.getpid()}" / str(next(_COUNTER))
    shutil.rmtree(d, ignore_errors=True)
    d.mkdir(parents=True)
    return d


def snapshot_dir(p: Path):
    if not p.exists():
        return None
    out = {}
    for dp, _dn, fn in os.walk(p):
        for f in fn:
            q = Path(dp, f)
            out[str(q.relative_to(p))] = q.read_bytes()
    return out


def zarr_fmt_of(p) -> int | None:
    p = Path(p)
    if (p / "zarr.json").exists():
        return 3
    if (p / ".zgroup").exists():
        return 2
    return None


HINTS = {"display_horizontal": "POSITION_X", "display_vertical": "POSITION_Y", "display_depth": "POSITION_Z", "display_time": "POSITION_T"}


def abstract_md(md_json: dict):
    """metadata JSON -> (dict for storelib.c_meta with stok tokens, fields of tmextra)"""
    from harness.storelib import _pm

    it = StokInterner()
    axes = None
    if md_json.get("axes") is not None:
        axes = []
        for ax in md_json["axes"]:
            plain = all(ax.get(k) is None for k in ("scale", "scaled_unit", "offset"))
            tok = {"time": 1, "space": 2}.get(ax.get("type"), 99) if plain else 99
            axes.append({"name": ax["name"], "min": None if ax.get("min") is None else enc_float(ax["min"]),
                         "max": None if ax.get("max") is None else enc_float(ax["max"]), "tok": tok})
    tnp = md_json.get("track_node_props") or {}
    extra = md_json.get("extra") or {}
    other = extra.get("other_trackmate_metadata") or {}
    plain = (all(md_json.get(k) is None for k in ("sphere", "ellipsoid", "affine")) and md_json.get("display_hints") == HINTS
             and set(extra) == {"other_trackmate_metadata"} and set(tnp) <= {"lineage"}
             and {"trackmate_version", "lineage_props_metadata"} <= set(other))
    md = {"directed": bool(md_json["directed"]), "axes": axes,
          "nprops": [(k, _pm(v, it)) for k, v in (md_json.get("node_props_metadata") or {}).items()],
          "eprops": [(k, _pm(v, it)) for k, v in (md_json.get("edge_props_metadata") or {}).items()],
          "tok": 0 if plain else 99}
    x = {"lineage": tnp.get("lineage"),
         "axes": [[a["name"], str(a.get("type")), str(a.get("unit"))] for a in (md_json.get("axes") or [])],
         "related": [[str(r.get("type")), str(r.get("path"))] for r in (md_json.get("related_objects") or [])],
         "version": str(other.get("trackmate_version")),
         "lineage_md": [[k, v.get("dtype") == "int", str(v.get("name")), str(v.get("unit"))] for k, v in (other.get("lineage_props_metadata") or {}).items()],
         "tags": [k for k in other if k not in ("trackmate_version", "lineage_props_metadata")]}
    # (the XML texts stored under these tags are compared with the document by extras_check, see run_impl)
    return md, x


def c_extra(x) -> str:
    return (f"(mkx {copt(x['lineage'], cstr)} {clist(x['axes'], lambda a: f'({cstr(a[0])}, {cstr(a[1])}, {cstr(a[2])})')} "
            f"{clist(x['related'], lambda r: f'({cstr(r[0])}, {cstr(r[1])})')} {cstr(x['version'])} "
            f"{clist(x['lineage_md'], lambda l: f'({cstr(l[0])}, ({cbool(l[1])}, {cstr(l[2])}, {cstr(l[3])}))')} {clist(x['tags'], cstr)})")


PRE_DOC = None


def pre_doc():
    global PRE_DOC
    if PRE_DOC is None:
        PRE_DOC = xml_of(base_case(spots=[mk_spot(70, 0), mk_spot(71, 1)], tracks=[mk_track(9, [mk_edge(70, 71)])], filtered=["9"]))
    return PRE_DOC


def prop_json(p):
    v = p["values"]
    if v.dtype == object:
        vals = [None if not isinstance(a, np.ndarray) else {"shape": list(a.shape), "dtype": str(a.dtype), "data": a.tolist()} for a in v]
        kind = "vlen"
    else:
        vals = v.tolist()
        kind = "fixed"
    return {"dtype": str(v.dtype), "kind": kind, "shape": list(v.shape), "values": vals,
            "missing": None if p["missing"] is None else [bool(b) for b in p["missing"].tolist()]}


# --------------------------------------------------------------------------
# the abstraction boundary, checked: independent full parse of the written file / the implementation's streaming helpers
# --------------------------------------------------------------------------
def case_from_xml(data: bytes) -> dict:
    """What an independent FULL parse (lxml etree.parse: no events, no chunks) of the file says, in the shape of the
    generator's document description (only the fields that coq_input reads)."""
    import io

    from lxml import etree as LET

    root = LET.parse(io.BytesIO(data)).getroot()
    elems = lambda el: [ch for ch in el if isinstance(ch.tag, str)]
    alist = lambda el: [[k, v] for k, v in el.attrib.items()]
    out = {"exists": True, "version": root.attrib.get("version"), "log": root.find("Log") is not None,
           "gui": root.find("GUIState") is not None, "disp": root.find("DisplaySettings") is not None}
    model = root.find("Model")
    out["space"], out["time"] = model.attrib.get("spatialunits"), model.attrib.get("timeunits")
    fd = model.find("FeatureDeclarations")
    if fd is None:
        out["decls"] = None
    else:
        out["decls"] = {}
        for tag, key in (("SpotFeatures", "spot"), ("EdgeFeatures", "edge"), ("TrackFeatures", "track")):
            out["decls"][key] = [{"feature": f.attrib["feature"], "name": f.attrib.get("name"), "isint": f.attrib.get("isint"),
                                  "dimension": f.attrib.get("dimension")} for f in fd.find(tag).findall("Feature")]
    sec = model.find("AllSpots")
    out["spots"] = None if sec is None else [{"attrs": alist(sp), **({} if sp.text is None else {"text": sp.text})}
                                             for fr in elems(sec) for sp in elems(fr)]
    sec = model.find("AllTracks")
    out["tracks"] = None if sec is None else [{"attrs": alist(tr), "edges": [alist(e) for e in elems(tr)]} for tr in elems(sec)]
    sec = model.find("FilteredTracks")
    out["filtered"] = None if sec is None else [t.attrib.get("TRACK_ID") for t in elems(sec)]
    st = root.find("Settings")
    if st is None:
        out["settings"] = None
    else:
        im = st.find("ImageData")
        out["settings"] = {"image": None if im is None else {"filename": im.attrib["filename"], "folder": im.attrib["folder"]}}
    return out


def boundary_check(c, data: bytes, pre_coq: str = "None"):
    """The model's input is the generator's description `c`; the file is what the implementation reads.  The Coq term built
    from an independent full parse of the file must be the Coq term built from `c` (else the harness is wrong)."""
    full = case_from_xml(data)
    for k in ("ds", "dt", "overwrite"):
        full[k] = c[k]
    a, b = coq_input(c, pre_coq), coq_input(full, pre_coq)
    if a != b:
        i = next((i for i in range(min(len(a), len(b))) if a[i] != b[i]), min(len(a), len(b)))
        raise HarnessError(f"the document description differs from a full parse of the XML written for it ({c.get('origin')}): "
                           f"...{a[max(0, i - 60):i + 60]!r} vs ...{b[max(0, i - 60):i + 60]!r}")


def _same_number(v, text) -> bool:
    if isinstance(v, bool):
        return False
    if isinstance(v, int):
        try:
            return v == int(text)
        except ValueError:
            return False
    if isinstance(v, float):
        try:
            return feq(v, float(text))
        except ValueError:
            return False
    return isinstance(v, str) and v == text


def stream_check(c, xml_path, data: bytes) -> list[str]:
    """The implementation's own extraction passes (called directly, file read in lxml's chunks) against the full parse:
    the copied FeatureDeclarations / Log / Settings / GUIState / DisplaySettings elements, the version, and -- for well-formed
    documents -- the units and the graph of _build_data (every attribute of every spot and link, the ROI points, the track
    stamps).  Returns the disagreements."""
    import io
    import warnings

    from lxml import etree as LET

    from geff.convert import _trackmate_xml as tmx

    bad = []
    root = LET.parse(io.BytesIO(data)).getroot()
    ser = lambda el: LET.tostring(el, with_tail=False)
    with warnings.catch_warnings():
        warnings.simplefilter("ignore")
        want = {}
        for el in root.iter("FeatureDeclarations", "Log", "Settings", "GUIState", "DisplaySettings"):
            want.setdefault(el.tag, el)              # first in document order, as the streaming pass takes them
        got = tmx._get_specific_tags(xml_path, ["FeatureDeclarations"], 1)
        got.update(tmx._get_specific_tags(xml_path, ["Log", "Settings", "GUIState", "DisplaySettings"], 1))
        if sorted(got) != sorted(want):
            bad.append(f"_get_specific_tags found {sorted(got)}, the document holds {sorted(want)}")
        for k in got:
            if k in want and ser(got[k]) != ser(want[k]):
                g, w = ser(got[k]), ser(want[k])
                bad.append(f"_get_specific_tags: element {k} copied with {len(list(got[k].iter()))} descendants / {len(g)} bytes, "
                           f"the document's has {len(list(want[k].iter()))} / {len(w)} bytes")
        v = tmx._get_trackmate_version(xml_path)
        if v != (root.attrib.get("version") or "unknown"):
            bad.append(f"_get_trackmate_version = {v!r}, document {root.attrib.get('version')!r}")
        if c["cls"] != "wf":
            return bad
        try:
            graph, units, seg = tmx._build_data(xml_path)
        except Exception as e:
            return bad + [f"_build_data raised {type(e).__name__}: {e}"[:200]]
    model = root.find("Model")
    for key, attr, dflt in (("spatialunits", "spatialunits", "pixel"), ("timeunits", "timeunits", "frame")):
        if units.get(key) != model.attrib.get(attr, dflt):
            bad.append(f"_build_data units[{key}] = {units.get(key)!r}, Model says {model.attrib.get(attr)!r}")
    spots = {int(sp.attrib["ID"]): sp for sp in model.find("AllSpots").iter("Spot")}
    links, track_of = {}, {}
    for tr in model.find("AllTracks").iter("Track"):
        for e in tr.iter("Edge"):
            s, t = int(e.attrib["SPOT_SOURCE_ID"]), int(e.attrib["SPOT_TARGET_ID"])
            links[(s, t)] = e
            track_of[s] = track_of[t] = int(tr.attrib["TRACK_ID"])
    if sorted(graph.nodes) != sorted(spots):
        bad.append(f"_build_data nodes {sorted(graph.nodes)[:8]}.. ({graph.number_of_nodes()}), document spots {sorted(spots)[:8]}.. ({len(spots)})")
    if sorted(graph.edges) != sorted(links):
        bad.append(f"_build_data edges {sorted(graph.edges)[:8]}.. ({graph.number_of_edges()}), document links {sorted(links)[:8]}.. ({len(links)})")
    any_roi = any("ROI_N_POINTS" in sp.attrib for sp in spots.values())
    if bool(seg) != any_roi:
        bad.append(f"_build_data segmentation flag {seg}, document has ROIs: {any_roi}")
    for sid, sp in spots.items():
        if sid not in graph.nodes or len(bad) > 5:
            continue
        nd = graph.nodes[sid]
        keys = set(sp.attrib) | ({"TRACK_ID"} if sid in track_of else set()) | ({"ROI_coords"} if "ROI_N_POINTS" in sp.attrib else set())
        if set(nd) != keys:
            bad.append(f"_build_data node {sid} has keys {sorted(nd)}, spot attributes {sorted(keys)}")
            continue
        for k, text in sp.attrib.items():
            if not _same_number(nd[k], text):
                bad.append(f"_build_data node {sid}: {k} = {nd[k]!r}, document text {text[:40]!r}")
        if sid in track_of and nd["TRACK_ID"] != track_of[sid]:
            bad.append(f"_build_data node {sid}: TRACK_ID {nd['TRACK_ID']}, document track {track_of[sid]}")
        if "ROI_N_POINTS" in sp.attrib:
            vals = [float(x) for x in (sp.text or "").split()]
            flat = [x for pt in (nd["ROI_coords"] or []) for x in pt]
            if len(flat) != len(vals) or not all(feq(a, b) for a, b in zip(flat, vals)):
                bad.append(f"_build_data node {sid}: {len(flat)} ROI coordinates, document text holds {len(vals)}")
    for (s, t), e in links.items():
        if (s, t) not in graph.edges or len(bad) > 5:
            continue
        ed = graph.edges[s, t]
        if set(ed) != set(e.attrib):
            bad.append(f"_build_data edge {(s, t)} has keys {sorted(ed)}, link attributes {sorted(e.attrib)}")
            continue
        for k, text in e.attrib.items():
            if not _same_number(ed[k], text):
                bad.append(f"_build_data edge {(s, t)}: {k} = {ed[k]!r}, document text {text[:40]!r}")
    return bad


def extras_check(other: dict, data: bytes) -> list[str]:
    """The XML texts stored under other_trackmate_metadata against the full parse: each must be the serialisation of the
    document's element (same tag, attributes, text, children)."""
    import io

    from lxml import etree as LET

    root = LET.parse(io.BytesIO(data)).getroot()
    bad = []
    names = {"log": "Log", "settings": "Settings", "gui_state": "GUIState", "display_settings": "DisplaySettings"}
    for key, text in other.items():
        if key in ("trackmate_version", "lineage_props_metadata"):
            continue
        if key not in names or not isinstance(text, str):
            bad.append(f"unexpected entry {key!r} in other_trackmate_metadata")
            continue
        want = root.find(names[key])
        try:
            got = LET.fromstring(text.encode("utf-8"))
        except LET.XMLSyntaxError as e:
            bad.append(f"other_trackmate_metadata[{key!r}] is not XML: {e}"[:160])
            continue
        if want is None or LET.tostring(got, with_tail=False) != LET.tostring(want, with_tail=False):
            bad.append(f"other_trackmate_metadata[{key!r}] ({len(text)} chars, {len(list(got.iter()))} elements) is not the document's "
                       f"{names[key]} element ({'absent' if want is None else str(len(list(want.iter()))) + ' elements'})")
    return bad


def run_impl(c):
    from geff.core_io import read_to_memory
    from geff.validate.data import ValidationConfig, validate_data
    from geff.validate.structure import validate_structure
    from harness import graphgen as gg
    from harness.storelib import Interner, c_meta, c_otree, dump_tree

    root = scratch_dir()
    obs: dict = {}
    try:
        xml_path = root / "in" / "tracks.xml"
        xml_path.parent.mkdir()
        data = b""
        if c["exists"]:
            data = xml_of(c).encode("utf-8")
            xml_path.write_bytes(data)
            boundary_check(c, data)
            obs["xml_bytes"] = len(data)
            obs["stream"] = stream_check(c, xml_path, data)
        geff_path = root / "out" / "tracks.geff"
        geff_path.parent.mkdir()
        if c["pre"] is not None:
            from geff.convert import from_trackmate_xml_to_geff as conv0

            (root / "in" / "old.xml").write_text(pre_doc(), encoding="utf-8")
            try:
                conv0(root / "in" / "old.xml", geff_path, zarr_format=c["pre"])
            except Exception:
                # the converter under test cannot even produce the pre-state: occupy the target with a plain geff instead
                from geff.core_io import write_arrays
                from geff_spec import GeffMetadata

                shutil.rmtree(geff_path, ignore_errors=True)
                write_arrays(geff_path, np.array([70, 71], dtype="uint64"), {}, np.array([[70, 71]], dtype="uint64"), {},
                             GeffMetadata(directed=True, node_props_metadata={}, edge_props_metadata={}), zarr_format=c["pre"])
        obs["pre_coq"] = c_otree(dump_tree(geff_path, Interner())) if geff_path.exists() else "None"
        before = snapshot_dir(geff_path)
        try:
            if c["via"] == "cli":
                from typer.testing import CliRunner

                from geff._cli import app

                args = ["convert-trackmate-xml", str(xml_path), str(geff_path), "--zarr-format", str(c["fmt"])]
                if c["ds"]:
                    args.append("--discard-filtered-spots")
                if c["dt"]:
                    args.append("--discard-filtered-tracks")
                if c["overwrite"]:
                    args.append("--overwrite")
                r = CliRunner().invoke(app, args)
                if r.exception is not None and not isinstance(r.exception, SystemExit):
                    raise r.exception
                if r.exit_code != 0:
                    raise HarnessError(f"geff convert-trackmate-xml exit code {r.exit_code}: {r.output[:300]}")
            else:
                from geff.convert import from_trackmate_xml_to_geff

                from_trackmate_xml_to_geff(xml_path, geff_path, discard_filtered_spots=c["ds"], discard_filtered_tracks=c["dt"],
                                           overwrite=c["overwrite"], zarr_format=c["fmt"])
            obs["res"] = ["ok"]
        except HarnessError:
            raise
        except Exception as e:
            obs["res"] = ["err", exn_name(e), f"{type(e).__name__}: {e}"[:200]]
        if obs["res"][0] != "ok":
            obs["unchanged"] = snapshot_dir(geff_path) == before
            return obs
        obs["fmt_geff"] = zarr_fmt_of(geff_path)
        val = {}
        try:
            g = read_to_memory(geff_path)          # structure validation is on by default
            val["structure"] = "ok"
        except Exception as e:
            obs["back"] = ["err", exn_name(e), f"{type(e).__name__}: {e}"[:200]]
            obs["val"] = val
            return obs
        both = ValidationConfig(graph=True, lineage=True)
        for key, cfg in (("graph", ValidationConfig(graph=True)), ("lineage", ValidationConfig(lineage=True)), ("read_validated", both)):
            try:
                validate_data(g, cfg)
                val[key] = "ok"
            except ValueError as e:
                val[key] = f"invalid: {e}"[:200]
            except Exception as e:
                val[key] = f"raises:{exn_name(e)}: {type(e).__name__}: {e}"[:200]
        if c.get("origin", "").startswith("fixed") or next(_COUNTER) % 8 == 0:
            # "read back with the data validators on", literally (read_to_memory runs validate_data on what it read)
            try:
                validate_structure(geff_path)
                read_to_memory(geff_path, data_validation=both)
                full = "ok"
            except ValueError as e:
                full = f"invalid: {e}"[:200]
            except Exception as e:
                full = f"raises:{exn_name(e)}: {type(e).__name__}: {e}"[:200]
            if full[:7] != val["read_validated"][:7]:
                raise HarnessError(f"read_to_memory(data_validation) = {full!r} but validate_data on the read graph = {val['read_validated']!r}")
        obs["val"] = val
        md_json = g["metadata"].model_dump(mode="json")
        md_abs, x = abstract_md(md_json)
        obs["stream"] = obs.get("stream", []) + extras_check((md_json.get("extra") or {}).get("other_trackmate_metadata") or {}, data)
        obs["back"] = ["ok"]
        obs["extra"] = x
        obs["graph"] = {
            "directed": md_json["directed"],
            "axes": [[a["name"], a.get("type"), a.get("unit"), a.get("min"), a.get("max")] for a in (md_json.get("axes") or [])],
            "node_ids": g["node_ids"].tolist(), "id_dtype": str(g["node_ids"].dtype),
            "edges": g["edge_ids"].tolist(), "edge_shape": list(g["edge_ids"].shape),
            "nprops": {k: prop_json(v) for k, v in sorted(g["node_props"].items())},
            "eprops": {k: prop_json(v) for k, v in sorted(g["edge_props"].items())},
            "nmeta": md_json.get("node_props_metadata") or {}, "emeta": md_json.get("edge_props_metadata") or {},
        }
        try:
            it = StokInterner()
            mg = (f"(mkmg {c_meta(md_abs)} {gg.c_np_arr(g['node_ids'], it)} {gg.c_np_arr(g['edge_ids'], it)} "
                  f"{gg.c_props_np(g['node_props'], it)} {gg.c_props_np(g['edge_props'], it)})")
            vg = cbool(val["graph"] == "ok")
            if val["lineage"].startswith("raises:"):
                vl = f"(Err {val['lineage'].split(':')[1]})"
            else:
                vl = f"(Ok {cbool(val['lineage'] == 'ok')})"
            obs["coq_obs"] = f"(OOk (Ok ({mg}, {vg}, {vl})) {c_extra(x)})"
        except HarnessError as e:
            obs["coq_skip"] = str(e)
        return obs
    finally:
        shutil.rmtree(root, ignore_errors=True)


# --------------------------------------------------------------------------
# Coq terms
# --------------------------------------------------------------------------
def c_decl(dc) -> str:
    isint = None if dc.get("isint") is None else dc["isint"] == "true"
    return f"(mkdecl {cstr(dc['feature'])} {copt(dc.get('name'), cstr)} {copt(isint, cbool)} {copt(dc.get('dimension'), cstr)})"


def text_payloads(text):
    """element.text -> None (falsy text) | float payloads of text.split()"""
    if not text:
        return None
    return [enc_float(float(v)) for v in text.split()]


# malformations after which the document violates wf_tm (or, for the two track ones, tracks_connected) as props/C16.v words it;
# "undeclared_attr" is the only one that leaves the document well-formed in that sense (no claim is made for it)
NOT_WF = {"int_text", "no_id", "unknown_spot_edge", "edge_no_target", "edge_no_source", "track_no_id", "two_tracks", "dup_edge", "dup_spot",
          "self_link", "undeclared_track_id", "decl_no_isint", "decl_no_isint_unused", "decl_no_dim", "decl_bad_dim", "dup_decl", "no_decls",
          "no_spots_section", "no_tracks_section", "trackid_no_attr", "trackid_text", "roi_zero", "roi_ragged", "roi_later_missing",
          "roi_earlier_missing", "roi_no_position_x", "negative_id", "no_position_z", "no_position_z_at_all", "no_xml", "float_track_id",
          "clash_decl", "unconnected_track", "same_track_id_twice", "edge_float_ids", "empty_feature_name"}


def intent_of(c):
    """What the generator meant: True = the premises of the theorems hold (well-formed, tracks connected), False = they do not."""
    if c["cls"] == "wf":
        return True
    return False if c["cls"].split(":", 1)[1] in NOT_WF else None


def coq_input(c, pre_coq: str, intent="-") -> str | None:
    if c["decls"] is None:
        decls = "None"
    else:
        decls = "(Some (" + ", ".join(clist(c["decls"][k], c_decl) for k in ("spot", "edge", "track")) + "))"
    if c["spots"] is None:
        spots = "None"
    else:
        spots = "(Some " + clist(c["spots"], lambda sp: f"(mkspot {c_xattrs(sp['attrs'])} {copt(text_payloads(sp.get('text')), lambda l: clist(l, cz))})") + ")"
    if c["tracks"] is None:
        tracks = "None"
    else:
        tracks = "(Some " + clist(c["tracks"], lambda tr: f"(mktrack {c_xattrs(tr['attrs'])} {clist(tr['edges'], c_xattrs)})") + ")"
    if c["filtered"] is None:
        flt = "None"
    else:
        flt = "(Some " + clist(c["filtered"], lambda t: copt(t, c_raw)) + ")"
    if c["settings"] is None:
        img = "None"
    else:
        im = c["settings"].get("image")
        img = "(Some " + copt(im, lambda i: f"({cstr(i['filename'])}, {cstr(i['folder'])})") + ")"
    d = (f"(mktm {cbool(c['exists'])} {copt(c['version'], cstr)} {copt(c['space'], cstr)} {copt(c['time'], cstr)} {decls} {spots} "
         f"{tracks} {flt} {img} {cbool(c['log'])} {cbool(c['gui'])} {cbool(c['disp'])})")
    head = "IConv" if intent == "-" else f"IConvW {copt(intent, cbool)}"
    return f"({head} {d} {cbool(c['ds'])} {cbool(c['dt'])} {cbool(c['overwrite'])} {pre_coq})"


def in_model(c) -> bool:
    """The inputs on which TrackMate.v claims to be exact (see ASSUMPTIONS)."""
    for sp in c["spots"] or []:
        a = dict(map(tuple, sp["attrs"]))
        if "ROI_N_POINTS" in a and not sp.get("text"):
            return False
    return True


def coq_case(c, o):
    if "pre_coq" not in o or not in_model(c):
        return None
    try:
        inp = coq_input(c, o["pre_coq"], intent_of(c))
    except HarnessError:
        return None
    if o["res"][0] != "ok":
        return f"({inp}, OErr {o['res'][1]})"
    if o.get("back", ["ok"])[0] != "ok":
        return f"({inp}, OOk (Err {o['back'][1]}) (mkx None [] [] \"\"%string [] []))"
    if "coq_obs" not in o:
        return None
    return f"({inp}, {o['coq_obs']})"


# --------------------------------------------------------------------------
# the oracle: the property text, restated over the document description
# --------------------------------------------------------------------------
def well_formed(c) -> bool:
    return c["cls"] == "wf"


def feq(a, b) -> bool:
    """same float (NaN equals NaN, signed zeros distinguished by ==, which the text does not ask)"""
    a, b = float(a), float(b)
    return (a != a and b != b) or a == b


def expected(c):
    """Independent reading of the document: spots, links, track membership, kept nodes under the two options."""
    sdecl = {d["feature"]: d["isint"] == "true" for d in c["decls"]["spot"]}
    edecl = {d["feature"]: d["isint"] == "true" for d in c["decls"]["edge"]}
    spots = {}
    for sp in c["spots"]:
        a = dict(map(tuple, sp["attrs"]))
        sid = int(a["ID"])
        roi = None
        if "ROI_N_POINTS" in a:
            vals = [float(v) for v in sp["text"].split()]
            roi = [vals[i:i + 2] for i in range(0, len(vals), 2)]
        spots[sid] = {"feat": {k: v for k, v in a.items() if k in sdecl}, "roi": roi, "name": a.get("name")}
    links, track_of = [], {}
    for tr in c["tracks"]:
        ta = dict(map(tuple, tr["attrs"]))
        tid = int(ta["TRACK_ID"])
        for e in tr["edges"]:
            ea = dict(map(tuple, e))
            s, t = int(ea["SPOT_SOURCE_ID"]), int(ea["SPOT_TARGET_ID"])
            links.append((s, t, {k: v for k, v in ea.items() if k in edecl}))
            track_of[s] = tid
            track_of[t] = tid
    keep = set(spots)
    if c["ds"]:
        keep = {s for s in keep if s in track_of}
    if c["dt"] and c["filtered"] is not None:
        kept_tracks = {int(t) for t in c["filtered"]}
        keep = {s for s in keep if track_of.get(s) in kept_tracks}
    return spots, links, track_of, keep, sdecl, edecl


def check_feature_column(fail, what, name, isint, col, rows, part):
    """rows: per element, the text of the feature or None when absent"""
    want_dtype = "int64" if isint else "float64"
    if col["dtype"] != want_dtype:
        return fail(f"{what} feature {name!r} stored as {col['dtype']}, declared isint={isint}", why="features", part="dtype", on=part)
    miss = col["missing"] or [False] * len(rows)
    for i, txt in enumerate(rows):
        if (txt is None) != bool(miss[i]):
            return fail(f"{what} feature {name!r}, element {i}: absent={txt is None} but missing flag={miss[i]}", why="features", part="missing", on=part)
        if txt is not None:
            got = col["values"][i]
            if isint:
                if got != int(txt):
                    return fail(f"{what} feature {name!r}, element {i}: stored {got}, document {txt}", why="features", part="value", on=part)
            elif not feq(got, txt):
                return fail(f"{what} feature {name!r}, element {i}: stored {got}, document {txt}", why="features", part="value", on=part)
    return None


def strip(o):
    return {k: v for k, v in o.items() if not k.startswith("coq") and k != "pre_coq"}


def oracle(c, o):
    fail = lambda what, **tags: Failure(c, strip(o), what, tags)
    if o.get("stream"):
        # the converter's extraction passes disagree with a full parse of the same file (whatever the document says)
        return fail("streaming extraction differs from the document: " + "; ".join(o["stream"][:3]), why="streaming",
                    exc=o["res"][1] if o["res"][0] != "ok" else None)
    if not well_formed(c):
        return None                       # the property speaks about well-formed TrackMate documents only
    occupied = c["pre"] is not None and not c["overwrite"]
    if o["res"][0] != "ok":
        if occupied and o["res"][1] == "FileExistsError":
            if not o.get("unchanged", True):
                return fail("FileExistsError raised but the existing geff was modified", why="exists-modified")
            return None
        return fail(f"conversion of a well-formed document raised {o['res'][2]}", why="raises", exc=o["res"][1], ds=c["ds"], dt=c["dt"])
    if occupied:
        return fail("an existing geff was replaced without overwrite=True", why="clobbered")
    if o["back"][0] != "ok":
        return fail(f"read_to_memory of the converted geff raised {o['back'][2]}", why="read-raises")
    if o.get("fmt_geff") != c["fmt"]:
        return fail(f"zarr_format={c['fmt']} requested, the geff is stored in format {o.get('fmt_geff')}", why="zarr-format")
    g = o["graph"]
    spots, links, track_of, keep, sdecl, edecl = expected(c)
    # --- nodes and edges
    if not g["directed"]:
        return fail("the geff is not directed", why="nodes-edges", part="directed")
    ids = g["node_ids"]
    if Counter(ids) != Counter(keep):
        which = "discard-spots" if c["ds"] and not c["dt"] else "discard-tracks" if c["dt"] else "nodes-edges"
        return fail(f"node ids {sorted(ids)}, expected one node per kept spot {sorted(keep)}", why=which, part="nodes", ds=c["ds"], dt=c["dt"])
    want_edges = Counter((s, t) for s, t, _ in links if s in keep and t in keep)
    got_edges = Counter(tuple(e) for e in g["edges"])
    if g["edge_shape"][1:] != [2] or got_edges != want_edges:
        return fail(f"edges {sorted(got_edges.elements())}, expected one edge per track edge {sorted(want_edges.elements())}", why="nodes-edges",
                    part="edges", ds=c["ds"], dt=c["dt"])
    # --- spot features
    np_, ep_ = g["nprops"], g["eprops"]
    for name, isint in sdecl.items():
        rows = [spots[i]["feat"].get(name) for i in ids]
        if all(r is None for r in rows):
            continue                       # declared but present on no element: the lenient reading (DESIGN 9b)
        if name not in np_:
            return fail(f"declared spot feature {name!r} is not a node property", why="features", part="absent", on="spot")
        f = check_feature_column(fail, "spot", name, isint, np_[name], rows, "spot")
        if f:
            return f
    # --- edge features (edges are identified by their endpoints; the document lists each link once)
    by_pair = {(s, t): a for s, t, a in links}
    for name, isint in edecl.items():
        rows = [by_pair[tuple(e)].get(name) for e in g["edges"]]
        if all(r is None for r in rows):
            continue
        if name not in ep_:
            return fail(f"declared edge feature {name!r} is not an edge property", why="features", part="absent", on="edge")
        f = check_feature_column(fail, "edge", name, isint, ep_[name], rows, "edge")
        if f:
            return f
    # --- track ids
    in_track = [i for i in ids if i in track_of]
    if in_track:
        col = np_.get("TRACK_ID")
        if col is None:
            return fail("no TRACK_ID node property although some nodes belong to tracks", why="track-ids", part="absent")
        miss = col["missing"] or [False] * len(ids)
        for k, i in enumerate(ids):
            if i in track_of:
                if miss[k] or col["values"][k] != track_of[i]:
                    return fail(f"node {i}: TRACK_ID {col['values'][k]} (missing={miss[k]}), it belongs to track {track_of[i]}", why="track-ids", part="value")
            elif not miss[k]:
                return fail(f"node {i} belongs to no track but carries TRACK_ID {col['values'][k]} not flagged missing", why="track-ids", part="lone",
                            lone=True)
        if col["dtype"] != "int64":
            return fail(f"TRACK_ID stored as {col['dtype']}", why="track-ids", part="dtype")
    # --- units
    su = c["space"] if c["space"] is not None else "pixel"      # TrackMate's defaults, as the converter documents them
    tu = c["time"] if c["time"] is not None else "frame"
    want_axes = [["POSITION_X", "space", su], ["POSITION_Y", "space", su], ["POSITION_Z", "space", su], ["POSITION_T", "time", tu]]
    if [a[:3] for a in g["axes"]] != want_axes:
        return fail(f"axes {[a[:3] for a in g['axes']]}, expected {want_axes}", why="units", part="axes")
    # a stored feature whose TrackMate dimension is a length / position / time is measured in the model's unit
    carried = {"spot": {k for i in ids for k in spots[i]["feat"]}, "edge": {k for e in g["edges"] for k in by_pair[tuple(e)]}}
    for part, decls, meta in (("spot", c["decls"]["spot"], g["nmeta"]), ("edge", c["decls"]["edge"], g["emeta"])):
        for dc in decls:
            if dc["feature"] in carried[part] and dc["feature"] in meta and dc.get("dimension") in ("POSITION", "LENGTH", "TIME"):
                want = tu if dc["dimension"] == "TIME" else su
                if meta[dc["feature"]].get("unit") != want:
                    return fail(f"{part} feature {dc['feature']!r} of dimension {dc['dimension']} has unit {meta[dc['feature']].get('unit')!r}, "
                                f"the model's unit is {want!r}", why="units", part="feature")
    # --- ROIs
    if any(spots[i]["roi"] is not None for i in ids):
        col = np_.get("ROI_coords")
        if col is None:
            return fail("spots carry ROIs but there is no ROI_coords node property", why="roi", part="absent")
        miss = col["missing"] or [False] * len(ids)
        for k, i in enumerate(ids):
            roi = spots[i]["roi"]
            if roi is None:
                continue
            got = col["values"][k]["data"] if col["kind"] == "vlen" else col["values"][k]
            if miss[k] or [list(map(float, p)) for p in got] != roi:
                return fail(f"spot {i}: ROI {got} (missing={miss[k]}), document polygon {roi}", why="roi", part="points")
    # --- validation
    v = o["val"]
    for key in ("structure", "graph", "lineage", "read_validated"):
        if v.get(key) != "ok":
            lone = any(i not in track_of for i in ids)
            return fail(f"{key} validation of the converted geff: {v.get(key)}", why="validation", part=key, lone=lone, empty=not in_track)
    return None


def nontrivial(c, o):
    return len(c["spots"] or []) >= 2 and "res" in o and (o["res"][0] == "ok" or o["res"][1] not in ("FileNotFoundError", "FileExistsError"))


def describe(c, o):
    n = len(c["spots"] or [])
    ntr = len(c["tracks"] or [])
    ne = sum(len(t["edges"]) for t in c["tracks"] or [])
    roi = "roi" if any("text" in sp and sp["text"] for sp in c["spots"] or []) else "noroi"
    res = o["res"][0] if o["res"][0] == "ok" else o["res"][1]
    return (f"{c['cls']}:N={min(n, 9)}:tracks={min(ntr, 4)}:E={min(ne, 9)}:{roi}:flt={'none' if c['filtered'] is None else min(len(c['filtered']), 3)}:"
            f"ds={int(c['ds'])}:dt={int(c['dt'])}:v{c['fmt']}:{c['via']}:pre={c['pre']}:{'ow' if c['overwrite'] else 'no-ow'}:{res}")


def shrink(c):
    """Greedy: drop a spot (with its links), a track, an optional attribute, the call decorations, while the oracle still fails."""

    budget = [120]                      # conversions spent on shrinking (a large document has hundreds of candidates per round)

    def fails(x):
        if budget[0] <= 0:
            return False
        budget[0] -= 1
        try:
            return oracle(x, run_impl(x)) is not None
        except Exception:
            return False

    cur = copy.deepcopy(c)
    changed = True
    while changed:
        changed = False
        cands = []
        for i, sp in enumerate(cur["spots"] or []):
            sid = dict(map(tuple, sp["attrs"])).get("ID")
            x = copy.deepcopy(cur)
            del x["spots"][i]
            for tr in x["tracks"] or []:
                tr["edges"] = [e for e in tr["edges"] if sid not in (dict(map(tuple, e)).get("SPOT_SOURCE_ID"), dict(map(tuple, e)).get("SPOT_TARGET_ID"))]
            x["tracks"] = [tr for tr in x["tracks"] or [] if tr["edges"]] if x["tracks"] is not None else None
            cands.append(x)
        for i in range(len(cur["tracks"] or [])):
            x = copy.deepcopy(cur)
            del x["tracks"][i]
            cands.append(x)
        for key, val in (("via", "api"), ("fmt", 2), ("pre", None), ("overwrite", False), ("log", False), ("gui", False), ("disp", False),
                         ("settings", None), ("ds", False), ("dt", False)):
            if cur[key] != val:
                x = copy.deepcopy(cur)
                x[key] = val
                cands.append(x)
        for x in cands:
            if fails(x):
                cur, changed = x, True
                break
    return cur


def search(rng, budget):
    for _ in range(100000):
        yield decorate(rng, rand_doc(rng))


def main(tier, seed):
    """Smaller Coq shards than the default (the terms are large): all cores are used."""
    import sys

    from harness import common

    orig = common.coq_eval_cases
    common.coq_eval_cases = lambda prop, terms, shard=40, timeout=900: orig(prop, terms, shard=shard, timeout=timeout)
    try:
        return common.run_property(sys.modules[__name__], tier, seed)
    finally:
        common.coq_eval_cases = orig


def extra_coverage():
    shutil.rmtree(WORK / f"c16-{os.getpid()}", ignore_errors=True)
    for p in WORK.glob("c16-*"):
        try:
            p.rmdir()
        except OSError:
            pass
    return {}
