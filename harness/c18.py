"""C18 -- reading and validating never modify a store; writing never alters its inputs."""
from __future__ import annotations

import copy
import json
import os
import random
import shutil
from pathlib import Path

import numpy as np

from harness import graphgen as gg
from harness.c04 import apply_fault, base_store, catalogue
from harness.common import WORK, Failure, HarnessError, cbool, cstr, exn_name
from harness.storelib import Interner, TracingStore, c_otree, dump_tree, snapshot, tree_printable

PROP = "C18"
PARALLEL = True
RULE = ("read side: store states {valid geffs (4 bases, zarr 2/3), every base with a sampled structural fault, non-geff zarr group, empty "
        "store, nonexistent path} x store kind {traced MemoryStore, directory path} x entry point {validate_structure, GeffMetadata.read, "
        "GeffReader+build, read_to_memory (validation on/off), geff.read for networkx / rustworkx / spatial-graph, geff_to_dataframes, "
        "`geff validate`, `geff info`}: key->bytes snapshot (or directory listing) before and after, mutation trace must be empty; the "
        "effect of every zarr open mode on absent / existing stores (calibration); write side: write_arrays, write_dicts, geff.write per "
        "backend, write_props_arrays with unsquish, and the metadata helpers: deep snapshot (bytes, dtype, shape of every array object; "
        "model_dump of the metadata) before and after; non-trivial = a read-side call on an existing store or a write-side call with "
        "properties; distinct by structural input")
EXHAUSTIVE_BLOCKS = ["zarr open modes {r, r+, a, default, w, w-} x {absent, existing group} x {MemoryStore, path}"]
ASSUMPTIONS = ["a MemoryStore's key->bytes dict and a directory's file tree are the whole state of a store",
               "write side: 'contents of the caller's arrays' = bytes, dtype and shape of the array objects passed in; a dict of properties "
               "gaining or losing a key (axis back-fill of an empty graph, float16 upcast, unsquish) is recorded, not judged",
               "in-place mutation of numpy buffers cannot be expressed in the pure Coq model; it is monitored on the implementation"]

READ_ENTRIES = ["validate", "meta_read", "reader_T", "reader_F", "rtm_T", "rtm_F", "read_nx", "read_rx", "read_sg", "dataframes",
                "cli_validate", "cli_info"]
MODELLED = {"validate": "EValidate", "meta_read": "EMetaRead", "reader_T": "(EReader true)", "reader_F": "(EReader false)",
            "rtm_T": "(EReadToMemory true)", "rtm_F": "(EReadToMemory false)"}


def scratch() -> Path:
    d = WORK / f"c18-{os.getpid()}"
    d.mkdir(parents=True, exist_ok=True)
    return d


def generate(rng: random.Random, tier: str):
    for mode in ("r", "r+", "a", "default", "w", "w-"):
        for state in ("absent", "group"):
            for kind in ("mem", "path"):
                yield {"kind": "open", "mode": mode, "state": state, "store": kind}
    states = [("absent", None, None), ("empty", None, None), ("nongeff", None, None)]
    for fmt in (2, 3):
        for base in ("full", "bare", "empty", "single"):
            states.append(("valid", base, fmt))
            cat = catalogue(base, fmt)
            for f in rng.sample(cat, 3 if tier == "quick" else 25):
                states.append(("faulted", base, fmt, f))
    for st in states:
        for kind in ("mem", "path"):
            if st[0] == "absent" and kind == "mem":
                continue
            if st[0] == "empty" and kind == "path":
                continue
            entries = READ_ENTRIES if (tier == "thorough" or st[0] != "faulted") else rng.sample(READ_ENTRIES, 5)
            for e in entries:
                if e.startswith("cli") and kind != "path":
                    continue
                yield {"kind": "read", "state": list(st), "store": kind, "entry": e}
    # a WRITABLE zip archive handed to the read side as a store object (a store type that cannot hand out a read-only view of itself):
    # empty archive, a geff below a subgroup with no root group, a valid geff at the root -- whatever the call answers, the archive's
    # member list and bytes must be what they were
    for state in ("zip-empty", "zip-nested", "zip-valid"):
        for fmt in (2, 3):
            for e in READ_ENTRIES:
                if not e.startswith("cli"):
                    yield {"kind": "readzip", "state": [state], "fmt": fmt, "entry": e, "store": "zip"}
    for i in range(60 if tier == "quick" else 600):
        g = gg.rand_graph(rng, max_n=4, max_e=3, max_props=3)
        yield {"kind": "write", "entry": rng.choice(["write_arrays", "write_arrays", "write_arrays_val_off"]), "fmt": rng.choice([2, 3]), **g}
    for i in range(40 if tier == "quick" else 400):
        yield {"kind": "write", "entry": rng.choice(["write_dicts", "nx", "rx", "sg", "minmax", "update_axes", "add_props_md", "create_or_update",
                                                       "unsquish"]), "fmt": rng.choice([2, 3]), "seed": rng.randrange(10 ** 6)}


# --------------------------------------------------------------------------
def make_state(c, it):
    """(store argument handed to geff, inner store for snapshots, path or None)"""
    import zarr
    from zarr.storage import LocalStore, MemoryStore

    st = c["state"]
    kind = c["store"]
    if st[0] == "absent":
        p = scratch() / "absent.zarr"
        shutil.rmtree(p, ignore_errors=True)
        return str(p), None, p
    if st[0] == "empty":
        m = MemoryStore()
        return m, m, None
    if st[0] == "nongeff":
        m = MemoryStore()
        g = zarr.open_group(m, mode="a", zarr_format=2)
        g.attrs["foo"] = 1
        g.create_group("other")["arr"] = np.arange(3)
    else:
        m = base_store(st[1], st[2])
        if st[0] == "faulted":
            try:
                apply_fault(m, st[3])
            except Exception:
                pass
    if kind == "mem":
        return m, m, None
    # copy the memory store to a directory
    p = scratch() / "s.zarr"
    shutil.rmtree(p, ignore_errors=True)
    for k, v in m._store_dict.items():
        f = p / k
        f.parent.mkdir(parents=True, exist_ok=True)
        f.write_bytes(bytes(v.to_bytes()))
    p.mkdir(parents=True, exist_ok=True)
    return str(p), None, p


def call_read(entry, store):
    import geff
    from geff import GeffReader, validate_structure
    from geff.core_io import read_to_memory
    from geff_spec import GeffMetadata

    if entry == "validate":
        validate_structure(store)
    elif entry == "meta_read":
        GeffMetadata.read(store)
    elif entry in ("reader_T", "reader_F"):
        rd = GeffReader(store, validate=entry.endswith("T"))
        rd.read_node_props()
        rd.read_edge_props()
        rd.build()
    elif entry in ("rtm_T", "rtm_F"):
        read_to_memory(store, structure_validation=entry.endswith("T"))
    elif entry.startswith("read_"):
        backend = {"read_nx": "networkx", "read_rx": "rustworkx", "read_sg": "spatial-graph"}[entry]
        geff.read(store, backend=backend)
    elif entry == "dataframes":
        from geff.convert import geff_to_dataframes

        geff_to_dataframes(store)
    else:
        from typer.testing import CliRunner

        from geff._cli import app

        r = CliRunner().invoke(app, ["validate" if entry == "cli_validate" else "info", str(store)])
        if r.exit_code != 0:
            raise (r.exception if isinstance(r.exception, Exception) else RuntimeError(f"exit {r.exit_code}"))


def run_read(c):
    it = Interner()
    arg, inner, path = make_state(c, it)
    obs = {}
    try:
        if inner is not None:
            before = snapshot(inner)
            tree = dump_tree(inner, it)
            ts = TracingStore(inner)
            target = ts
        else:
            before = snapshot(arg)
            tree = dump_tree(arg, it)
            ts = None
            target = arg
        try:
            call_read(c["entry"], target)
            obs["res"] = ["ok"]
        except Exception as e:
            obs["res"] = ["err", exn_name(e), type(e).__name__, str(e)[:100]]
        after = snapshot(inner if inner is not None else arg)
        obs["unchanged"] = after == before
        obs["mutations"] = [list(x) for x in ts.log] if ts is not None else []
        if not obs["unchanged"]:
            obs["delta"] = sorted(set(after) ^ set(before))[:6] + [k for k in after if k in before and after[k] != before[k]][:6]
        # unvalidated reads of inconsistent stores go through numpy casts that are outside the model: oracle only
        modelled = c["entry"] in MODELLED and not (c["entry"].endswith("_F") and c["state"][0] == "faulted")
        if modelled and tree_printable(tree):
            kind = "KObj" if inner is not None else "KPath"
            r = "(Ok tt)" if obs["res"][0] == "ok" else f"(Err {obs['res'][1]})"
            obs["coq"] = f"(IRead {MODELLED[c['entry']]} {kind} {c_otree(tree)}, ORead {r} {cbool(obs['unchanged'] and not obs['mutations'])})"
    finally:
        if path is not None:
            shutil.rmtree(path, ignore_errors=True)
    return obs


def zip_snapshot(path) -> dict:
    import zipfile

    with zipfile.ZipFile(path) as z:
        return {n: z.read(n) for n in z.namelist()}


def run_readzip(c):
    import zarr
    from zarr.storage import ZipStore

    path = scratch() / f"z-{c['state'][0]}-{c['fmt']}.zip"
    path.unlink(missing_ok=True)
    obs = {"mutations": []}
    try:
        st = ZipStore(str(path), mode="w")
        if c["state"][0] == "zip-empty":
            zarr.open_group(st, mode="a", zarr_format=c["fmt"])      # an archive needs one member to exist on disk; removed below
            st.close()
            path.unlink()
            import zipfile
            zipfile.ZipFile(path, "w").close()
        else:
            src = base_store("full", c["fmt"])
            prefix = "tracks/" if c["state"][0] == "zip-nested" else ""
            import zipfile
            st.close()
            path.unlink(missing_ok=True)
            with zipfile.ZipFile(path, "w") as z:
                for k, v in src._store_dict.items():
                    z.writestr(prefix + k, bytes(v.to_bytes()))
        before = zip_snapshot(path)
        target = ZipStore(str(path), mode="a")
        try:
            call_read(c["entry"], target)
            obs["res"] = ["ok"]
        except Exception as e:
            obs["res"] = ["err", exn_name(e), type(e).__name__, str(e)[:100]]
        try:
            target.close()
        except Exception:
            pass
        after = zip_snapshot(path)
        obs["unchanged"] = after == before
        if not obs["unchanged"]:
            obs["delta"] = sorted(set(after) ^ set(before))[:6] + [k for k in after if k in before and after[k] != before[k]][:6]
    finally:
        path.unlink(missing_ok=True)
    return obs


def run_open(c):
    import zarr
    from zarr.storage import MemoryStore

    it = Interner()
    obs = {}
    if c["store"] == "mem":
        target = MemoryStore()
        path = None
    else:
        path = scratch() / "o.zarr"
        shutil.rmtree(path, ignore_errors=True)
        target = str(path)
    try:
        if c["state"] == "group":
            g = zarr.open_group(target, mode="a", zarr_format=2)
            g.attrs["foo"] = 1
            g.create_group("other")
        tree = dump_tree(target, it)
        try:
            if c["mode"] == "default":
                zarr.open_group(target, zarr_format=2)
            else:
                zarr.open_group(target, mode=c["mode"], zarr_format=2 if c["mode"] in ("a", "w", "w-") else None)
            obs["res"] = ["ok"]
        except Exception as e:
            obs["res"] = ["err", exn_name(e), type(e).__name__]
        post = dump_tree(target, it)
        obs["created"] = tree is None and post is not None
        kind = "KObj" if c["store"] == "mem" else "KPath"
        r = "(Ok tt)" if obs["res"][0] == "ok" else f"(Err {obs['res'][1]})"
        obs["coq"] = f"(IOpen {cstr(c['mode'])} {kind} {c_otree(tree)}, OOpen {r} {c_otree(post)})"
    finally:
        if path is not None:
            shutil.rmtree(path, ignore_errors=True)
    return obs


# --------------------------------------------------------------------------
def deep_snap(objs: dict) -> dict:
    out = {}
    for name, o in objs.items():
        if isinstance(o, np.ndarray):
            if o.dtype == object:
                out[name] = ("obj", o.shape, tuple((id(x), x.dtype.str, x.shape, x.tobytes()) if isinstance(x, np.ndarray) else repr(x) for x in o))
            else:
                out[name] = (o.dtype.str, o.shape, o.tobytes())
        elif hasattr(o, "model_dump"):
            out[name] = json.dumps(o.model_dump(mode="json"), sort_keys=True)
        elif isinstance(o, dict):
            out[name] = ("keys", tuple(sorted(map(str, o.keys()))))
        else:
            out[name] = repr(o)
    return out


def run_write(c):
    from zarr.storage import MemoryStore

    from geff_spec import Axis, GeffMetadata, PropMetadata

    rng = random.Random(c.get("seed", 0))
    st = MemoryStore()
    watch = {}
    obs = {}
    call = None
    e = c["entry"]
    if e in ("write_arrays", "write_arrays_val_off"):
        from geff.core_io import write_arrays

        nids, eids = gg.to_np(c["nids"]), gg.to_np(c["eids"])
        nprops, eprops = gg.props_to_np(c["nprops"]), gg.props_to_np(c["eprops"])
        md = gg.make_metadata(c["md"])
        watch = {"node_ids": nids, "edge_ids": eids, "metadata": md}
        for which, ps in (("n", nprops), ("e", eprops)):
            if ps is not None:
                watch[f"{which}:dict"] = ps
                for k, p in ps.items():
                    watch[f"{which}:{k}:values"] = p["values"]
                    if p["missing"] is not None:
                        watch[f"{which}:{k}:missing"] = p["missing"]
        call = lambda: write_arrays(st, nids, nprops, eids, eprops, md, zarr_format=c["fmt"], structure_validation=(e == "write_arrays"))  # noqa: E731
    elif e == "write_dicts":
        from geff.core_io import write_dicts

        arr = np.arange(3.0)
        nodes = [(i, {"t": float(i), "v": arr}) for i in rng.sample(range(50), rng.randint(1, 4))]
        edges = [((nodes[0][0], nodes[-1][0]), {"w": 1.5})] if len(nodes) > 1 else []
        md = GeffMetadata(directed=True, node_props_metadata={}, edge_props_metadata={}, axes=[Axis(name="t", min=0, max=99)])
        watch = {"metadata": md, "shared_array": arr, "node0_dict": nodes[0][1]}
        call = lambda: write_dicts(st, nodes, edges, ["t", "v"], ["w"], md, zarr_format=c["fmt"])  # noqa: E731
    elif e in ("nx", "rx", "sg"):
        import geff
        from geff.testing.data import create_simple_2d_geff

        _, mem = create_simple_2d_geff(num_nodes=rng.randint(2, 5), num_edges=rng.randint(1, 3))
        backend = {"nx": "networkx", "rx": "rustworkx", "sg": "spatial-graph"}[e]
        md = mem["metadata"]
        graph = geff.construct(**mem, backend=backend)
        watch = {"metadata": md}
        if e == "nx":
            watch["graph"] = json.dumps({str(n): {k: (v.tolist() if isinstance(v, np.ndarray) else v) for k, v in d.items()}
                                         for n, d in graph.nodes(data=True)}, sort_keys=True, default=str)
        if e == "sg":
            call = lambda: geff.write(graph, st, metadata=md, zarr_format=c["fmt"])  # noqa: E731
        else:
            call = lambda: geff.write(graph, st, metadata=md, zarr_format=c["fmt"])  # noqa: E731
    elif e == "minmax":
        from geff_spec.utils import compute_and_add_axis_min_max

        md = GeffMetadata(directed=True, node_props_metadata={}, edge_props_metadata={}, axes=[Axis(name="x", min=0, max=9), Axis(name="y")])
        props = {"x": {"values": np.array([3.0, 5.0, 4.0]), "missing": np.array([0, 1, 0], bool)}, "y": {"values": np.array([1, 2, 3]), "missing": None}}
        watch = {"metadata": md, "x": props["x"]["values"], "xm": props["x"]["missing"], "y": props["y"]["values"]}
        call = lambda: compute_and_add_axis_min_max(md, props)  # noqa: E731
    elif e == "update_axes":
        from geff_spec.utils import update_metadata_axes

        md = GeffMetadata(directed=True, node_props_metadata={}, edge_props_metadata={}, axes=[Axis(name="x", min=0, max=9)])
        watch = {"metadata": md}
        call = lambda: update_metadata_axes(md, ["a", "b"], axis_types=["space", "time"])  # noqa: E731
    elif e == "add_props_md":
        from geff_spec.utils import add_or_update_props_metadata

        md = GeffMetadata(directed=True, node_props_metadata={"p": PropMetadata(identifier="p", dtype="int8", unit="m")}, edge_props_metadata={})
        new = [PropMetadata(identifier="p", dtype="float64"), PropMetadata(identifier="q", dtype="str")]
        watch = {"metadata": md, "new0": new[0], "new1": new[1]}
        call = lambda: add_or_update_props_metadata(md, new, "node")  # noqa: E731
    elif e == "create_or_update":
        from geff_spec.utils import create_or_update_metadata

        md = GeffMetadata(directed=True, node_props_metadata={}, edge_props_metadata={}, axes=[Axis(name="x")])
        watch = {"metadata": md}
        call = lambda: create_or_update_metadata(md, False, [Axis(name="z")])  # noqa: E731
    elif e == "unsquish":
        from geff.core_io import write_arrays

        pos = np.arange(6.0).reshape(3, 2)
        nprops = {"pos": {"values": pos, "missing": None}}
        nids, eids = np.array([1, 2, 3], "uint8"), np.empty((0, 2), "uint8")
        md = GeffMetadata(directed=True, node_props_metadata={}, edge_props_metadata={}, axes=[Axis(name="y"), Axis(name="x")])
        watch = {"metadata": md, "pos": pos, "node_ids": nids, "n:dict": nprops}
        call = lambda: write_arrays(st, nids, nprops, eids, {}, md, node_props_unsquish={"pos": ["y", "x"]}, zarr_format=c["fmt"])  # noqa: E731
    before = deep_snap(watch)
    try:
        call()
        obs["res"] = ["ok"]
    except Exception as ex:
        obs["res"] = ["err", exn_name(ex), str(ex)[:100]]
    after = deep_snap(watch)
    changed = [k for k in before if before[k] != after[k]]
    obs["changed"] = changed
    obs["changed_data"] = [k for k in changed if not k.endswith(":dict") and not k.endswith("_dict")]
    return obs


def run_impl(c):
    if c["kind"] == "read":
        return run_read(c)
    if c["kind"] == "readzip":
        return run_readzip(c)
    if c["kind"] == "open":
        return run_open(c)
    return run_write(c)


def coq_case(c, o):
    return o.get("coq")


def oracle(c, o):
    if c["kind"] in ("read", "readzip"):
        if not o["unchanged"] or o["mutations"]:
            return Failure(c, slim(o), f"{c['entry']} on a {c['state'][0]} store changed it: mutations {o['mutations'][:4]}, delta {o.get('delta')}",
                           {"why": "read-mutates", "entry": c["entry"], "state": c["state"][0]})
        return None
    if c["kind"] == "open":
        return None
    if o["changed_data"]:
        return Failure(c, slim(o), f"{c['entry']} altered its inputs: {o['changed_data']}", {"why": "write-alters-input", "entry": c["entry"],
                                                                                             "what": o["changed_data"][0].split(":")[0]})
    return None


def slim(o):
    return {k: v for k, v in o.items() if k != "coq"}


def nontrivial(c, o):
    if c["kind"] in ("read", "readzip"):
        return c["state"][0] not in ("absent", "empty")
    if c["kind"] == "write":
        return True
    return c["state"] == "group"


def describe(c, o):
    if c["kind"] in ("read", "readzip"):
        return f"read:{c['entry']}:{c['store']}:{c['state'][0]}:{o['res'][0] if o['res'][0] == 'ok' else o['res'][2]}"
    if c["kind"] == "open":
        return f"open:{c['mode']}:{c['store']}:{c['state']}:{o['res'][0] if o['res'][0] == 'ok' else o['res'][2]}:created={o['created']}"
    return f"write:{c['entry']}:{o['res'][0] if o['res'][0] == 'ok' else o['res'][1]}:dictchanged={bool(set(o['changed']) - set(o['changed_data']))}"


def extra_coverage():
    for p in WORK.glob("c18-*"):
        shutil.rmtree(p, ignore_errors=True)
    return {}
