"""C01 -- write-then-read returns the same graph (ids, properties, missing masks)."""
from __future__ import annotations

import copy
import os
import random
import shutil
from pathlib import Path

import numpy as np

from harness import graphgen as gg
from harness.common import WORK, Failure, HarnessError, cbool, dtype_name, exn_name
from harness.storelib import Interner, abstract_meta_obj, c_meta, c_otree, dump_tree, tree_printable
from harness import keystore as kst

PROP = "C01"
PARALLEL = True
RULE = ("random well-formed graphs (N,E<=6; every integer id dtype with boundary ids; property dtype x rank 1..3 x mask pattern; "
        "var-length elements of rank 0..3 with zero-sized dimensions; NaN/inf/-0.0; unicode/empty strings; adversarial names; axes with "
        "stale ranges; extra/related objects) x zarr_format {2,3} x store kind {MemoryStore, LocalStore, Path, str} x pre-state "
        "{absent, foreign zarr group}; exhaustive block: N<=2, E<=2, one property over dtype x rank{1,2} x mask pattern; malformed "
        "stream (length mismatches, id dtype mismatch, float ids, unsupported dtypes) for the error paths; non-trivial = N>=1 and at "
        "least one property; distinct by structural input")
EXHAUSTIVE_BLOCKS = ["N in {0,1,2} x one node property over every dtype x rank {1,2} x mask pattern {none,false,true,alt}, zarr 2 (both formats in thorough)"]
ASSUMPTIONS = ["zarr codecs/chunking and numpy byte representation are trusted: the model's store holds decoded arrays (harness/storelib.dump_tree)",
               "validity of a metadata document is decided by geff_spec.GeffMetadata.model_validate (modelled in C07)",
               "string payloads and non-dyadic / non-finite floats are opaque tokens in the model (never compared or ordered there)",
               "property names containing '/' or control characters are outside the model (oracle-only)",
               "key level (every third random case): the raw keys after the write are abstracted inside Coq (KeyStore.v) and must equal the dumped tree; "
               "chunk bytes are decoded by the harness (numcodecs + numpy.frombuffer); chunk encoding itself stays trusted"]

STORE_KINDS = ["mem", "local", "path", "str"]


# --------------------------------------------------------------------------
def scratch_dir() -> Path:
    d = WORK / f"c01-{os.getpid()}"
    d.mkdir(parents=True, exist_ok=True)
    return d


def open_store(kind: str, tag: str):
    from zarr.storage import LocalStore, MemoryStore

    if kind == "mem":
        return MemoryStore(), None
    p = scratch_dir() / f"{tag}.zarr"
    shutil.rmtree(p, ignore_errors=True)
    if kind == "local":
        return LocalStore(str(p)), p
    if kind == "path":
        return p, p
    return str(p), p


def prepare(store, pre: str, fmt: int):
    import zarr

    if pre == "emptydir":  # an existing directory that is not (yet) a zarr group; only meaningful for path-like targets
        import os

        os.makedirs(str(store), exist_ok=True)
    if pre == "foreign":
        g = zarr.open_group(store, mode="a", zarr_format=fmt)
        g.attrs["foo"] = {"bar": 1}
        o = g.create_group("other")
        o["arr"] = np.arange(3, dtype="int16")


def generate(rng: random.Random, tier: str):
    # exhaustive block
    fmts = [2, 3] if tier == "thorough" else [2]
    for fmt in fmts:
        for n in (0, 1, 2):
            for dt in gg.PROP_DTYPES:
                for rank in (1, 2):
                    for mp in ("none", "false", "true", "alt"):
                        shape = [n] + ([2] if rank == 2 else [])
                        r2 = random.Random(hash((n, dt, rank, mp)) & 0xFFFF)
                        g = {"nids": {"dtype": "uint8", "shape": [n], "data": list(range(10, 10 + n))},
                             "eids": {"dtype": "uint8", "shape": [max(0, n - 1), 2], "data": [10, 11][: 2 * max(0, n - 1)]},
                             "nprops": {"p": {"values": gg.rand_array(r2, dt, shape), "missing": gg.rand_mask(r2, n, mp)}},
                             "eprops": {}, "md": {"directed": True}}
                        yield {"kind": "write", "wf": True, "store": "mem", "fmt": fmt, "pre": "fresh", "validate": True, "overwrite": False, **g}
    # empty graph carrying a var-length property (no element to infer the dtype from)
    for fmt in (2, 3):
        yield {"kind": "write", "wf": True, "store": "mem", "fmt": fmt, "pre": "fresh", "validate": True, "overwrite": False,
               "nids": {"dtype": "uint8", "shape": [0], "data": []}, "eids": {"dtype": "uint8", "shape": [0, 2], "data": []},
               "nprops": {"poly": {"values": {"vlen": []}, "missing": None}}, "eprops": {}, "md": {"directed": True}}
    # the same for a graph with nodes but no edges and a var-length EDGE property
    yield {"kind": "write", "wf": True, "store": "mem", "fmt": 2, "pre": "fresh", "validate": True, "overwrite": False,
           "nids": {"dtype": "uint8", "shape": [2], "data": [4, 5]}, "eids": {"dtype": "uint8", "shape": [0, 2], "data": []},
           "nprops": {}, "eprops": {"poly": {"values": {"vlen": []}, "missing": None}}, "md": {"directed": True}}
    # a var-length property whose elements are float16 (float16 is a supported dtype: "upcast to float32")
    for fmt in (2, 3):
        for miss in (None, {"dtype": "bool", "shape": [2], "data": [False, True]}):
            yield {"kind": "write", "wf": True, "store": "mem", "fmt": fmt, "pre": "fresh", "validate": True, "overwrite": False,
                   "nids": {"dtype": "uint16", "shape": [2], "data": [7, 300]}, "eids": {"dtype": "uint16", "shape": [1, 2], "data": [7, 300]},
                   "nprops": {"h": {"values": {"vlen": [{"dtype": "float16", "shape": [2], "data": [0.5, -1.5]},
                                                         {"dtype": "float16", "shape": [1], "data": [2.0]}]}, "missing": miss}},
                   "eprops": {}, "md": {"directed": False}}
    # one var-length property name shared by nodes and edges, different dtypes and shapes
    for fmt in (2, 3):
        for store in ("mem", "path"):
            yield {"kind": "write", "wf": True, "store": store, "fmt": fmt, "pre": "fresh", "validate": True, "overwrite": False,
                   "nids": {"dtype": "int64", "shape": [2], "data": [-1, 9223372036854775807]},
                   "eids": {"dtype": "int64", "shape": [2, 2], "data": [-1, 9223372036854775807, 9223372036854775807, -1]},
                   "nprops": {"feat": {"values": {"vlen": [{"dtype": "float64", "shape": [2], "data": [0.5, 1.5]}, {"dtype": "float64", "shape": [0], "data": []}]}, "missing": None}},
                   "eprops": {"feat": {"values": {"vlen": [{"dtype": "int16", "shape": [1, 3], "data": [7, 8, 9]}, {"dtype": "int16", "shape": [2, 1], "data": [1, 2]}]},
                                       "missing": {"dtype": "bool", "shape": [2], "data": [False, True]}}},
                   "md": {"directed": True}}
    nrand = 500 if tier == "quick" else 6000
    for i in range(nrand):
        g = gg.rand_graph(rng)
        yield {"kind": "write", "wf": True, "store": rng.choice(STORE_KINDS) if i % 3 == 0 else "mem", "fmt": rng.choice([2, 3]),
               "pre": "foreign" if rng.random() < 0.2 else "fresh", "validate": rng.random() < 0.9,
               "overwrite": rng.random() < 0.1, "ktie": i % 3 == 0, **g}
    # names zarr cannot use as a single member name: the write must be refused cleanly or round-trip exactly (oracle only)
    for nm in ("a/b", ".", "..", "/x", "x/", "a//b", ".zarray", "zarr.json", ".zattrs"):
        for fmt in (2, 3):
            yield {"kind": "write", "wf": True, "oddname": nm, "store": "mem", "fmt": fmt, "pre": "fresh", "validate": True, "overwrite": False,
                   "nids": {"dtype": "uint8", "shape": [2], "data": [1, 2]}, "eids": {"dtype": "uint8", "shape": [0, 2], "data": []},
                   "nprops": {nm: {"values": {"dtype": "int16", "shape": [2], "data": [5, 6]}, "missing": None}}, "eprops": {}, "md": {"directed": True}}
    for i in range(120 if tier == "quick" else 1200):
        g = gg.rand_graph(rng)
        yield {"kind": "write", "wf": False, "store": "mem", "fmt": rng.choice([2, 3]), "pre": "fresh", "validate": True,
               "overwrite": False, **malform(rng, g)}


def malform(rng, g):
    g = copy.deepcopy(g)
    n = g["nids"]["shape"][0]
    k = rng.choice(["len", "idtype", "floatids", "misslen", "vlen_mixed_rank", "vlen_mixed_dtype", "stale_md", "stale_md", "empty_name", "axis_absent"])
    g["malform"] = k
    if k == "len":
        g["nprops"] = dict(g["nprops"] or {})
        g["nprops"]["bad"] = {"values": gg.rand_array(rng, "int32", [n + 1]), "missing": None}
    elif k == "idtype":
        g["eids"]["dtype"] = "int16" if g["nids"]["dtype"] != "int16" else "int32"
        g["eids"]["data"] = [0 for _ in g["eids"]["data"]]
    elif k == "floatids":
        g["nids"] = {"dtype": "float64", "shape": [n], "data": [float(i) for i in range(n)]}
        g["eids"] = {"dtype": "float64", "shape": [0, 2], "data": []}
    elif k == "misslen":
        g["nprops"] = dict(g["nprops"] or {})
        g["nprops"]["bad"] = {"values": gg.rand_array(rng, "int32", [n]), "missing": {"dtype": "bool", "shape": [n + 2], "data": [False] * (n + 2)}}
    elif k == "vlen_mixed_rank":
        g["nprops"] = dict(g["nprops"] or {})
        els = [gg.rand_array(rng, "int16", [2]) for _ in range(max(n, 2))][:n] if n else []
        if len(els) >= 2:
            els[-1] = gg.rand_array(rng, "int16", [1, 2])
        g["nprops"]["bad"] = {"values": {"vlen": els}, "missing": None}
    elif k == "vlen_mixed_dtype":
        g["nprops"] = dict(g["nprops"] or {})
        # int16 beside int32; or float16 beside float32 (in either order): the dtype check runs on the elements as given, BEFORE the
        # float16 upcast, so the pair is rejected although both would be float32 after it
        a, b = rng.choice([("int16", "int32"), ("float16", "float32"), ("float32", "float16")])
        els = [gg.rand_array(rng, a, [2]) for _ in range(n)]
        if len(els) >= 2:
            els[-1] = gg.rand_array(rng, b, [2])
        g["nprops"]["bad"] = {"values": {"vlen": els}, "missing": None}
    elif k == "stale_md":
        # the caller's metadata names a property that is not written, on the node or the edge side; in half of the cases that side has
        # NO property at all (props=None: no props group is created), so the clean-up after the rejection meets a group without `props`
        g["md"] = dict(g["md"])
        side = rng.choice(["n", "e"])
        g["md"][side + "props_md"] = {"ghost": {"identifier": "ghost", "dtype": "int8"}}
        if rng.random() < 0.5:
            g[side + "props"] = None
            if side == "n":
                g["md"]["axes"] = None
    elif k == "empty_name":
        g["nprops"] = dict(g["nprops"] or {})
        g["nprops"][""] = {"values": gg.rand_array(rng, "int32", [n]), "missing": None}
    elif k == "axis_absent":
        g["md"] = dict(g["md"])
        g["md"]["axes"] = [{"name": "nope"}]
        g["nprops"] = dict(g["nprops"] or {})
        g["nprops"].pop("nope", None)
    return g


# --------------------------------------------------------------------------
def same_values(exp: np.ndarray, got: np.ndarray, rows) -> bool:
    """equal values on the selected rows (all rows when rows is None), NaN == NaN, signed zeros distinguished"""
    if rows is not None:
        exp, got = exp[rows], got[rows]
    if exp.shape != got.shape:
        return False
    if exp.dtype.kind == "f":
        return bool(np.array_equal(exp, got, equal_nan=True) and np.array_equal(np.signbit(exp), np.signbit(got)))
    return bool(np.array_equal(exp, got))


def compare_prop(name, exp: dict, got: dict) -> str | None:
    ev, gv = exp["values"], got["values"]
    em, gm = exp["missing"], got["missing"]
    if (em is None) != (gm is None):
        return f"{name}: missing mask {'dropped' if gm is None else 'invented'}"
    if em is not None and not (gm.dtype == bool and np.array_equal(em, gm)):
        return f"{name}: missing mask differs"
    rows = None if em is None else np.logical_not(em)
    if ev.dtype == object:
        if gv.dtype != object or len(ev) != len(gv):
            return f"{name}: var-length property came back as {gv.dtype} of length {len(gv)}"
        for i, (a, b) in enumerate(zip(ev, gv)):
            if rows is not None and not rows[i]:
                continue
            if a.dtype.name == "float16":
                a = a.astype("float32")  # float16 is upcast to float32, element by element
            if not isinstance(b, np.ndarray) or a.dtype.name != b.dtype.name or a.shape != b.shape or not same_values(a, b, None):
                return f"{name}: var-length element {i} differs"
        return None
    edt = np.dtype("float32") if ev.dtype.name == "float16" else ev.dtype
    if edt.kind == "U":
        if gv.dtype.kind != "U":
            return f"{name}: string property came back as {gv.dtype}"
    elif gv.dtype.name != edt.name:  # by numpy name: byte order is not part of the stated dtype
        return f"{name}: dtype {gv.dtype}, expected {edt}"
    if ev.shape != gv.shape:
        return f"{name}: shape {gv.shape}, expected {ev.shape}"
    if not same_values(ev.astype(edt), gv, rows):
        return f"{name}: values differ"
    return None


def compare_graph(nids, eids, nprops, eprops, back) -> str | None:
    if dtype_name(back["node_ids"].dtype) != dtype_name(nids.dtype) or not np.array_equal(back["node_ids"], nids):
        return "node ids differ"
    if dtype_name(back["edge_ids"].dtype) != dtype_name(eids.dtype) or back["edge_ids"].shape != eids.shape or not np.array_equal(back["edge_ids"], eids):
        return "edge ids differ"
    for which, exp, got in (("node", nprops or {}, back["node_props"]), ("edge", eprops or {}, back["edge_props"])):
        if set(exp) != set(got):
            return f"{which} property names {sorted(got)} expected {sorted(exp)}"
        for k in exp:
            d = compare_prop(f"{which} property {k!r}", exp[k], got[k])
            if d:
                return d
    return None


def run_impl(c):
    from geff.core_io import read_to_memory, write_arrays

    it = Interner()
    nids, eids = gg.to_np(c["nids"]), gg.to_np(c["eids"])
    nprops, eprops = gg.props_to_np(c["nprops"]), gg.props_to_np(c["eprops"])
    md = gg.make_metadata(c["md"])
    store, path = open_store(c["store"], "w")
    obs = {}
    try:
        prepare(store, c["pre"], c["fmt"])
        pre_tree = dump_tree(store, it)
        # the model's input is printed before the call: the writer may touch its arguments (C18 watches that)
        coq_in = None
        printable = all(gg.printable_np(p["values"]) for ps in (nprops, eprops) if ps for p in ps.values()) and \
            all("/" not in k and not k.startswith(".") and k != "zarr.json" for ps in (nprops, eprops) if ps for k in ps)
        if printable:
            try:
                kind = "KPath" if c["store"] in ("path", "str") else "KObj"
                coq_in = (f"IWrite {kind} {c_otree(pre_tree)} {gg.c_wgraph(nids, eids, nprops, eprops, it)} "
                          f"{c_meta(abstract_meta_obj(md, it))} {cbool(c['validate'])} {cbool(c['overwrite'])}")
            except HarnessError:
                coq_in = None
        exp_n = copy.deepcopy(nprops)
        exp_e = copy.deepcopy(eprops)
        try:
            write_arrays(store, nids, nprops, eids, eprops, md, zarr_format=c["fmt"], **({} if c["validate"] else {"structure_validation": False}),
                         **({"overwrite": True} if c["overwrite"] else {}))
            obs["res"] = ["ok"]
        except Exception as e:
            obs["res"] = ["err", exn_name(e), str(e)[:120]]
        post = dump_tree(store, it)
        # the RAW KEYS after the write (harness/keystore.py), for the key-level tie of the surviving tree (every third case: cheap)
        raw = kst.try_raw_dump(store, it, c["fmt"]) if c.get("ktie") and post is not None else None
        if c.get("ktie") and post is not None and raw is None:
            obs["keys_error"] = kst.LAST_ERROR[0]
        back = None
        try:
            back = read_to_memory(store)
            obs["back"] = ["ok"]
        except Exception as e:
            obs["back"] = ["err", exn_name(e), str(e)[:120]]
        if back is not None and obs["res"][0] == "ok":
            obs["diff"] = compare_graph(gg.to_np(c["nids"]), gg.to_np(c["eids"]), exp_n, exp_e, back)
        if coq_in is not None and tree_printable(post):
            try:
                r = "(Ok tt)" if obs["res"][0] == "ok" else f"(Err {obs['res'][1]})"
                b = f"(Ok {gg.c_mgraph(back, it)})" if back is not None else f"(Err {obs['back'][1]})"
                obs["coq"] = f"({coq_in}, OWrite {r} {c_otree(post)} {b})"
                if raw is not None and coq_in.startswith("IWrite "):
                    kterm, _ = kst.c_kstore(raw)
                    obs["coq"] = (f"(IWriteK {coq_in[len('IWrite '):]} {kst.c_fmt(c['fmt'])} {kterm} {kst.geff_version_term(raw)}, "
                                  f"OWrite {r} {c_otree(post)} {b})")
                    obs["keys_tied"] = len(raw["items"])
            except HarnessError:
                pass
    finally:
        if path is not None:
            shutil.rmtree(path, ignore_errors=True)
    return obs


def coq_case(c, o):
    if o.get("keys_tied"):
        KEY_STATS["stores_tied_at_key_level"] += 1
        KEY_STATS["keys"] += o["keys_tied"]
    return o.get("coq")


def oracle(c, o):
    if not c.get("wf"):
        return None
    n = c["nids"]["shape"][0]
    has_empty_vlen = any("vlen" in p["values"] and len(p["values"]["vlen"]) == 0
                         for ps in (c["nprops"], c["eprops"]) if ps for p in ps.values())
    if c["pre"] == "foreign" and c["store"] in ("path", "str"):
        return None  # writing to an existing path that holds no geff is C06's subject (existence is tested by path)
    if c.get("oddname") is not None and o["res"][0] != "ok":
        if o["res"][1] != "ValueError" or o["back"][0] == "ok":
            return Failure(c, strip(o), f"property name {c['oddname']!r}: write raised {o['res'][1]} and the store afterwards reads {o['back'][0]}",
                           {"why": "oddname", "name": c["oddname"]})
        return None
    has_vlen_f16 = any("vlen" in p["values"] and any(e["dtype"] == "float16" for e in p["values"]["vlen"])
                       for ps in (c["nprops"], c["eprops"]) if ps for p in ps.values())
    if o["res"][0] != "ok":
        return Failure(c, strip(o), f"write_arrays raised {o['res'][1]} on a well-formed graph: {o['res'][2]}",
                       {"why": "write-raises", "exc": o["res"][1], "empty_vlen": has_empty_vlen, "vlen_f16": has_vlen_f16})
    if o["back"][0] != "ok":
        return Failure(c, strip(o), f"read_to_memory raised {o['back'][1]} after a successful write: {o['back'][2]}",
                       {"why": "read-raises", "exc": o["back"][1]})
    if o.get("diff"):
        return Failure(c, strip(o), f"read-back differs: {o['diff']}", {"why": "differs", "what": o["diff"].split(":")[0][:40]})
    if o.get("keys_error") and c["pre"] == "fresh":
        return Failure(c, strip(o), f"key level: after a successful write the store's keys cannot be read as a zarr format {c['fmt']} store: "
                       f"{o['keys_error']}", {"why": "key-layout"})
    return None


def strip(o):
    return {k: v for k, v in o.items() if k != "coq"}


def nontrivial(c, o):
    return c["nids"]["shape"][0] >= 1 and bool(c["nprops"] or c["eprops"])


def describe(c, o):
    kinds = []
    for ps in (c["nprops"], c["eprops"]):
        for p in (ps or {}).values():
            kinds.append("vlen" if "vlen" in p["values"] else p["values"]["dtype"] + str(len(p["values"]["shape"])) + ("m" if p["missing"] else ""))
    return f"{c['store']}:v{c['fmt']}:{c['pre']}:N={c['nids']['shape'][0]}:{c['nids']['dtype']}:{'wf' if c.get('wf') else c.get('malform')}:{o['res'][0] if o['res'][0]=='ok' else o['res'][1]}:props={len(kinds)}"


def search(rng, budget):
    for c in generate(rng, "thorough"):
        if c.get("wf"):
            yield c


KEY_STATS = {"stores_tied_at_key_level": 0, "keys": 0}


def extra_coverage():
    shutil.rmtree(scratch_dir(), ignore_errors=True)
    return {"key_level": dict(KEY_STATS)}
