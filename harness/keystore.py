"""Key-level dump of a real zarr store (the raw side of coq/theories/KeyStore.v).

`raw_dump(store, interner)` reads the store's KEYS -- `MemoryStore._store_dict` or a directory walk, never the zarr hierarchy API --
and returns, for every key, either the parsed JSON of a metadata document (.zgroup / .zattrs / .zarray, zarr.json) or the decoded
payload of a chunk.  Chunk bytes are decoded HERE (numcodecs decompressors + numpy.frombuffer / the vlen codecs, following the codec
list of the owning array's document), independently of zarr's codec pipeline; the values are then encoded exactly as storelib.enc_arr
encodes what the zarr API returns (same Interner), so that the Coq model can compare array contents.  What the Coq side then decides:
which keys form groups / arrays, where attributes live, dtype / shape spelling, chunk grid and chunk keys, fill values of absent chunks.

`c_kstore(raw)` prints the dump as a `kstore` term; `c_fmt(fmt)` the zarr format.
"""
from __future__ import annotations

import json
import math

import numpy as np

from harness.common import HarnessError, clist, cstr, cz
from harness.storelib import FSCALE, Interner, enc_arr, snapshot

DOC_NAMES = (".zgroup", ".zattrs", ".zarray", "zarr.json", ".zmetadata")
STATS = {"stores": 0, "keys": 0, "chunks": 0, "undecodable": 0}


class Undecodable(Exception):
    pass


_ABBREV = None


def kstr(s: str) -> str:
    """Coq term for a string of a raw dump: the abbreviation of coq/theories/KeyNames.v when there is one (small terms), else the literal"""
    global _ABBREV
    if _ABBREV is None:
        import re

        from harness.common import COQ

        txt = (COQ / "theories" / "KeyNames.v").read_text()
        _ABBREV = {lit: name for name, lit in re.findall(r'^Definition (s_\w+) : string := "([^"]*)"\.$', txt, re.M)}
    return _ABBREV.get(s) or cstr(s)


# --------------------------------------------------------------------------
# JSON -> Meta.jv (total: floats that are not multiples of 2^-10 are rounded and reported as lossy)
# --------------------------------------------------------------------------
def jv(v, lossy: list) -> str:
    if v is None:
        return "JNull"
    if isinstance(v, bool):
        return f"(JBool {'true' if v else 'false'})"
    if isinstance(v, int):
        return f"(JInt {cz(v)})"
    if isinstance(v, float):
        if math.isnan(v):
            return "(JFlt Meta.NaN)"
        if math.isinf(v):
            return "(JFlt Meta.PInf)" if v > 0 else "(JFlt Meta.NInf)"
        y = v * FSCALE
        if abs(v) < 2.0 ** 40 and y == int(y):
            return f"(JFlt (Meta.Fin {cz(int(y))}))"
        lossy.append(v)
        return f"(JFlt (Meta.Fin {cz(int(round(y)) if abs(y) < 2.0 ** 200 else 0)}))"
    if isinstance(v, str):
        return f"(JStr {kstr(v)})"
    if isinstance(v, list):
        return f"(JList {clist(v, lambda x: jv(x, lossy))})"
    if isinstance(v, dict):
        return "(JObj " + clist(list(v.items()), lambda kv: f"({kstr(str(kv[0]))}, {jv(kv[1], lossy)})") + ")"
    raise HarnessError(f"not a JSON value: {v!r}")


# --------------------------------------------------------------------------
# chunk decoding (numcodecs + numpy only)
# --------------------------------------------------------------------------
def _bytes_codec(cfg):
    import numcodecs

    cid = cfg.get("id") or cfg.get("name")
    conf = {k: v for k, v in cfg.items() if k not in ("id", "name", "configuration")}
    conf.update(cfg.get("configuration") or {})
    if cid == "zstd":
        return numcodecs.Zstd(level=conf.get("level", 0))
    if cid == "blosc":
        return numcodecs.Blosc()
    if cid == "gzip":
        return numcodecs.GZip(level=conf.get("level", 5))
    if cid == "zlib":
        return numcodecs.Zlib(level=conf.get("level", 1))
    if cid == "lz4":
        return numcodecs.LZ4()
    if cid == "bz2":
        return numcodecs.BZ2()
    raise Undecodable(f"bytes codec {cid!r}")


def _vlen(buf, kind):
    import numcodecs

    out = (numcodecs.VLenUTF8() if kind == "utf8" else numcodecs.VLenBytes()).decode(buf)
    return np.asarray(out, dtype=object)


def decode_v2(doc: dict, data: bytes):
    """one chunk of a zarr-2 array -> ndarray of shape doc['chunks']"""
    buf = data
    if doc.get("compressor") is not None:
        buf = _bytes_codec(doc["compressor"]).decode(buf)
    filters = list(doc.get("filters") or [])
    chunks = tuple(doc["chunks"])
    n = int(np.prod(chunks)) if chunks else 1
    vl = None
    for flt in reversed(filters):
        if flt.get("id") == "vlen-utf8":
            vl = "utf8"
        elif flt.get("id") == "vlen-bytes":
            vl = "bytes"
        else:
            raise Undecodable(f"filter {flt.get('id')!r}")
    if doc.get("order", "C") != "C":
        raise Undecodable("order F")
    if vl is not None:
        arr = _vlen(buf, vl)
    else:
        dt = np.dtype(doc["dtype"])
        if dt.kind == "O":
            raise Undecodable("object array without a vlen filter")
        arr = np.frombuffer(bytes(buf), dtype=dt)
    if arr.size != n:
        raise Undecodable(f"chunk holds {arr.size} values, chunk shape {chunks}")
    return arr.reshape(chunks)


V3_NUMPY = {"bool": "|b1", "int8": "|i1", "int16": "i2", "int32": "i4", "int64": "i8", "uint8": "|u1", "uint16": "u2", "uint32": "u4",
            "uint64": "u8", "float16": "f2", "float32": "f4", "float64": "f8"}


def decode_v3(doc: dict, data: bytes):
    """one chunk of a zarr-3 array -> ndarray of shape chunk_shape"""
    codecs = list(doc.get("codecs") or [])
    chunks = tuple(doc["chunk_grid"]["configuration"]["chunk_shape"])
    n = int(np.prod(chunks)) if chunks else 1
    buf = data
    ab = None
    tail = []
    for c in codecs:
        nm = c.get("name")
        if nm in ("bytes", "vlen-utf8", "vlen-bytes"):
            ab = c
        elif nm in ("transpose", "sharding_indexed"):
            raise Undecodable(f"codec {nm!r}")
        elif nm == "crc32c":
            tail.append("crc32c")
        else:
            tail.append(c)
    for c in reversed(tail):
        if c == "crc32c":
            buf = bytes(buf)[:-4]
        else:
            buf = _bytes_codec(c).decode(buf)
    if ab is None:
        raise Undecodable("no array->bytes codec")
    dtj = doc["data_type"]
    if ab["name"] == "vlen-utf8":
        arr = _vlen(buf, "utf8")
    elif ab["name"] == "vlen-bytes":
        arr = _vlen(buf, "bytes")
    else:
        endian = (ab.get("configuration") or {}).get("endian", "little")
        bo = "<" if endian == "little" else ">"
        if isinstance(dtj, str):
            if dtj not in V3_NUMPY:
                raise Undecodable(f"data type {dtj!r}")
            s = V3_NUMPY[dtj]
            dt = np.dtype(s if s.startswith("|") else bo + s)
        elif isinstance(dtj, dict) and dtj.get("name") == "fixed_length_utf32":
            dt = np.dtype(f"{bo}U{dtj['configuration']['length_bytes'] // 4}")
        elif isinstance(dtj, dict) and dtj.get("name") == "null_terminated_bytes":
            dt = np.dtype(f"|S{dtj['configuration']['length_bytes']}")
        else:
            raise Undecodable(f"data type {dtj!r}")
        arr = np.frombuffer(bytes(buf), dtype=dt)
    if arr.size != n:
        raise Undecodable(f"chunk holds {arr.size} values, chunk shape {chunks}")
    return arr.reshape(chunks)


# --------------------------------------------------------------------------
# the dump
# --------------------------------------------------------------------------
def _strkind(doc, fmt) -> str | None:
    """'str' / 'bytes' when the array holds strings / byte strings (payloads are opaque tokens), else None"""
    if fmt == 2:
        s = doc.get("dtype")
        if not isinstance(s, str) or len(s) < 2:
            return None
        if s[1] == "U":
            return "str"
        if s[1] == "S":
            return "bytes"
        if s[1] == "O":
            ids = [f.get("id") for f in (doc.get("filters") or []) if isinstance(f, dict)]
            return "str" if "vlen-utf8" in ids else ("bytes" if "vlen-bytes" in ids else None)
        return None
    d = doc.get("data_type")
    nm = d if isinstance(d, str) else (d.get("name") if isinstance(d, dict) else None)
    if nm in ("string", "fixed_length_utf32"):
        return "str"
    if nm in ("variable_length_bytes", "bytes", "null_terminated_bytes"):
        return "bytes"
    return None


def _intern_fill(doc, fmt, interner):
    """string payloads are opaque tokens on the Coq side: a string fill value is interned like every other string of the array"""
    kind = _strkind(doc, fmt)
    fv = doc.get("fill_value")
    if kind is None or not isinstance(fv, str):
        return doc
    doc = dict(doc)
    if kind == "bytes":
        import base64

        try:
            fv = base64.standard_b64decode(fv)
        except Exception:
            fv = fv.encode("latin1")
    doc["fill_value"] = interner.tok(fv)
    return doc


def raw_dump(store, interner: Interner, fmt: int):
    """-> {'fmt', 'items': [(components, ('doc', json) | ('chunk', [payload ints]))], 'lossy': bool} ; raises Undecodable"""
    snap = snapshot(store)
    items = []
    docs = {}
    for k in sorted(snap):
        if k.endswith("/") or k == "<absent>":
            continue
        comps = k.split("/")
        if comps[-1] in DOC_NAMES:
            try:
                docs[k] = json.loads(snap[k].decode("utf8"))
            except Exception as e:
                raise Undecodable(f"document {k}: {type(e).__name__}")
    arrays = {}
    for k, d in docs.items():
        comps = k.split("/")
        if fmt == 2 and comps[-1] == ".zarray":
            arrays["/".join(comps[:-1])] = d
        if fmt == 3 and comps[-1] == "zarr.json" and isinstance(d, dict) and d.get("node_type") == "array":
            arrays["/".join(comps[:-1])] = d
    lossy: list = []
    for k in sorted(snap):
        if k.endswith("/") or k == "<absent>":
            continue
        comps = k.split("/")
        if k in docs:
            d = docs[k]
            if comps[-1] == ".zmetadata":
                continue  # consolidated metadata is a cache of the other documents
            owner = "/".join(comps[:-1])
            if owner in arrays and arrays[owner] is d and isinstance(d, dict):
                d = _intern_fill(d, fmt, interner)
            items.append((comps, ("doc", d)))
            continue
        # a chunk: find the owning array (longest prefix that is an array)
        owner = None
        for i in range(len(comps) - 1, -1, -1):
            p = "/".join(comps[:i])
            if p in arrays:
                owner = p
                break
        if owner is None:
            raise Undecodable(f"key {k} belongs to no array")
        doc = arrays[owner]
        try:
            a = decode_v2(doc, snap[k]) if fmt == 2 else decode_v3(doc, snap[k])
        except Undecodable:
            raise
        except Exception as e:
            raise Undecodable(f"chunk {k}: {type(e).__name__}: {e}")
        if a.dtype.kind in "iuf" and a.dtype.byteorder == ">":
            a = a.astype(a.dtype.newbyteorder("="))
        items.append((comps, ("chunk", enc_arr(a, interner)["flat"])))
        STATS["chunks"] += 1
    STATS["stores"] += 1
    STATS["keys"] += len(items)
    return {"fmt": fmt, "items": items, "lossy": bool(lossy)}


LAST_ERROR = [None]


def try_raw_dump(store, interner: Interner, fmt: int):
    """raw_dump, or None (reason in LAST_ERROR[0]) when some key cannot be read as a document / chunk of zarr format `fmt`"""
    try:
        return raw_dump(store, interner, fmt)
    except Undecodable as e:
        STATS["undecodable"] += 1
        LAST_ERROR[0] = str(e)
        return None


def geff_doc_of(raw):
    """the raw 'geff' attribute of the root, from the keys (.zattrs / zarr.json attributes); None when absent"""
    for comps, (kind, d) in raw["items"]:
        if kind != "doc" or not isinstance(d, dict):
            continue
        if raw["fmt"] == 2 and comps == [".zattrs"]:
            return d.get("geff")
        if raw["fmt"] == 3 and comps == ["zarr.json"]:
            a = d.get("attributes")
            return a.get("geff") if isinstance(a, dict) else None
    return None


def c_fmt(fmt: int) -> str:
    return "V2" if fmt == 2 else "V3"


def c_kstore(raw) -> tuple[str, bool]:
    """(kstore term, lossy) -- lossy: some float of some document is not a multiple of 2^-10 (rounded in the term).
    Sub-documents that occur several times in the dump (group documents, codec lists, ...) are bound once with `let` (smaller terms)."""
    lossy: list = []
    count: dict = {}

    def walk(v):
        if isinstance(v, (dict, list)):
            k = json.dumps(v, sort_keys=False)
            count[k] = count.get(k, 0) + 1
            if count[k] == 1:
                for x in (v.values() if isinstance(v, dict) else v):
                    walk(x)

    for _, (kind, v) in raw["items"]:
        if kind == "doc":
            walk(v)
    names: dict = {}
    lets: list = []

    def term(v) -> str:
        if isinstance(v, (dict, list)):
            k = json.dumps(v, sort_keys=False)
            if k in names:
                return names[k]
            if isinstance(v, list):
                t = f"(JList {clist(v, term)})"
            else:
                t = "(JObj " + clist(list(v.items()), lambda kv: f"({kstr(str(kv[0]))}, {term(kv[1])})") + ")"
            if count.get(k, 0) >= 2 and len(t) > 24:
                nm = f"j{len(names)}"
                names[k] = nm
                lets.append(f"let {nm} := {t} in ")
                return nm
            return t
        return jv(v, lossy)

    def one(it):
        comps, (kind, v) = it
        key = clist(comps, kstr)
        if kind == "doc":
            return f"({key}, KDoc {term(v)})"
        return f"({key}, KChunk {clist(v, cz)})"
    body = clist(raw["items"], one)
    return "(" + "".join(lets) + body + ")", bool(lossy)


def geff_version_term(raw) -> str:
    """`Some GEFF_VERSION` when the root's geff document can be judged by the Coq metadata model (Meta.construct): every float a multiple
    of 2^-10, dtype spellings inside the model's table; `None` otherwise (then only the attribute KEYS are compared)."""
    from harness.c07 import dtype_model_ok

    doc = geff_doc_of(raw)
    if doc is None:
        return "None"
    lossy: list = []
    try:
        jv(doc, lossy)
    except HarnessError:
        return "None"
    if lossy:
        return "None"
    if isinstance(doc, dict):
        for key in ("node_props_metadata", "edge_props_metadata"):
            pm = doc.get(key)
            if isinstance(pm, dict):
                for e in pm.values():
                    if isinstance(e, dict) and isinstance(e.get("dtype"), str) and not dtype_model_ok(e["dtype"]):
                        return "None"
    from geff_spec._schema import GEFF_VERSION

    return f"(Some {cstr(GEFF_VERSION)})"
