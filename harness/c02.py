"""C02 -- the on-disk layout means what the specification says, in both directions."""
from __future__ import annotations

import copy
import random

import numpy as np

from harness import graphgen as gg
from harness.c01 import compare_graph
from harness.common import DTYPE_COQ, Failure, HarnessError, cbool, clist, cnat, copt, cstr, cz, dtype_name, exn_name
from harness.storelib import Interner, c_arr, c_otree, c_tree, dump_tree, enc_arr, tree_printable
from harness import keystore as kst

PROP = "C02"
PARALLEL = True
RULE = ("forward: random well-formed graphs written by write_arrays (zarr 2/3), the raw dump decoded by the Coq spec decoder must equal "
        "the writer's input and validate; converse: the same graphs laid out by an independent writer (zarr API only, own var-length "
        "serialiser, hand-written metadata JSON) in every conformant variant -- chunk length {1,2,whole}, compressor on/off, missing "
        "absent / all-false when nothing is missing, empty vs absent props group, optional metadata fields omitted, foreign attributes and "
        "members, creation order shuffled, big-endian ids (zarr 2), zarr 2/3 -- read by geff.read_to_memory; non-trivial = at least one "
        "property; distinct by structural input and variant; key level: for every store the raw keys (MemoryStore._store_dict) are read by the Coq "
        "abstraction function and must equal the API dump and spec-decode to the intended graph; 9 wrong-key layouts x zarr 2/3 as negative controls")
EXHAUSTIVE_BLOCKS = ["converse: one fixed graph (fixed + masked + var-length property) x all 2*3*2*2*2*2*2 layout variants (incl. var-length sections stored in reverse order)"]
ASSUMPTIONS = ["zarr decodes chunks/compressors correctly (variants are exercised on the implementation side; the abstract dump is codec-free)",
               "an absent missing array and an all-false one denote the same graph (the equivalence used for C02, see DESIGN 7b)",
               "dtype equality is by numpy name, not byte order",
               "key level: the raw keys of every store (documents parsed, chunk bytes decoded by the harness with numcodecs + numpy.frombuffer, not by "
               "zarr's codec pipeline) are abstracted inside Coq (KeyStore.v) and compared with the API dump; chunk encoding itself, sharding and the "
               "transpose codec are outside the model; the geff document is compared up to verdict + skeleton (KeyTie.v)"]


def variants_all():
    for fmt in (2, 3):
        for chunk in (1, 2, None):
            for compress in (True, False):
                for allfalse in (False, True):
                    for emptyprops in (False, True):
                        for minimal_md in (False, True):
                            for dlayout in (0, 1):
                                yield {"fmt": fmt, "chunk": chunk, "compress": compress, "allfalse": allfalse, "emptyprops": emptyprops,
                                       "minimal_md": minimal_md, "shuffle": 0, "bigendian": False, "dlayout": dlayout}


def fixed_graph():
    from harness.c09 import fixed_graph as f

    return f()


def specstr_store(fmt):
    """a store whose string property is encoded as docs/specification.md prescribes ("variable length UTF8 strings", the zarr
    `string` data type), written with the zarr API only"""
    import zarr
    from zarr.storage import MemoryStore

    st = MemoryStore()
    root = zarr.open_group(st, mode="w", zarr_format=fmt)
    n, e = root.create_group("nodes"), root.create_group("edges")
    a = n.create_array("ids", shape=(3,), dtype="uint16")
    a[...] = np.array([5, 600, 7], dtype="uint16")
    b = e.create_array("ids", shape=(1, 2), dtype="uint16")
    b[...] = np.array([[5, 7]], dtype="uint16")
    v = n.create_group("props").create_group("label").create_array("values", shape=(3,), dtype=str)
    v[...] = np.array(["ab", "", "日本"], dtype=object)
    root.attrs["geff"] = {"directed": True, "geff_version": "0.5.0", "node_props_metadata": {"label": {"identifier": "label", "dtype": "str"}},
                          "edge_props_metadata": {}}
    return st


def generate(rng: random.Random, tier: str):
    for fmt in (2, 3):
        yield {"kind": "specstr", "fmt": fmt}
    g = fixed_graph()
    for v in variants_all():
        yield {"kind": "converse", "variant": v, **g}
    for i in range(250 if tier == "quick" else 3000):
        g = gg.rand_graph(rng)
        yield {"kind": "forward", "fmt": rng.choice([2, 3]), **g}
    for i in range(300 if tier == "quick" else 3000):
        g = gg.rand_graph(rng)
        v = {"fmt": rng.choice([2, 3]), "chunk": rng.choice([1, 2, None]), "compress": rng.random() < 0.5, "allfalse": rng.random() < 0.5,
             "emptyprops": rng.random() < 0.5, "minimal_md": rng.random() < 0.5, "shuffle": rng.randint(0, 1000),
             "bigendian": rng.random() < 0.2, "dlayout": rng.choice([0, 1, 2, 2])}
        yield {"kind": "converse", "variant": v, **g}
    # offsets of variable-length rows (C02_converse_total): one row of one var-length property pointed just past / far past the end of
    # `data` (the store stays structurally valid and must NOT be read as a graph), or an empty element given an offset far past the end
    # (denotes the same empty section: must be read)
    for i in range(90 if tier == "quick" else 900):
        for _ in range(40):
            g = gg.rand_graph(rng)
            if any(p["values"].get("vlen") for ps in (g["nprops"], g["eprops"]) if ps for p in ps.values()):
                break
        v = {"fmt": rng.choice([2, 3]), "chunk": rng.choice([1, 2, None]), "compress": rng.random() < 0.5, "allfalse": rng.random() < 0.5,
             "emptyprops": False, "minimal_md": rng.random() < 0.5, "shuffle": rng.randint(0, 1000), "bigendian": False,
             "dlayout": rng.choice([0, 1, 2]), "spoil": ["tail", "beyond", "empty-far"][i % 3]}
        yield {"kind": "converse", "variant": v, **g}
    # key-level negative controls: the fixed graph laid out by the independent writer with ONE wrong key / dtype; the Coq check
    # demands that the key-level reading of the specification rejects each (Corr/C02.v IKeysNeg)
    g = fixed_graph()
    for fmt in (2, 3):
        for wrong in WRONG_KEYS:
            v = {"fmt": fmt, "chunk": None, "compress": True, "allfalse": False, "emptyprops": False, "minimal_md": False, "shuffle": 0,
                 "bigendian": False, "dlayout": 0, "wrong": wrong}
            yield {"kind": "keysneg", "variant": v, **g}


# ---- key-level negative controls: which member / attribute / dtype the independent writer gets wrong ----
WRONG_KEYS = ["nodes", "edges", "ids", "props", "values", "missing", "data", "geffattr", "idsdtype"]
WRONG_NAME = {"nodes": "node", "edges": "edge", "ids": "id", "props": "properties", "values": "vals", "missing": "mask", "data": "payload"}


def _nm(v, name):
    """the member name the independent writer uses for the specification's `name` (the specification's, unless v['wrong'] says otherwise)"""
    return WRONG_NAME[name] if v.get("wrong") == name else name


# ---- independent writer (zarr API + numpy only) ----
SPOILED = [None]   # what the last call of my_serialize did to the offsets (None / 'out-of-range' / 'empty-far')


def my_serialize(elems, dlayout=0, seed=0, spoil=None):
    """docs/specification.md: data = the flattened elements, one row (offset, *shape) per element pointing at its section of data.
    The specification fixes no order of the sections inside `data`: dlayout 0 = element order, 1 = reversed, 2 = shuffled; an element
    without entries gets offset 0 whatever the layout (any offset denotes the same empty section)."""
    order = list(range(len(elems)))
    if dlayout == 1:
        order.reverse()
    elif dlayout == 2:
        random.Random(seed).shuffle(order)
    rows, chunks, off = [None] * len(elems), [], 0
    for i in order:
        e = elems[i]
        rows[i] = [off if e.size else 0, *e.shape]
        chunks.append(e.reshape(-1))
        off += int(e.size)
    dt = elems[0].dtype if len(elems) else np.dtype("int64")
    data = np.concatenate(chunks) if chunks else np.zeros(0, dtype=dt)
    width = 1 + (elems[0].ndim if len(elems) else 0)
    spoiled = None
    if spoil in ("tail", "beyond"):
        cand = [i for i, e in enumerate(elems) if e.size]
        if cand:
            i = cand[seed % len(cand)]
            rows[i][0] = len(data) - int(elems[i].size) + 1 if spoil == "tail" else len(data) + 5
            spoiled = "out-of-range"
    elif spoil == "empty-far":
        cand = [i for i, e in enumerate(elems) if e.size == 0]
        if cand:
            rows[cand[seed % len(cand)]][0] = len(data) + 7
            spoiled = "empty-far"
    SPOILED[0] = spoiled
    return np.array(rows, dtype="uint64").reshape(len(elems), width), data.astype(dt)


def independent_store(c):
    """Lay the graph of case c out as a zarr hierarchy following the specification; returns (store, intended props)."""
    import zarr
    from zarr.storage import MemoryStore

    v = c["variant"]
    rng = random.Random(v["shuffle"])
    st = MemoryStore()
    root = zarr.open_group(st, mode="w", zarr_format=v["fmt"])

    def put(parent, name, a):
        kw = {}
        if v["chunk"] is not None and a.ndim >= 1 and a.shape[0] > 0:
            kw["chunks"] = (max(1, min(v["chunk"], a.shape[0])), *a.shape[1:]) if all(s > 0 for s in a.shape[1:]) else None
            if kw["chunks"] is None:
                kw.pop("chunks")
        if not v["compress"]:
            kw["compressors"] = None
        if a.dtype.kind == "U" and v["fmt"] == 3:
            arr = parent.create_array(name, shape=a.shape, dtype=a.dtype)
        else:
            arr = parent.create_array(name, shape=a.shape, dtype=a.dtype, **kw)
        if a.size:
            arr[...] = a
        return arr

    nids, eids = gg.to_np(c["nids"]), gg.to_np(c["eids"])
    if v["bigendian"] and v["fmt"] == 2 and nids.dtype.itemsize > 1:
        nids, eids = nids.astype(nids.dtype.newbyteorder(">")), eids.astype(eids.dtype.newbyteorder(">"))
    intended = {"nodes": {}, "edges": {}}
    md = {"directed": bool(c["md"]["directed"]), "node_props_metadata": {}, "edge_props_metadata": {}}
    if not v["minimal_md"]:
        md["geff_version"] = "0.5.0"
        md["extra"] = {"written_by": "independent"}
        md["axes"] = None
    tasks = []
    spoiled = None
    for grp, ids, ps in (("nodes", nids, c["nprops"]), ("edges", eids, c["eprops"])):
        g = root.create_group(_nm(v, grp))
        tasks.append((g, _nm(v, "ids"), ids.astype("int64") if v.get("wrong") == "idsdtype" else ids))
        items = list((ps or {}).items())
        if items or v["emptyprops"]:
            pg = g.create_group(_nm(v, "props"))
            rng.shuffle(items)
            for name, p in items:
                pnp = gg.prop_to_np(p)
                vals = pnp["values"]
                sub = pg.create_group(name)
                if vals.dtype == object:
                    if len(vals) == 0:
                        continue
                    if len(vals) and vals[0].dtype.name == "float16":  # the graph the store denotes holds float32 (float16 is not a geff dtype)
                        up = np.empty(len(vals), dtype=object)
                        for i_, e_ in enumerate(vals):
                            up[i_] = e_.astype("float32")
                        vals = up
                        pnp = dict(pnp, values=up)
                    table, data = my_serialize(list(vals), v.get("dlayout", 0), v["shuffle"], None if spoiled else v.get("spoil"))
                    spoiled = spoiled or SPOILED[0]
                    tasks.append((sub, _nm(v, "values"), table))
                    tasks.append((sub, _nm(v, "data"), data))
                    dt, vl = dtype_name(data.dtype), True
                else:
                    if vals.dtype.name == "float16":
                        vals = vals.astype("float32")
                    tasks.append((sub, _nm(v, "values"), vals))
                    dt, vl = dtype_name(vals.dtype), False
                miss = pnp["missing"]
                if miss is not None:
                    tasks.append((sub, _nm(v, "missing"), miss))
                elif v["allfalse"]:
                    tasks.append((sub, _nm(v, "missing"), np.zeros(len(vals), dtype=bool)))
                entry = {"identifier": name, "dtype": dt}
                if vl or not v["minimal_md"]:
                    entry["varlength"] = vl
                md[f"{grp[:-1]}_props_metadata"][name] = entry
                intended[grp][name] = {"values": vals if vals.dtype != object else pnp["values"], "missing": miss}
    rng.shuffle(tasks)
    for parent, name, a in tasks:
        put(parent, name, a)
    root.attrs["geff_metadata" if v.get("wrong") == "geffattr" else "geff"] = md
    if rng.random() < 0.5 or v["shuffle"] == 0:
        root.attrs["ome"] = {"version": "0.5"}
        root.create_group("segmentation")
    c["_spoiled"] = spoiled
    return st, nids, eids, intended


# ---- Coq printers of the intended graph (spec-level) ----
def c_elem(a, it):
    e = enc_arr(a, it)
    return f"({clist(e['shape'], cnat)}, {clist(e['flat'], cz)})"


def c_sprop(p, it):
    v = p["values"]
    if v.dtype == object:
        if len(v) and v[0].dtype.name == "float16":  # float16 elements denote float32 values (upcast on write)
            v = [x.astype("float32") for x in v]
        dt = DTYPE_COQ[dtype_name(v[0].dtype)] if len(v) else "DI64"
        vals = f"(SVar {dt} {clist(list(v), lambda x: c_elem(x, it))})"
    else:
        if v.dtype.name == "float16":
            v = v.astype("float32")
        e = enc_arr(v, it)
        vals = f"(SFixed {DTYPE_COQ[e['dt']]} {clist(e['shape'], cnat)} {clist(e['flat'], cz)})"
    miss = "None" if p["missing"] is None else f"(Some {clist([int(b) for b in p['missing'].tolist()], cz)})"
    return f"(mksprop {vals} {miss})"


def c_sgraph(nids, eids, nprops, eprops, it):
    def ps(d):
        return clist(list(d.items()), lambda kv: f"({cstr(kv[0])}, {c_sprop(kv[1], it)})")
    return f"(mksg {c_arr(enc_arr(nids, it))} {c_arr(enc_arr(eids, it))} {ps(nprops)} {ps(eprops)})"


def key_info(raw):
    """what the key-level oracle looks at: for every node document its kind (+ dtype name and shape of arrays), and the root's attribute keys"""
    fmt, out = raw["fmt"], {"nodes": {}, "root_attrs": None}
    for comps, (kind, d) in raw["items"]:
        if kind != "doc" or not isinstance(d, dict):
            continue
        path = "/".join(comps[:-1])
        if fmt == 2 and comps[-1] == ".zgroup":
            out["nodes"].setdefault(path, ["group"])
        elif fmt == 2 and comps[-1] == ".zarray":
            try:
                dt = np.dtype(d["dtype"])
                dn = "str" if dt.kind == "U" else ("bytes" if dt.kind == "S" else ("object" if dt.kind == "O" else dt.name))
            except Exception:
                dn = str(d.get("dtype"))
            out["nodes"][path] = ["array", dn, list(d.get("shape", []))]
        elif fmt == 2 and comps == [".zattrs"]:
            out["root_attrs"] = sorted(d)
        elif fmt == 3 and comps[-1] == "zarr.json":
            if d.get("node_type") == "array":
                dt = d.get("data_type")
                out["nodes"][path] = ["array", dt if isinstance(dt, str) else dt.get("name"), list(d.get("shape", []))]
            else:
                out["nodes"][path] = ["group"]
                if comps == ["zarr.json"]:
                    out["root_attrs"] = sorted(d.get("attributes") or {})
    return out


def key_oracle(c, o):
    """docs/specification.md read at the KEY level (zarr-specs for what a group / an array / an attribute is): the root group carries an
    attribute `geff`; nodes/ids is an array of the ids' dtype and shape (N,), edges/ids of shape (E, 2); every property is a group
    <grp>/props/<name> with an array `values`, an array `missing` when a value is missing, an array `data` when it is variable-length."""
    ki = o.get("kinfo")
    if ki is None:
        if o.get("keys") == "undecodable":
            fmt = c["fmt"] if c["kind"] == "forward" else c["variant"]["fmt"]
            return f"the store's keys cannot be read as a zarr format {fmt} store: {o.get('keys_error')}"
        return None
    nodes = ki["nodes"]
    if nodes.get("") != ["group"]:
        return "the store's root is not a group"
    if "geff" not in (ki["root_attrs"] or []):
        return f"the root group has no attribute 'geff' (attributes: {ki['root_attrs']})"
    for grp, ids in (("nodes", c["nids"]), ("edges", c["eids"])):
        if nodes.get(grp) != ["group"]:
            return f"no group at key {grp}/"
        a = nodes.get(f"{grp}/ids")
        if a is None or a[0] != "array":
            return f"no array at key {grp}/ids"
        if a[1] != ids["dtype"] or a[2] != list(ids["shape"]):
            return f"{grp}/ids is {a[1]}{a[2]}, the graph's ids are {ids['dtype']}{list(ids['shape'])}"
    for grp, ps in (("nodes", c["nprops"]), ("edges", c["eprops"])):
        for name, p in (ps or {}).items():
            if "/" in name or name.startswith(".") or name == "zarr.json" or name == "":
                continue
            base = f"{grp}/props/{name}"
            vl = "vlen" in p["values"]
            if vl and not p["values"]["vlen"]:
                continue
            if nodes.get(base) != ["group"]:
                return f"no group at key {base}/"
            if (nodes.get(f"{base}/values") or [None])[0] != "array":
                return f"no array at key {base}/values"
            if p["missing"] is not None and any(p["missing"]["data"]) and (nodes.get(f"{base}/missing") or [None, None])[:2] != ["array", "bool"]:
                return f"a value of {name!r} is missing but there is no boolean array at key {base}/missing"
            if vl and (nodes.get(f"{base}/data") or [None])[0] != "array":
                return f"variable-length property {name!r} has no array at key {base}/data"
    return None


def run_impl(c):
    from zarr.storage import MemoryStore

    from geff import validate_structure
    from geff.core_io import read_to_memory, write_arrays

    it = Interner()
    obs = {}
    if c["kind"] == "specstr":
        st = specstr_store(c["fmt"])
        try:
            validate_structure(st)
            obs["valid"] = True
        except Exception as e:
            obs["valid"], obs["valid_exc"] = False, [exn_name(e), str(e)[:120]]
        try:
            back = read_to_memory(st, structure_validation=False)
            vals = back["node_props"]["label"]["values"]
            obs["read"] = ["ok"]
            obs["diff"] = None if [str(x) for x in vals] == ["ab", "", "日本"] and list(back["node_ids"]) == [5, 600, 7] else "values differ"
        except Exception as e:
            obs["read"] = ["err", exn_name(e), str(e)[:120]]
        return obs
    if c["kind"] == "forward":
        st = MemoryStore()
        nids, eids = gg.to_np(c["nids"]), gg.to_np(c["eids"])
        nprops, eprops = gg.props_to_np(c["nprops"]), gg.props_to_np(c["eprops"])
        intended = {"nodes": copy.deepcopy(nprops) or {}, "edges": copy.deepcopy(eprops) or {}}
        try:
            write_arrays(st, nids, nprops, eids, eprops, gg.make_metadata(c["md"]), zarr_format=c["fmt"])
        except Exception as e:
            obs["write"] = ["err", exn_name(e), str(e)[:100]]
            return obs
    else:
        try:
            st, nids, eids, intended = independent_store(c)
        except Exception as e:
            raise HarnessError(f"independent writer failed: {type(e).__name__}: {e}")
    tree = dump_tree(st, it)
    # the RAW KEYS of the same store (documents parsed, chunks decoded by the harness: harness/keystore.py), for the key-level tie
    raw = kst.try_raw_dump(st, it, c["fmt"] if c["kind"] == "forward" else c["variant"]["fmt"])
    obs["keys"] = "undecodable" if raw is None else len(raw["items"])
    if raw is None:
        obs["keys_error"] = kst.LAST_ERROR[0]
    if raw is not None:
        obs["kinfo"] = key_info(raw)
    try:
        validate_structure(st)
        obs["valid"] = True
    except Exception as e:
        obs["valid"] = False
        obs["valid_exc"] = [exn_name(e), str(e)[:120]]
    back = None
    try:
        back = read_to_memory(st)
        obs["read"] = ["ok"]
    except Exception as e:
        obs["read"] = ["err", exn_name(e), str(e)[:120]]
    unreadable = c.get("_spoiled") == "out-of-range"
    obs["spoiled"] = c.get("_spoiled")
    if back is not None and not unreadable:
        native = lambda a: np.asarray(a).astype(np.asarray(a).dtype.newbyteorder("="))  # noqa: E731
        obs["diff"] = compare_graph(native(nids), native(eids), intended["nodes"], intended["edges"], loosen(back, intended))
    if tree_printable(tree):
        try:
            exp = c_sgraph(np.asarray(nids), np.asarray(eids), intended["nodes"], intended["edges"], it)
            some_exp = "None" if unreadable else f"(Some {exp})"
            lib = f"(Ok {gg.c_mgraph(back, it)})" if back is not None else f"(Err {obs['read'][1]})"
            obs["coq"] = f"(IStore {c_tree(tree)} {some_exp}, OStore {cbool(obs['valid'])} {lib})"
            if raw is not None:
                kterm, _ = kst.c_kstore(raw)
                head = "IKeysNeg" if c["kind"] == "keysneg" else "IStoreK"
                exp_k = exp if c["kind"] == "keysneg" else some_exp
                obs["coq"] = (f"({head} {c_tree(tree)} {exp_k} {kst.c_fmt(raw['fmt'])} {kterm} {kst.geff_version_term(raw)}, "
                              f"OStore {cbool(obs['valid'])} {lib})")
                obs["keys_tied"] = True
            elif c["kind"] == "keysneg":
                raise HarnessError("negative control store could not be dumped at the key level")
        except HarnessError:
            if c["kind"] == "keysneg":
                raise
    return obs


def loosen(back, intended):
    """C02 identifies an absent mask with an all-false one, and dtypes by name (byte order aside)."""
    out = {"node_ids": back["node_ids"].astype(back["node_ids"].dtype.newbyteorder("=")),
           "edge_ids": back["edge_ids"].astype(back["edge_ids"].dtype.newbyteorder("=")), "node_props": {}, "edge_props": {}}
    for which, grp in (("node_props", "nodes"), ("edge_props", "edges")):
        for k, p in back[which].items():
            m = p["missing"]
            if m is not None and not m.any() and intended[grp].get(k, {}).get("missing") is None:
                m = None
            out[which][k] = {"values": p["values"], "missing": m}
    return out


KEY_STATS = {"stores_tied_at_key_level": 0, "stores_not_decodable_at_key_level": 0, "keys": 0, "negative_controls": 0}


def coq_case(c, o):
    if o.get("keys_tied"):
        KEY_STATS["stores_tied_at_key_level"] += 1
        KEY_STATS["keys"] += o["keys"]
        KEY_STATS["negative_controls"] += c["kind"] == "keysneg"
    elif o.get("keys") == "undecodable":
        KEY_STATS["stores_not_decodable_at_key_level"] += 1
    return o.get("coq")


def oracle(c, o):
    if c["kind"] == "keysneg":
        return None  # not a conformant store: the expectations (raw keys = API view; key-level spec reading rejects) are in Corr/C02.v
    if c["kind"] == "specstr":
        if not o["valid"] or o["read"][0] != "ok" or o.get("diff"):
            return Failure(c, slim(o), "a store whose string property is stored as the specification prescribes (variable-length UTF-8, zarr `string`) is "
                           f"not read as the graph it denotes: validate_structure {'accepts' if o['valid'] else o['valid_exc']}, read {o['read']}",
                           {"why": "rejects-conformant", "kind": "specstr"})
        return None
    if "write" in o:
        if any("vlen" in p["values"] and not p["values"]["vlen"] for ps in (c["nprops"], c["eprops"]) if ps for p in ps.values()):
            return None
        return Failure(c, slim(o), f"write_arrays raised {o['write'][1]}", {"why": "write-raises"})
    kw = key_oracle(c, o)
    if kw is not None:
        return Failure(c, slim(o), f"key level: {kw}", {"why": "key-layout", "kind": c["kind"]})
    if not o["valid"]:
        return Failure(c, slim(o), f"a {'library-written' if c['kind'] == 'forward' else 'spec-conformant, independently written'} store is "
                       f"rejected by structural validation: {o['valid_exc']}", {"why": "rejects-conformant", "kind": c["kind"]})
    if o.get("spoiled") == "out-of-range":
        if o["read"][0] == "ok":
            return Failure(c, slim(o), "a variable-length offset row points outside its data array and read_to_memory returned a graph",
                           {"why": "reads-out-of-range", "kind": c["kind"]})
        return None
    if o["read"][0] != "ok":
        return Failure(c, slim(o), f"read_to_memory raised {o['read'][1]}: {o['read'][2]}", {"why": "read-raises", "kind": c["kind"]})
    if o.get("diff"):
        return Failure(c, slim(o), f"the library reads a different graph than the store denotes: {o['diff']}", {"why": "differs", "kind": c["kind"]})
    return None


def slim(o):
    return {k: v for k, v in o.items() if k not in ("coq", "kinfo")}


def nontrivial(c, o):
    if c["kind"] == "specstr":
        return True
    return bool(c["nprops"] or c["eprops"])


def extra_coverage():
    return {"key_level": dict(KEY_STATS)}


def describe(c, o):
    v = c.get("variant")
    if c["kind"] == "specstr":
        return f"specstr:v{c['fmt']}:{'ok' if o.get('valid') and o.get('read', [''])[0] == 'ok' else 'err'}"
    if c["kind"] == "keysneg":
        return f"keysneg:v{v['fmt']}:{v['wrong']}"
    if v is not None and v.get("spoil"):
        return f"offs:{v['spoil']}:{o.get('spoiled') or 'not-applicable'}:{'read' if o.get('read', [''])[0] == 'ok' else 'refused'}"
    tag = "fwd:v%d" % c["fmt"] if v is None else f"conv:v{v['fmt']}:ch={v['chunk']}:z={int(v['compress'])}:af={int(v['allfalse'])}:ep={int(v['emptyprops'])}:min={int(v['minimal_md'])}:be={int(v['bigendian'])}:dl={v.get('dlayout', 0)}"
    return f"{tag}:N={c['nids']['shape'][0]}:{'ok' if o.get('valid') and o.get('read', [''])[0] == 'ok' else 'err'}"
