"""Store-side machinery shared by the store-cluster checks (C01 C02 C04 C05 C06 C09 C10 C18).

* value encoding (numpy scalar -> Z payload of the Coq model) with string interning
* `dump_tree(store)`: abstraction of a real zarr hierarchy into the tree of Tree.v, using the zarr API only (never geff)
* `build_store(tree, fmt)`: independent writer laying an abstract tree out as a real zarr store (zarr API only)
* Coq printers for arrays, trees, metadata
* TracingStore / FaultStore (zarr.storage.WrapperStore): record / fail store mutations in program order
"""
from __future__ import annotations

import math
import struct

import numpy as np
import zarr
from zarr.storage import MemoryStore, WrapperStore

from harness.common import HarnessError, cbool, clist, cnat, copt, cstr, cz, dtype_name, DTYPE_COQ

# --------------------------------------------------------------------------
# payload encoding
# --------------------------------------------------------------------------
FSCALE = 1024
TOK = 1 << 70


class Interner:
    """Strings <-> integer tokens (order irrelevant: the model never compares string payloads)."""

    def __init__(self):
        self.tab: dict[str, int] = {}

    def tok(self, s) -> int:
        s = str(s) if not isinstance(s, bytes) else "b:" + s.decode("latin1")
        if s not in self.tab:
            self.tab[s] = len(self.tab) + 1
        return self.tab[s]


def enc_float(x: float) -> int:
    """Exact dyadic floats (|x| < 2^40, multiple of 2^-10) as x*1024; everything else as an opaque token."""
    x = float(x)
    if x != x:
        return TOK + 1
    if x == math.inf:
        return TOK + 2
    if x == -math.inf:
        return TOK + 3
    if x == 0.0 and math.copysign(1.0, x) < 0:
        return TOK + 4
    y = x * FSCALE
    if abs(x) < 2.0 ** 40 and y == int(y):
        return int(y)
    return 2 * TOK + struct.unpack("<Q", struct.pack("<d", x))[0]


def enc_value(v, dtname: str, interner: Interner) -> int:
    if dtname.startswith("float"):
        return enc_float(v)
    if dtname in ("str", "bytes", "object"):
        return interner.tok(v)
    return int(v)


def enc_arr(a, interner: Interner) -> dict:
    """numpy array -> {'dt','shape','flat'} (abstract arr of Tree.v)."""
    a = np.asarray(a)
    dn = dtype_name(a.dtype)
    if a.dtype.kind == "T":  # numpy StringDType (zarr v3 strings)
        dn = "str"
    flat = [enc_value(v, dn, interner) for v in a.ravel().tolist()]
    return {"dt": dn, "shape": [int(s) for s in a.shape], "flat": flat}


def zdtype_name(dt) -> str:
    try:
        if getattr(dt, "kind", None) == "T":
            return "str"
        return dtype_name(dt)
    except Exception:
        return "object"


# --------------------------------------------------------------------------
# abstraction of a real store (zarr API only)
# --------------------------------------------------------------------------
SPEC_DTYPES = {"bool", "int8", "int16", "int32", "int64", "uint8", "uint16", "uint32", "uint64", "float32", "float64", "bytes", "str"}
SPEC_AXIS_TYPES = {"space", "time", "channel"}
SPEC_VERSION_RE = r"^\d+\.\d+(?:\.\d+)?(?:\.dev\d+)?(?:\+[a-zA-Z0-9]+)?"
MD_DISAGREE: list = []  # (document, library verdict, spec verdict) for every document on which the two differ (read by the oracles)


def _num(x):
    return isinstance(x, (int, float)) and not isinstance(x, bool)


def _optstr(x):
    return x is None or isinstance(x, str)


def spec_md_valid(doc) -> bool:
    """Is `doc` a valid geff metadata document?  Written from docs/specification.md and the published schema, WITHOUT geff_spec, so that
    the verdict the store models take as input does not come from the code under test.  Exact on documents whose fields have their JSON
    types (the generators produce no coercible values such as "true" for a boolean)."""
    import re
    from collections.abc import Mapping

    import numpy as np

    if not isinstance(doc, Mapping):
        return False
    if not isinstance(doc.get("directed"), bool):
        return False
    if "geff_version" in doc and not (isinstance(doc["geff_version"], str) and re.match(SPEC_VERSION_RE, doc["geff_version"])):
        return False
    for key in ("node_props_metadata", "edge_props_metadata"):
        pm = doc.get(key)
        if not isinstance(pm, Mapping):
            return False
        for k, e in pm.items():
            if not isinstance(e, Mapping) or not isinstance(e.get("identifier"), str) or e["identifier"] == "" or e["identifier"] != k:
                return False
            dt = e.get("dtype")
            if not isinstance(dt, str) or dt == "":
                return False
            try:
                npdt = np.dtype(dt)
            except (TypeError, ValueError, SyntaxError):   # numpy answers comma strings ("," / "i4,,") with ValueError / SyntaxError
                return False
            if ("str" if npdt.kind == "U" else npdt.name) not in SPEC_DTYPES:
                return False
            if not isinstance(e.get("varlength", False), bool) or not all(_optstr(e.get(f)) for f in ("unit", "name", "description")):
                return False
    axes = doc.get("axes")
    names = []
    if axes is not None:
        if not isinstance(axes, list):
            return False
        for ax in axes:
            if not isinstance(ax, Mapping) or not isinstance(ax.get("name"), str):
                return False
            if ax.get("type") is not None and ax["type"] not in SPEC_AXIS_TYPES:
                return False
            if not all(ax.get(f) is None or _num(ax[f]) for f in ("min", "max", "scale", "offset")):
                return False
            if not _optstr(ax.get("unit")) or not _optstr(ax.get("scaled_unit")):
                return False
            if (ax.get("min") is None) != (ax.get("max") is None):
                return False
            if ax.get("min") is not None and ax["min"] > ax["max"]:
                return False
            if ax.get("scaled_unit") and ax.get("scale") is None:
                return False
            names.append(ax["name"])
        if len(names) != len(set(names)):
            return False
    dh = doc.get("display_hints")
    if dh is not None:
        if not isinstance(dh, Mapping) or not isinstance(dh.get("display_horizontal"), str) or not isinstance(dh.get("display_vertical"), str):
            return False
        if dh["display_horizontal"] not in names or dh["display_vertical"] not in names:
            return False
        for f in ("display_depth", "display_time"):
            if dh.get(f) is not None and (not isinstance(dh[f], str) or dh[f] not in names):
                return False
    if not _optstr(doc.get("sphere")) or not _optstr(doc.get("ellipsoid")):
        return False
    tnp = doc.get("track_node_props")
    if tnp is not None and not (isinstance(tnp, Mapping) and all(k in ("lineage", "tracklet") and isinstance(v, str) for k, v in tnp.items())):
        return False
    ro = doc.get("related_objects")
    if ro is not None:
        if not isinstance(ro, list):
            return False
        for r in ro:
            if not isinstance(r, Mapping) or not isinstance(r.get("type"), str) or not isinstance(r.get("path"), str) or not _optstr(r.get("label_prop")):
                return False
            if r["type"] != "labels" and r.get("label_prop") is not None:
                return False
    if "extra" in doc and not isinstance(doc["extra"], Mapping):
        return False
    return True


def parse_geff_attr(val, interner: Interner):
    """attrs['geff'] -> abstract metadata (dict) or None when the document is not valid geff metadata.

    The validity bit comes from `spec_md_valid` (independent of geff_spec); the library's own verdict (GeffMetadata.model_validate, modelled
    in C07/C08) is computed beside it and every disagreement is recorded in MD_DISAGREE, so that a validator clause lost from the pydantic
    model shows up as a difference instead of being fed back into the model as truth.  The structural content used by the store models is
    read off the (normalised) JSON here."""
    import json
    from collections.abc import Mapping

    from geff_spec import GeffMetadata

    spec_ok = spec_md_valid(val)
    obj = None
    try:
        if isinstance(val, Mapping):
            obj = GeffMetadata.model_validate(val)
    except Exception:
        obj = None
    if spec_ok != (obj is not None):
        try:
            MD_DISAGREE.append((json.loads(json.dumps(val, default=str)), obj is not None, spec_ok))
        except Exception:
            MD_DISAGREE.append((None, obj is not None, spec_ok))
    if not spec_ok:
        return None
    # defaulted fields that the document omits are filled in by the metadata model (C07/C08): abstract the normalised document
    return abstract_meta_json(obj.model_dump(mode="json") if obj is not None else dict(val), interner)


def _pm(d, interner):
    return {"dtype": d.get("dtype"), "varlength": bool(d.get("varlength", False)),
            "unit": None if d.get("unit") is None else interner.tok("u:" + str(d.get("unit"))),
            "name": None if d.get("name") is None else interner.tok("n:" + str(d.get("name"))),
            "descr": None if d.get("description") is None else interner.tok("d:" + str(d.get("description")))}


def abstract_meta_json(val, interner: Interner) -> dict:
    """JSON dict of a (valid) geff metadata document -> abstract smeta."""
    import json

    axes = None
    if val.get("axes") is not None:
        axes = []
        for ax in val["axes"]:
            rest = {k: ax.get(k) for k in ("type", "unit", "scale", "scaled_unit", "offset")}
            axes.append({"name": ax["name"],
                         "min": None if ax.get("min") is None else enc_float(ax["min"]),
                         "max": None if ax.get("max") is None else enc_float(ax["max"]),
                         "tok": interner.tok("ax:" + json.dumps(rest, sort_keys=True))})
    rest = {k: val.get(k) for k in ("geff_version", "sphere", "ellipsoid", "track_node_props", "related_objects",
                                    "display_hints")}
    rest["extra"] = val.get("extra") or {}
    return {"directed": bool(val["directed"]), "axes": axes,
            "nprops": [(k, _pm(v, interner)) for k, v in (val.get("node_props_metadata") or {}).items()],
            "eprops": [(k, _pm(v, interner)) for k, v in (val.get("edge_props_metadata") or {}).items()],
            "tok": interner.tok("md:" + json.dumps(rest, sort_keys=True, default=str))}


def abstract_meta_obj(md, interner: Interner) -> dict:
    """GeffMetadata object -> abstract smeta (through its JSON dump, as the writer stores it)."""
    return abstract_meta_json(md.model_dump(mode="json"), interner)


def dump_node(node, interner: Interner, is_root: bool) -> dict:
    if isinstance(node, zarr.Array):
        try:
            data = node[...]
        except Exception as e:  # torn array
            return {"k": "A", "dt": zdtype_name(node.dtype), "shape": list(node.shape), "flat": None, "err": type(e).__name__}
        a = enc_arr(data, interner)
        a["dt"] = zdtype_name(node.dtype) if zdtype_name(node.dtype) != "object" else a["dt"]
        a["k"] = "A"
        return a
    attrs = []
    for k, v in dict(node.attrs).items():
        if k == "geff" and is_root:
            attrs.append((k, {"geff": parse_geff_attr(v, interner)}))
        else:
            import json
            attrs.append((k, {"tok": interner.tok("attr:" + json.dumps(v, sort_keys=True, default=str))}))
    ch = []
    for name in sorted(node.keys()):
        try:
            child = node[name]
        except Exception:
            continue
        ch.append((name, dump_node(child, interner, False)))
    return {"k": "G", "attrs": sorted(attrs, key=lambda kv: kv[0]), "ch": ch}


def dump_tree(store, interner: Interner):
    """Abstract tree of the hierarchy rooted at `store`, or None when there is no zarr group there."""
    import os
    from pathlib import Path

    if isinstance(store, (str, Path)) and not os.path.exists(str(store)):
        return None
    try:
        root = zarr.open_group(store, mode="r")
    except Exception:
        if isinstance(store, (str, Path)) and os.path.isdir(str(store)):
            # a directory that exists but holds no zarr group: for a path "the location is occupied" (check_for_geff), and an
            # append-mode open makes it the empty root group -- the empty group is its abstraction
            ch = []
            for name in sorted(os.listdir(str(store))):
                sub = os.path.join(str(store), name)
                if not os.path.isdir(sub):
                    continue
                try:
                    child = zarr.open(sub, mode="r")
                except Exception:
                    continue
                ch.append((name, dump_node(child, interner, False)))
            return {"k": "G", "attrs": [], "ch": ch}
        return None
    return dump_node(root, interner, True)


# --------------------------------------------------------------------------
# Coq printers
# --------------------------------------------------------------------------
def c_arr(a: dict) -> str:
    return (f"(mkarr {DTYPE_COQ[a['dt']]} {clist(a['shape'], cnat)} {clist(a['flat'], cz)})")


def c_pmeta(p: dict) -> str:
    if p["dtype"] not in DTYPE_COQ:
        raise HarnessError(f"metadata dtype {p['dtype']!r} outside the model")
    return (f"(mkpm {DTYPE_COQ[p['dtype']]} {cbool(p['varlength'])} {copt(p['unit'], cz)} "
            f"{copt(p['name'], cz)} {copt(p['descr'], cz)})")


def c_axis(a: dict) -> str:
    return f"(mkax {cstr(a['name'])} {copt(a['min'], cz)} {copt(a['max'], cz)} {cz(a['tok'])})"


def c_meta(m: dict) -> str:
    ax = "None" if m["axes"] is None else f"(Some {clist(m['axes'], c_axis)})"
    np_ = clist(m["nprops"], lambda kv: f"({cstr(kv[0])}, {c_pmeta(kv[1])})")
    ep_ = clist(m["eprops"], lambda kv: f"({cstr(kv[0])}, {c_pmeta(kv[1])})")
    return f"(mkmd {cbool(m['directed'])} {ax} {np_} {ep_} {cz(m['tok'])})"


def c_aval(v: dict) -> str:
    if "geff" in v:
        return "(AGeff None)" if v["geff"] is None else f"(AGeff (Some {c_meta(v['geff'])}))"
    return f"(AOther {cz(v['tok'])})"


def c_tree(t: dict) -> str:
    if t["k"] == "A":
        if t["flat"] is None:
            raise HarnessError("torn array in a tree that must be printed")
        return f"(ZA {c_arr(t)})"
    attrs = clist(t["attrs"], lambda kv: f"({cstr(kv[0])}, {c_aval(kv[1])})")
    ch = clist(t["ch"], lambda kv: f"({cstr(kv[0])}, {c_tree(kv[1])})")
    return f"(ZG {attrs} {ch})"


def c_otree(t) -> str:
    return "None" if t is None else f"(Some {c_tree(t)})"


def tree_printable(t) -> bool:
    if t is None:
        return True
    if t["k"] == "A":
        return t["flat"] is not None and t["dt"] in DTYPE_COQ
    for _, v in t["attrs"]:
        if "geff" in v and v["geff"] is not None:
            for _, p in v["geff"]["nprops"] + v["geff"]["eprops"]:
                if p["dtype"] not in DTYPE_COQ:
                    return False
    return all(tree_printable(c) for _, c in t["ch"])


# --------------------------------------------------------------------------
# independent writer: abstract description -> real zarr store (zarr API only)
# --------------------------------------------------------------------------
def np_from_spec(a: dict):
    """{'dtype': numpy dtype string, 'shape': [...], 'data': nested/flat python list} -> numpy array."""
    arr = np.array(a["data"], dtype=a["dtype"])
    return arr.reshape(a["shape"])


def build_store(desc: dict, fmt: int, store=None, chunks=None, compress=None):
    """desc: {'attrs': {...raw json...}, 'children': {name: desc | {'array': np.ndarray}}} -> store with that hierarchy."""
    store = MemoryStore() if store is None else store
    root = zarr.open_group(store, mode="w", zarr_format=fmt)
    _fill_group(root, desc, chunks, compress)
    return store


def _fill_group(g, desc, chunks, compress):
    for k, v in (desc.get("attrs") or {}).items():
        g.attrs[k] = v
    for name, child in (desc.get("children") or {}).items():
        if "array" in child:
            a = child["array"]
            kw = {}
            if chunks is not None and a.ndim >= 1 and a.shape[0] > 0:
                kw["chunks"] = tuple(max(1, min(chunks, s)) for s in a.shape)
            if compress is False:
                kw["compressors"] = None
            arr = g.create_array(name, shape=a.shape, dtype=a.dtype, **kw)
            if a.size or a.ndim == 0:
                arr[...] = a
        else:
            sub = g.create_group(name)
            _fill_group(sub, child, chunks, compress)


# --------------------------------------------------------------------------
# tracing / fault injection
# --------------------------------------------------------------------------
class TracingStore(WrapperStore):
    """Records every mutation in program order; raises OSError at mutation number `fail_at` (0-based) if given."""

    def __init__(self, store, fail_at=None, log=None, expand=None):
        """expand: None = delete_dir is one mutation (store-API granularity); "listing" / "reversed" / "chunks-first" / "meta-first" =
        delete_dir is carried out key by key in that order, every key deletion being a mutation that can fail (what a directory
        store's rmtree or an object store's prefix deletion does underneath)"""
        super().__init__(store)
        self.log = [] if log is None else log
        self.fail_at = fail_at
        self.expand = expand

    def _with_store(self, store):
        return type(self)(store, self.fail_at, self.log, self.expand)

    def with_read_only(self, read_only: bool = False):
        return type(self)(self._store.with_read_only(read_only), self.fail_at, self.log, self.expand)

    def _tick(self, op, key):
        idx = len(self.log)
        self.log.append((op, key))
        if self.fail_at is not None and idx == self.fail_at:
            raise OSError(f"injected storage failure at mutation {idx}: {op} {key}")

    async def set(self, key, value, byte_range=None):
        self._tick("set", key)
        return await self._store.set(key, value)

    async def set_if_not_exists(self, key, value):
        self._tick("setnx", key)
        return await self._store.set_if_not_exists(key, value)

    async def delete(self, key):
        self._tick("del", key)
        return await self._store.delete(key)

    async def delete_dir(self, prefix):
        if self.expand is None:
            self._tick("deldir", prefix)
            return await self._store.delete_dir(prefix)
        pre = prefix if prefix.endswith("/") or prefix == "" else prefix + "/"
        keys = [k async for k in self._store.list_prefix(pre)]
        is_meta = lambda k: k.rsplit("/", 1)[-1] in (".zarray", ".zgroup", ".zattrs", "zarr.json")  # noqa: E731
        if self.expand == "reversed":
            keys = keys[::-1]
        elif self.expand == "chunks-first":
            keys = sorted(keys, key=lambda k: (is_meta(k), k))
        elif self.expand == "meta-first":
            keys = sorted(keys, key=lambda k: (not is_meta(k), k))
        for k in keys:
            self._tick("del", k)
            await self._store.delete(k)


def snapshot(store) -> dict:
    """key -> bytes of a MemoryStore / directory tree (for byte-identity checks)."""
    import os
    from pathlib import Path

    if isinstance(store, MemoryStore):
        return {k: bytes(v.to_bytes()) for k, v in store._store_dict.items()}
    if isinstance(store, WrapperStore):
        return snapshot(store._store)
    root = Path(str(store)) if isinstance(store, (str, Path)) else Path(str(getattr(store, "root")))
    out = {}
    if root.exists():
        for dp, dn, fn in os.walk(root):
            for d in dn:
                out[str(Path(dp, d).relative_to(root)) + "/"] = b""
            for f in fn:
                out[str(Path(dp, f).relative_to(root))] = Path(dp, f).read_bytes()
    else:
        return {"<absent>": b""}
    return out
