"""C08 -- metadata survives serialisation and matches the published JSON schema.

Cases (all derived from generated *canonical* metadata documents = the python dump of a valid object, built by the
harness without geff; the object itself is then made by GeffMetadata.model_validate and must dump to the same document):
  dump     model_dump(mode="json")                                       vs  MetaJson.to_json
  text     json.loads(model_dump_json()), model_validate_json            vs  to_json_text / of_json
  cli      `geff info` (typer runner) on a real on-disk store             vs  to_json_text
  attrs    GeffMetadata.write on a real zarr-2 / zarr-3 group with prior (foreign) attributes, all attributes
           afterwards, GeffMetadata.read                                  vs  md_write / md_read
  read     GeffMetadata.read on arbitrary group states                    vs  md_read
  attrsk   the same write on a store that also holds member groups / arrays / consolidated metadata, observed on the RAW
           KEYS of the store before and after (harness/keystore.py: never the zarr hierarchy API)   vs  MetaKeys.md_write_k / md_read_k
  surrogate  (oracle only) a str field holding a lone surrogate: text, zarr 2, zarr 3 round trips
  vobj     {"geff": model_dump(mode="json")} judged by jsonschema (python3-vt) under geff-schema.json and under the
           freshly exported schema                                       vs  Schema.validates on both regenerated terms
  vdoc     the same for every single structural mutation of such a document
  parse    model_validate of the mutated inner document                   vs  of_json
Oracle (from the property text): read(write(m)) == m through text / zarr 2 / zarr 3 / CLI, foreign attributes kept,
the serialised form is valid under the published schema, published and exported schema agree on every document.
"""
from __future__ import annotations

import atexit
import copy
import json
import os
import random
import shutil
import subprocess
import tempfile
from pathlib import Path

from harness import common
from harness.c07 import F, c_md, enc, has_nonfinite, is_f, to_jv, to_py
from harness.common import Failure, HarnessError, cbool, clist, copt, cstr

PROP = "C08"
PARALLEL = True

RULE = ("bounded-exhaustive: every subset of the optional top-level fields (128 objects), every combination of the optional Axis "
        "fields x every axis type of the source, every space and time unit of the source as unit and as scaled_unit, every "
        "PropMetadata optional-field subset x every dtype of the source, every RelatedObject / DisplayHint shape; ALL single "
        "structural mutations (drop key, 7 wrong JSON types per key, bad enum / pattern / minLength values, unknown key, keys "
        "known to either schema but absent) of two reference documents; random objects (0-5 axes, 0-4 properties, unicode, "
        "nested free-form extra with big integers, 2^53+-1, 2^63, 2^64-1, dyadic floats) each through dump, JSON text, "
        "zarr-2 and zarr-3 attributes with prior foreign attributes (incl. an older geff entry, no group at all), `geff info`, "
        "and sampled mutations of their documents; arbitrary group states for read; a stream of objects holding inf/-inf/nan "
        "(correspondence only). non-trivial = an object with at least one optional part, or any judged document; distinct by "
        "structural input")
EXHAUSTIVE_BLOCKS = [
    "every subset of {axes, sphere, ellipsoid, track_node_props, related_objects, display_hints, extra} present/absent",
    "Axis: type {None}+source types x unit x (min,max) x scale x scaled_unit x offset present/absent; every source unit once as unit and as scaled_unit",
    "PropMetadata: {varlength, unit, name, description} subsets x every dtype of the source",
    "all single structural mutations of two reference documents (rich, minimal), judged under both schemas and parsed",
]
ASSUMPTIONS = [
    "the model works on JSON values; the JSON *text* encoders/decoders (pydantic-core, json, zarr's attribute codec) are runtime and "
    "tied only on the generated values: None, bool, int (unbounded), float = multiple of 2^-10, str without control characters, "
    "list, dict with distinct str keys",
    "free-form `extra` values are JSON values; tuples, bytes, sets, datetimes (which JSON mode converts) are outside the claim",
    "non-finite floats are outside the property's quantifier (JSON has no such numbers): observed and modelled -- model_dump(mode='json') "
    "keeps inf/nan in typed float fields and writes null for them inside `extra`; model_dump_json writes null everywhere; zarr "
    "attributes keep them -- tied by correspondence cases, not demanded by the oracle; the theorems carry the guard in inv_md",
    "the version pattern is decided on ASCII digits (Python's and pydantic-core's \\d also match other Unicode digits); generated "
    "version strings keep non-ASCII characters away from digit positions",
    "pydantic's lax coercions (of_json on mutated documents) are modelled for the value classes of C07's ASSUMPTIONS; strings "
    "offered to float/bool fields by the mutations are non-numeric ('zz')",
    "jsonschema 4.26 (Draft 2020-12) under python3-vt is the reference semantics of the schema keywords; Schema.validates is tied "
    "to it on every judged document under both schemas",
    "zarr format 2 and 3 differ only in where the attribute map is kept: one model (an attribute map or no group) for the attrs / read "
    "cases; the attrsk cases tie the key-level model MetaKeys.md_write_k (which document is rewritten, which members of a format-3 "
    "group document are kept, which format a missing root group is created in) on the raw keys; the consolidated-metadata cache "
    ".zmetadata of a format-2 store (zarr refreshes it) is left out of the comparison, like in KeyStore.v",
    "strings are well-formed Unicode (the model's strings are UTF-8 bytes); a python str holding a lone surrogate is accepted by "
    "GeffMetadata and cannot be encoded: such strings are outside the quantifier (not Unicode text); the cases are run and counted only",
]

TOP_OPT = ["axes", "sphere", "ellipsoid", "track_node_props", "related_objects", "display_hints", "extra"]
ALT_VALUES = [None, True, 7, F(1.5), "zz", [], {}]
SITE_DEF = {"root": None, "geff": "GeffMetadata", "axis": "Axis", "pm": "PropMetadata", "related": "RelatedObject", "hints": "DisplayHint"}


# ------------------------------------------------------------------ source constants (read at run time from the worktree)
def source_consts():
    from geff_spec import _valid_values as vv
    from geff_spec._schema import GEFF_VERSION

    return {"types": list(vv.VALID_AXIS_TYPES), "space": list(vv.VALID_SPACE_UNITS), "time": list(vv.VALID_TIME_UNITS),
            "dtypes": list(vv.VALID_DTYPES), "gv": GEFF_VERSION}


_SC = None


def SC():
    global _SC
    if _SC is None:
        _SC = source_consts()
    return _SC


_SCHEMAS = None


def schemas():
    """(published, exported) as python dicts; None when the file cannot be read."""
    global _SCHEMAS
    if _SCHEMAS is None:
        from geff_spec._schema import _formatted_schema_json

        try:
            pub = json.loads((common.REPO / "geff-schema.json").read_text())
        except Exception:
            pub = None
        try:
            exp = json.loads(_formatted_schema_json())
        except Exception:
            exp = None
        _SCHEMAS = (pub, exp)
    return _SCHEMAS


# ------------------------------------------------------------------ generators of canonical documents
NAMES = ["x", "y", "z", "t", "c", "é", "位置", "a b", "x" * 30, "🙂"]
STRS = ["", "u", "A name", "é", "日本語", "🙂 smile", 'quote " and \\ backslash', "line one", "ünï", "0"]
VERSIONS = ["1.3", "0.1.0", "1.0.0.dev1", "2.3.4+local", "3.4.5.dev6+g61d5f18", "10.20.30", "0.0", "1.2x", "1.2+é", "1.3.dev"]
FLOATS = [0.0, 0.5, -1.5, 2.25, 1.0, 1000.0, -0.0009765625, 1023.9990234375, 9007199254740992.0, -9007199254740992.0, 4294967296.0]
BIG_INTS = [0, 1, -1, 127, 2**31, -(2**31) - 1, 2**53 - 1, 2**53 + 1, 2**63 - 1, 2**63, 2**64 - 1, -(2**63), 2**70]


def pick(rng, xs):
    return xs[rng.randrange(len(xs))]


def mk_axis(name, type=None, unit=None, lo=None, hi=None, scale=None, scaled_unit=None, offset=None):
    def f(x):
        return None if x is None else (x if is_f(x) else F(float(x)))
    return {"name": name, "type": type, "unit": unit, "min": f(lo), "max": f(hi), "scale": f(scale),
            "scaled_unit": scaled_unit, "offset": f(offset)}


def mk_pm(ident, dtype, varlength=False, unit=None, name=None, description=None):
    return {"identifier": ident, "dtype": dtype, "varlength": varlength, "unit": unit, "name": name, "description": description}


def mk_md(version=None, directed=True, axes=None, node=None, edge=None, sphere=None, ellipsoid=None, track=None, related=None,
          hints=None, extra=None):
    return {"geff_version": version if version is not None else SC()["gv"], "directed": directed, "axes": axes,
            "node_props_metadata": node or {}, "edge_props_metadata": edge or {}, "sphere": sphere, "ellipsoid": ellipsoid,
            "track_node_props": track, "related_objects": related, "display_hints": hints, "extra": extra if extra is not None else {}}


def gen_axis(rng, name, special=False):
    sc = SC()
    a = mk_axis(name)
    if rng.random() < 0.7:
        a["type"] = pick(rng, sc["types"])
    if rng.random() < 0.6:
        a["unit"] = pick(rng, sc["space"] + sc["time"] + ["foo", "", "µm", "Ångström"])
    if rng.random() < 0.6:
        lo, hi = sorted([pick(rng, FLOATS), pick(rng, FLOATS)])
        a["min"], a["max"] = F(lo), F(hi)
    if rng.random() < 0.4:
        a["scale"] = F(pick(rng, [0.5, 2.0, 0.25, 1.0, 0.0, -1.0]))
        if rng.random() < 0.7:
            a["scaled_unit"] = pick(rng, sc["space"] + sc["time"] + ["foo", ""])
    elif rng.random() < 0.15:
        a["scaled_unit"] = ""
    if rng.random() < 0.3:
        a["offset"] = F(pick(rng, FLOATS))
    if special:
        k = rng.randrange(5)
        if k == 0:
            a["min"], a["max"] = F("-inf"), F("inf")
        elif k == 1:
            a["min"], a["max"] = F("-inf"), F(3.0)
        elif k == 2:
            a["scale"] = F("inf")
        elif k == 3:
            a["offset"] = F("nan")
        else:
            a["min"], a["max"] = F(0.0), F("inf")
    return a


def gen_pm(rng, ident):
    p = mk_pm(ident, pick(rng, SC()["dtypes"]))
    if rng.random() < 0.3:
        p["varlength"] = True
    for k in ("unit", "name", "description"):
        if rng.random() < 0.35:
            p[k] = pick(rng, STRS)
    return p


def gen_pmdict(rng):
    n = pick(rng, [0, 0, 1, 1, 2, 3, 4])
    keys = rng.sample(["a", "b", "pos", "x", "t", "é", "track id", "🙂", "identifier", "description"], n)
    return {k: gen_pm(rng, k) for k in keys}


def gen_value(rng, depth, special=False):
    r = rng.random()
    if depth <= 0 or r < 0.55:
        k = rng.randrange(8 if special else 7)
        if k == 0:
            return None
        if k == 1:
            return rng.random() < 0.5
        if k == 2:
            return pick(rng, BIG_INTS)
        if k == 3:
            return F(pick(rng, FLOATS))
        if k == 4:
            return pick(rng, STRS)
        if k == 5:
            return pick(rng, [[], {}])
        if k == 6:
            return rng.randrange(-5, 100)
        return F(pick(rng, ["inf", "-inf", "nan"]))
    if r < 0.78:
        return [gen_value(rng, depth - 1, special) for _ in range(rng.randrange(0, 4))]
    return gen_obj(rng, depth - 1, special)


def gen_obj(rng, depth, special=False):
    keys = rng.sample(["a", "b", "n", "k", "", "é", "日本", "geff_version", "axes", "extra", "🙂", "x y"], rng.randrange(0, 4))
    return {k: gen_value(rng, depth, special) for k in keys}


def gen_md(rng, special=False):
    """A canonical document of a valid object (special: with non-finite floats somewhere)."""
    n_ax = pick(rng, [0, 1, 2, 2, 3, 3, 4, 5])
    names = rng.sample(NAMES, n_ax)
    axes = None
    if rng.random() < 0.85:
        axes = [gen_axis(rng, nm, special and rng.random() < 0.5) for nm in names]
    hints = None
    if axes and len(axes) >= 2 and rng.random() < 0.5:
        hints = {"display_horizontal": names[0], "display_vertical": names[1], "display_depth": None, "display_time": None}
        if len(names) >= 3 and rng.random() < 0.5:
            hints["display_depth"] = names[2]
        if len(names) >= 4 and rng.random() < 0.5:
            hints["display_time"] = names[3]
        if rng.random() < 0.15:
            hints["display_vertical"] = names[0]
    track = None
    if rng.random() < 0.4:
        track = pick(rng, [{}, {"lineage": "lin"}, {"tracklet": "trk"}, {"tracklet": "t", "lineage": "l"}, {"lineage": "l", "tracklet": "é"},
                           {"tracklet": ""}])
    related = None
    if rng.random() < 0.45:
        related = []
        for _ in range(pick(rng, [0, 1, 1, 2, 3])):
            t = pick(rng, ["labels", "labels", "image", "foo", "", "Ünï"])
            related.append({"type": t, "path": pick(rng, ["seg/", "../raw", "", "päth/ü"]),
                            "label_prop": pick(rng, ["seg_id", "", "é"]) if t == "labels" and rng.random() < 0.7 else None})
    extra = {}
    if rng.random() < 0.6:
        extra = gen_obj(rng, 3, special)
        if special and not has_nonfinite(extra) and rng.random() < 0.6:
            extra["nf"] = [F("inf"), {"q": F("nan")}]
    return mk_md(version=pick(rng, VERSIONS), directed=rng.random() < 0.5, axes=axes, node=gen_pmdict(rng), edge=gen_pmdict(rng),
                 sphere=pick(rng, [None, None, "r", "", "é"]), ellipsoid=pick(rng, [None, None, "cov", ""]), track=track,
                 related=related, hints=hints, extra=extra)


def rich_doc():
    sc = SC()
    return mk_md(version="1.3.dev6+g61d5f18", directed=True,
                 axes=[mk_axis("t", sc["types"][1 % len(sc["types"])], "second", 0, 10, 0.5, "minute", 1),
                       mk_axis("y", sc["types"][0], "micrometer", -1.5, 2.25), mk_axis("x")],
                 node={"t": mk_pm("t", "float64", False, "second", "time", "frame time"), "lab": mk_pm("lab", "str", True)},
                 edge={"score": mk_pm("score", "float32")}, sphere="r", ellipsoid="cov",
                 track={"lineage": "lin", "tracklet": "trk"},
                 related=[{"type": "labels", "path": "seg/", "label_prop": "lab"}, {"type": "image", "path": "raw/", "label_prop": None}],
                 hints={"display_horizontal": "x", "display_vertical": "y", "display_depth": None, "display_time": "t"},
                 extra={"k": [1, None, {"é": F(0.5)}], "axes": 7})


def minimal_doc():
    return mk_md(version="0.0", directed=False)


def exhaustive_objects():
    sc = SC()
    out = []
    # every subset of the optional top-level fields
    for mask in range(1 << len(TOP_OPT)):
        on = {f for i, f in enumerate(TOP_OPT) if mask >> i & 1}
        axes = [mk_axis("x", sc["types"][0]), mk_axis("y")] if "axes" in on else None
        hints = {"display_horizontal": "y", "display_vertical": "x", "display_depth": None, "display_time": None} \
            if "display_hints" in on and axes else None
        out.append(("top-subsets", mk_md(
            directed=bool(mask & 1), axes=axes, sphere="r" if "sphere" in on else None, ellipsoid="e" if "ellipsoid" in on else None,
            track={"lineage": "l"} if "track_node_props" in on else None,
            related=[{"type": "image", "path": "p", "label_prop": None}] if "related_objects" in on else None,
            hints=hints, extra={"k": {"n": [1, "é"]}} if "extra" in on else {})))
    # axis fields
    axes = []
    for ty in [None] + sc["types"]:
        for unit in (None, "meter"):
            for mm in (None, (0, 1), (-1.5, -1.5)):
                for scale, su in ((None, None), (2.0, None), (0.5, "minute"), (None, "")):
                    for off in (None, -3.25):
                        axes.append(mk_axis("q", ty, unit, mm[0] if mm else None, mm[1] if mm else None, scale, su, off))
    for u in sc["space"] + sc["time"]:
        axes.append(mk_axis("q", None, u, None, None, 1.0, u))
    for i in range(0, len(axes), 4):
        chunk = [dict(a, name=f"ax{j}") for j, a in enumerate(axes[i:i + 4])]
        out.append(("axis-fields", mk_md(axes=chunk)))
    # property metadata
    pms = []
    for mask in range(16):
        pms.append(mk_pm("p", sc["dtypes"][mask % len(sc["dtypes"])], bool(mask & 1), "u" if mask & 2 else None,
                         "n" if mask & 4 else None, "d" if mask & 8 else None))
    for dt in sc["dtypes"]:
        pms.append(mk_pm("p", dt))
    for i in range(0, len(pms), 3):
        node = {f"p{j}": dict(p, identifier=f"p{j}") for j, p in enumerate(pms[i:i + 3])}
        out.append(("prop-fields", mk_md(node=node, edge=dict(list(node.items())[:1]))))
    # related objects / hints
    rel = [{"type": t, "path": "p", "label_prop": lp} for t, lps in (("labels", [None, "", "l"]), ("image", [None]), ("", [None]), ("foo", [None]))
           for lp in lps]
    out.append(("related-shapes", mk_md(related=rel)))
    out.append(("related-shapes", mk_md(related=[])))
    ax4 = [mk_axis(n) for n in "xyzt"]
    for d in (None, "z"):
        for t in (None, "t"):
            out.append(("hint-shapes", mk_md(axes=ax4, hints={"display_horizontal": "x", "display_vertical": "y", "display_depth": d,
                                                               "display_time": t})))
    return out


# ------------------------------------------------------------------ mutations of a document {"geff": ...}
def sites(root):
    """(kind, path) of every typed object of the document."""
    out = [("root", [])]
    g = root.get("geff")
    if not isinstance(g, dict):
        return out
    out.append(("geff", ["geff"]))
    for i, a in enumerate(g.get("axes") or []):
        if isinstance(a, dict):
            out.append(("axis", ["geff", "axes", i]))
    for f in ("node_props_metadata", "edge_props_metadata"):
        for k, p in (g.get(f) or {}).items():
            if isinstance(p, dict):
                out.append(("pm", ["geff", f, k]))
    for i, r in enumerate(g.get("related_objects") or []):
        if isinstance(r, dict):
            out.append(("related", ["geff", "related_objects", i]))
    if isinstance(g.get("display_hints"), dict):
        out.append(("hints", ["geff", "display_hints"]))
    return out


def at(doc, path):
    for p in path:
        doc = doc[p]
    return doc


def jtype(v):
    if v is None:
        return "null"
    if isinstance(v, bool):
        return "boolean"
    if isinstance(v, int) or is_f(v):
        return "number"
    if isinstance(v, str):
        return "string"
    if isinstance(v, list):
        return "array"
    return "object"


BAD_BY_KEY = {
    ("axis", "type"): ["Space", "angle", "", "SPACE"],
    ("geff", "geff_version"): ["", "v1.3", "1", "1.", "x.1", " 1.2", "1..2"],
    ("pm", "identifier"): [""],
    ("pm", "dtype"): ["", ",", "i4,,", "01i4", "Int8", "float16", "l", "=i4", "U0"],   # schema: any non-empty string; the parser decides
}


def schema_props(kind):
    """property names either schema declares for the definition behind a site kind"""
    names = []
    for s in schemas():
        if not isinstance(s, dict):
            continue
        d = s if SITE_DEF[kind] is None else (s.get("$defs") or {}).get(SITE_DEF[kind])
        if isinstance(d, dict) and isinstance(d.get("properties"), dict):
            for k in d["properties"]:
                if k not in names:
                    names.append(k)
    return names


def all_mutations(root):
    """every single structural mutation: (label, mutated document)"""
    out = []

    def emit(label, path, fn):
        d = copy.deepcopy(root)
        fn(at(d, path))
        out.append((label, d))

    for kind, path in sites(root):
        obj = at(root, path)
        for k in list(obj):
            emit(f"drop:{kind}.{k}", path, lambda o, k=k: o.pop(k))
            for alt in ALT_VALUES:
                if jtype(alt) != jtype(obj[k]):
                    emit(f"type:{kind}.{k}:{jtype(alt)}", path, lambda o, k=k, alt=alt: o.__setitem__(k, copy.deepcopy(alt)))
            for bad in BAD_BY_KEY.get((kind, k), []):
                emit(f"bad:{kind}.{k}", path, lambda o, k=k, bad=bad: o.__setitem__(k, bad))
        emit(f"unknown:{kind}", path, lambda o: o.__setitem__("unknown_key", 1))
        for k in schema_props(kind):
            if k not in obj:
                for alt in ALT_VALUES:
                    emit(f"absent:{kind}.{k}:{jtype(alt)}", path, lambda o, k=k, alt=alt: o.__setitem__(k, copy.deepcopy(alt)))
    g = root.get("geff")
    if isinstance(g, dict):
        t = g.get("track_node_props")
        if isinstance(t, dict):
            for bad in ("Lineage", "", "track"):
                d = copy.deepcopy(root)
                d["geff"]["track_node_props"] = dict(list(t.items()) + [(bad, "v")])
                out.append(("bad:track-key", d))
            for k in t:
                for alt in (None, 7, []):
                    d = copy.deepcopy(root)
                    d["geff"]["track_node_props"][k] = alt
                    out.append(("type:track-value", d))
        else:
            d = copy.deepcopy(root)
            d["geff"]["track_node_props"] = {"Lineage": "v"}
            out.append(("bad:track-key", d))
        for f in ("axes", "related_objects"):
            if isinstance(g.get(f), list):
                for alt in ALT_VALUES[:5]:
                    d = copy.deepcopy(root)
                    d["geff"][f] = list(d["geff"][f]) + [copy.deepcopy(alt)]
                    out.append((f"type:{f}-item", d))
        for f in ("node_props_metadata", "edge_props_metadata"):
            for alt in ALT_VALUES[:5]:
                d = copy.deepcopy(root)
                d["geff"][f] = dict(d["geff"][f], zz=copy.deepcopy(alt))
                out.append((f"type:{f}-value", d))
        d = copy.deepcopy(root)
        d["geff"]["extra"] = dict(d["geff"]["extra"], anything=[None, {"x": F(2.5)}])
        out.append(("free:extra", d))
    for alt in ALT_VALUES:
        out.append(("type:document", copy.deepcopy(alt)))
    return out


# ------------------------------------------------------------------ case streams
def gen_prior(rng):
    r = rng.random()
    if r < 0.12:
        return None  # no group at all
    if r < 0.2:
        return {}
    prior = {}
    items = [("foreign", {"a": [1, 2, {"é": None}]}), ("zz", 1), ("multiscales", [{"version": "0.4", "axes": ["y", "x"]}]),
             ("aa", "ü"), ("big", 2**63), ("f", F(0.5)), ("nested", {"geff": {"directed": "not ours"}}), ("", ""), ("🙂", [True, None])]
    for k, v in rng.sample(items, rng.randrange(1, 5)):
        prior[k] = v
    if rng.random() < 0.35:  # an older geff entry (or garbage under the key) is replaced, in place
        # rich_doc(): an earlier geff entry with every optional field set -- a write of an object in which they are None must clear them
        old = pick(rng, [minimal_doc(), rich_doc(), rich_doc(), {"directed": 1}, [1, 2], "old", None])
        keys = list(prior.items())
        keys.insert(rng.randrange(len(keys) + 1), ("geff", old))
        prior = dict(keys)
    return prior


def object_cases(doc, rng, n_mut, block, cli=False, finite=True):
    tag = {"block": block, "finite": finite}
    yield dict(tag, kind="dump", m=doc, how=rng.choice(HOWS))
    yield dict(tag, kind="text", m=doc, how=rng.choice(HOWS))
    for fmt in (2, 3):
        yield dict(tag, kind="attrs", m=doc, fmt=fmt, prior=gen_prior(rng), how=rng.choice(HOWS))
    r2 = random.Random(json.dumps(doc, sort_keys=True) + block)   # own stream: the cases above stay what they were
    for fmt in (2, 3):
        yield dict(tag, kind="attrsk", m=doc, fmt=fmt, prior=gen_prior(r2), how=r2.choice(HOWS),
                   members=r2.choice([[], ["nodes"], ["nodes", "edges", "other"]]), cons=r2.random() < 0.3)
    if cli and finite:
        yield dict(tag, kind="cli", m=doc, fmt=rng.choice([2, 3]), how=rng.choice(HOWS))
    if not finite:
        return
    yield dict(tag, kind="vobj", m=doc)
    if n_mut:
        muts = all_mutations({"geff": doc})
        if n_mut < len(muts):
            muts = rng.sample(muts, n_mut)
        for label, d in muts:
            yield dict(tag, kind="vdoc", label=label, doc=d)
            if isinstance(d, dict) and isinstance(d.get("geff"), dict) and parse_ok(label):
                yield dict(tag, kind="parse", label=label, doc=d["geff"])


def parse_ok(label):
    # mutations whose parse outcome is inside the modelled coercions (C07); dtype values are (numpy's dtype-string grammar is modelled)
    return not label.startswith("type:root") and not label.startswith("drop:root") \
        and not label.startswith("unknown:root") and not label.startswith("absent:root")


def read_states():
    good = minimal_doc()
    return [None, {}, {"other": 1}, {"geff": good}, {"a": 1, "geff": good, "b": [1]}, {"geff": [1, 2]}, {"geff": "x"}, {"geff": None},
            {"geff": 5}, {"geff": {}}, {"geff": {"directed": True}}, {"geff": dict(good, directed="zz")},
            {"geff": dict(good, axes=[mk_axis("x"), mk_axis("x")])}, {"geff": dict(good, geff_version="nope")},
            {"geff": {k: v for k, v in good.items() if k != "geff_version"}}, {"Geff": good}, {"geff": rich_doc()}]


def generate(rng: random.Random, tier: str):
    quick = tier == "quick"
    for i, (block, doc) in enumerate(exhaustive_objects()):
        yield from object_cases(doc, rng, 4 if quick else 12, block, cli=(i % (16 if quick else 4) == 0))
    for doc, block in ((rich_doc(), "all-mutations-rich"), (minimal_doc(), "all-mutations-minimal")):
        yield from object_cases(doc, rng, 10**9, block, cli=True)
    for st in read_states():
        for fmt in (2, 3):
            yield {"kind": "read", "state": st, "fmt": fmt, "block": "read-states", "finite": True}
    for field in ("sphere", "ellipsoid"):
        yield {"kind": "surrogate", "m": minimal_doc(), "field": field, "block": "lone-surrogate", "finite": True}
    for i in range(120 if quick else 600):
        yield from object_cases(gen_md(rng), rng, 10 if quick else 20, "random", cli=(i % (8 if quick else 5) == 0))
    for i in range(40 if quick else 300):
        doc = gen_md(rng, special=True)
        yield from object_cases(doc, rng, 0, "non-finite", finite=not has_nonfinite(doc))


def search(rng: random.Random, budget_s: float):
    """extra documents when an obligation broke: every mutation of many random documents"""
    while True:
        doc = gen_md(rng)
        yield {"kind": "vobj", "m": doc, "block": "search", "finite": True}
        for label, d in all_mutations({"geff": doc}):
            yield {"kind": "vdoc", "label": label, "doc": d, "block": "search", "finite": True}


# ------------------------------------------------------------------ the reference validator (python3-vt)
_WORKER = None
_WORKER_PID = None


def worker():
    global _WORKER, _WORKER_PID
    if _WORKER is not None and _WORKER_PID == os.getpid() and _WORKER.poll() is None:
        return _WORKER
    from geff_spec._schema import _formatted_schema_json

    try:
        exp_text = _formatted_schema_json()
    except Exception as e:  # the export itself is broken: an unusable schema
        exp_text = json.dumps({"type": f"export failed: {type(e).__name__}"})
    # one file per schema text under the scratch directory (the pool workers exit without running atexit handlers: a temporary
    # directory per worker used to stay behind in /tmp)
    import hashlib

    d = common.WORK / "c08-schemas" / hashlib.sha1(exp_text.encode()).hexdigest()[:16]
    d.mkdir(parents=True, exist_ok=True)
    if not (d / "exported.json").exists():
        tmpf = d / f"exported.{os.getpid()}.tmp"
        tmpf.write_text(exp_text)
        os.replace(tmpf, d / "exported.json")
    pub = common.REPO / "geff-schema.json"
    script = Path(__file__).resolve().parent / "c08_jsonschema_worker.py"
    env = {k: v for k, v in os.environ.items() if not k.startswith("PYTHON")}
    p = subprocess.Popen(["python3-vt", "-u", str(script), str(pub), str(d / "exported.json")], stdin=subprocess.PIPE,
                         stdout=subprocess.PIPE, stderr=subprocess.PIPE, text=True, env=env)
    first = p.stdout.readline().strip()
    if first != "ready":
        raise HarnessError(f"jsonschema worker did not start: {first!r} {p.stderr.read()[-500:]}")
    _WORKER, _WORKER_PID = p, os.getpid()
    atexit.register(p.kill)
    return p


def verdicts(doc) -> dict:
    """verdict of the reference validator on a python document under (published, exported)"""
    p = worker()
    p.stdin.write(json.dumps(doc) + "\n")
    p.stdin.flush()
    line = p.stdout.readline().split()
    if len(line) != 2:
        raise HarnessError(f"jsonschema worker answered {line!r}: {p.stderr.read()[-500:] if p.poll() is not None else ''}")
    dec = {"1": True, "0": False, "E": "unusable-schema"}
    return {"pub": dec[line[0]], "exp": dec[line[1]]}


# ------------------------------------------------------------------ running the implementation
HOWS = ["validate", "validate", "kwargs", "assign", "inplace"]


def build(doc, how="validate"):
    """the GeffMetadata object a canonical document denotes; it must dump to exactly that document.  The same object can come into
    being in several ways: parsed from the document, constructor keywords, a minimal object whose other fields are assigned one by one,
    or a minimal object whose free-form `extra` dict is filled in place (serialisation must not depend on which fields were 'set')"""
    from geff_spec import GeffMetadata

    d = to_py(doc)
    if how == "validate":
        return GeffMetadata.model_validate(d)
    if how == "kwargs":
        return GeffMetadata(**d)
    req = ("directed", "node_props_metadata", "edge_props_metadata")
    m = GeffMetadata(**{k: d[k] for k in req})
    for k, v in d.items():
        if k in req:
            continue
        if k == "extra" and how == "inplace":
            m.extra.update(v)
        elif k in ("axes", "display_hints") and "axes" in d and "display_hints" in d:
            continue  # hints need their axes: assigned together below
        else:
            setattr(m, k, v)
    if "axes" in d and "display_hints" in d:
        m.axes = d["axes"]
        m.display_hints = d["display_hints"]
    return m


def outcome(fn):
    try:
        m = fn()
    except Exception as e:
        return ["err", common.exn_name(e)]
    return ["ok", enc(m.model_dump())]


def same(a, b) -> bool:
    """python equality of two metadata objects (nan != nan, as python has it)"""
    try:
        return bool(a == b)
    except Exception:
        return False


def run_impl(c):
    import zarr
    from geff_spec import GeffMetadata
    from zarr.storage import MemoryStore

    k = c["kind"]
    if k in ("dump", "text", "attrs", "attrsk", "cli", "vobj"):
        try:
            m = build(c["m"], c.get("how", "validate"))
            canon = enc(m.model_dump())
        except Exception as e:  # the model no longer accepts / dumps a document of the format as generated here
            return {"build_error": f"{type(e).__name__}: {str(e)[:200]}"}
    if k == "dump":
        return {"canon": canon, "doc": enc(m.model_dump(mode="json"))}
    if k == "text":
        text = m.model_dump_json()
        back = [None]

        def f():
            back[0] = GeffMetadata.model_validate_json(text)
            return back[0]
        out = outcome(f)
        return {"canon": canon, "doc": enc(json.loads(text)), "back": out, "equal": back[0] is not None and same(back[0], m)}
    if k == "vobj":
        dump = m.model_dump(mode="json")
        v = verdicts({"geff": dump})
        return {"canon": canon, "doc": enc(dump), "pub": v["pub"], "exp": v["exp"]}
    if k == "vdoc":
        v = verdicts(to_py(c["doc"]))
        return {"pub": v["pub"], "exp": v["exp"]}
    if k == "parse":
        return {"back": outcome(lambda: GeffMetadata.model_validate(to_py(c["doc"])))}
    if k == "attrsk":
        from harness import keystore
        from harness.storelib import Interner

        store = MemoryStore()
        fmt_after = 3
        if c["prior"] is not None:
            fmt_after = c["fmt"]
            g = zarr.open_group(store, mode="a", zarr_format=c["fmt"])
            if c["prior"]:
                g.attrs.put(to_py(c["prior"]))
            for i, name in enumerate(c["members"]):
                sub = g.create_group(name)
                sub.attrs["geff"] = {"not": "the root"}
                a = sub.create_array("ids", shape=(3,), dtype="uint8" if i % 2 == 0 else "int64")
                a[:] = [1, 2, 3 + i]
            if c["cons"]:
                zarr.consolidate_metadata(store)
        inter = Interner()
        before = keystore.try_raw_dump(store, inter, c["fmt"] if c["prior"] is not None else 3)
        err = None
        try:
            m.write(store)
        except Exception as e:
            err = common.exn_name(e)
        after = keystore.try_raw_dump(store, inter, fmt_after)
        strict = True
        for kk, buf in store._store_dict.items():
            if kk.split("/")[-1] in keystore.DOC_NAMES:
                try:
                    json.loads(buf.to_bytes().decode("utf8"), parse_constant=lambda x: (_ for _ in ()).throw(ValueError(x)))
                except ValueError:
                    strict = False
        back = [None]

        def f():
            back[0] = GeffMetadata.read(store)
            return back[0]
        out = outcome(f)
        untouched = None
        if before is not None and after is not None:
            b = {"/".join(kc): v for kc, v in before["items"]}
            a = {"/".join(kc): v for kc, v in after["items"]}
            untouched = all(a.get(kk) == v for kk, v in b.items() if kk not in (".zattrs", "zarr.json"))
        return {"canon": canon, "before": before, "after": after, "write_exc": err, "back": out, "strict_json": strict,
                "untouched": untouched, "fmt_after": fmt_after, "equal": back[0] is not None and same(back[0], m)}
    if k == "surrogate":
        # oracle only: a lone surrogate in a str field
        kw = dict(to_py(c["m"]))
        kw[c["field"]] = "a\ud800b"
        res = {}
        try:
            m2 = GeffMetadata.model_validate(kw)
        except Exception as e:
            return {"accepted": False, "exc": type(e).__name__}
        res["accepted"] = True
        for via in ("text", "zarr2", "zarr3"):
            try:
                if via == "text":
                    b = GeffMetadata.model_validate_json(m2.model_dump_json())
                else:
                    st = MemoryStore()
                    zarr.open_group(st, mode="a", zarr_format=int(via[-1]))
                    m2.write(st)
                    b = GeffMetadata.read(st)
                res[via] = "equal" if same(b, m2) else "differs"
            except Exception as e:
                res[via] = type(e).__name__
        return res
    if k in ("attrs", "read"):
        store = MemoryStore()
        prior = c["prior"] if k == "attrs" else c["state"]
        if prior is not None:
            g = zarr.open_group(store, mode="a", zarr_format=c["fmt"])
            if prior:
                g.attrs.put(to_py(prior))
        if k == "read":
            return {"back": outcome(lambda: GeffMetadata.read(store))}
        m.write(store)
        after = dict(zarr.open_group(store, mode="r").attrs)
        back = [None]

        def f():
            back[0] = GeffMetadata.read(store)
            return back[0]
        out = outcome(f)
        return {"canon": canon, "after": enc(after), "back": out, "equal": back[0] is not None and same(back[0], m)}
    if k == "cli":
        from typer.testing import CliRunner

        from geff._cli import app

        d = tempfile.mkdtemp(prefix="c08cli-")
        try:
            path = os.path.join(d, "g.zarr")
            zarr.open_group(path, mode="a", zarr_format=c["fmt"]).attrs["foreign"] = {"a": 1}
            m.write(path)
            r = CliRunner().invoke(app, ["info", path])
            if r.exit_code != 0:
                return {"canon": canon, "exit": r.exit_code, "doc": None, "equal": False}
            text = r.output
            try:
                doc = enc(json.loads(text))
                eq = same(GeffMetadata.model_validate_json(text), m)
            except Exception:
                doc, eq = None, False
            return {"canon": canon, "exit": 0, "doc": doc, "equal": eq}
        finally:
            shutil.rmtree(d, ignore_errors=True)
    raise HarnessError(f"unknown case kind {k}")


# ------------------------------------------------------------------ Coq terms
def c_state(st) -> str:
    return copt(st, lambda a: clist(list(a.items()), lambda kv: f"({cstr(kv[0])}, {to_jv(kv[1])})"))


def c_res_md(r) -> str:
    return f"(Ok {c_md(r[1])})" if r[0] == "ok" else f"(Err {r[1]})"


MISMATCH_TERM = '(IRead ""%string None, OJson JNull)'  # a case that can never agree


def coq_case(c, o):
    try:
        return _coq_case(c, o)
    except (KeyError, TypeError, AttributeError):
        # an observed dump does not have the shape of the format any more (a field removed / renamed in the model):
        # the model and the code disagree, reported as a correspondence mismatch
        return MISMATCH_TERM


def _coq_case(c, o):
    k = c["kind"]
    gv = cstr(SC()["gv"])
    if k in ("dump", "text", "attrs", "attrsk", "cli", "vobj") and ("build_error" in o or o["canon"] != c["m"]):
        # the object does not exist / is not the one the document denotes: the model and the code disagree on the
        # format itself (a field added, removed or renamed); reported as a correspondence mismatch
        return f"(IDump {c_md(c['m'])}, OJson (JStr {cstr('object-differs-from-its-canonical-document')}))"
    if k == "dump":
        return f"(IDump {c_md(c['m'])}, OJson {to_jv(o['doc'])})"
    if k == "cli":
        if o["doc"] is None:
            return f"(ICli {c_md(c['m'])}, OJson JNull)"
        return f"(ICli {c_md(c['m'])}, OJson {to_jv(o['doc'])})"
    if k == "text":
        return f"(IText {gv} {c_md(c['m'])}, OText {to_jv(o['doc'])} {c_res_md(o['back'])})"
    if k == "parse":
        return f"(IParse {gv} {to_jv(c['doc'])}, OParse {c_res_md(o['back'])})"
    if k == "attrs":
        return f"(IAttrs {gv} {c_state(c['prior'])} {c_md(c['m'])}, OAttrs {to_jv(o['after'])} {c_res_md(o['back'])})"
    if k == "read":
        return f"(IRead {gv} {c_state(c['state'])}, OParse {c_res_md(o['back'])})"
    if k == "attrsk":
        from harness import keystore

        if o["before"] is None or o["after"] is None or o["write_exc"] is not None:
            return None   # a key the raw reader cannot decode, or the write raised (the oracle reports that)
        kb, lossy_b = keystore.c_kstore(o["before"])
        ka, lossy_a = keystore.c_kstore(o["after"])
        if lossy_b or lossy_a:
            return None
        return f"(IAttrsK {gv} {kb} {c_md(c['m'])}, OAttrsK {ka} {c_res_md(o['back'])})"
    if k == "surrogate":
        return None
    if k in ("vobj", "vdoc"):
        if not isinstance(o["pub"], bool) or not isinstance(o["exp"], bool):
            return None
        d = {"geff": o["doc"]} if k == "vobj" else c["doc"]
        return f"(IVerdict {to_jv(d)}, OVerdict {cbool(o['pub'])} {cbool(o['exp'])})"
    raise HarnessError(f"unknown case kind {k}")


# ------------------------------------------------------------------ oracle (from the property text)
SURROGATE_STATS = {"cases": 0, "accepted_but_not_serialisable": 0}


def oracle(c, o):
    k = c["kind"]
    if "build_error" in o:
        return None
    if k in ("vobj", "vdoc"):
        for w in ("pub", "exp"):
            if o[w] == "unusable-schema":
                which = "geff-schema.json" if w == "pub" else "the schema exported from the model"
                return Failure(c, o, f"{which} is not a usable JSON Schema", {"why": "unusable-schema", "which": w})
        if k == "vobj" and o["pub"] is not True:
            return Failure(c, o, "the serialised form of a valid metadata object is rejected by the published geff-schema.json",
                           {"why": "serialised-form-invalid"})
        if o["pub"] != o["exp"]:
            return Failure(c, o, f"published schema says {o['pub']}, schema exported from the model says {o['exp']}",
                           {"why": "schema-drift", "label": c.get("label", "valid-object").split(":")[0]})
        return None
    if k == "surrogate":
        # a python str holding a lone surrogate is not Unicode text (it has no UTF-8 encoding): outside "for all valid metadata objects
        # (... unicode)"; the cases are run and counted (what the implementation does is recorded in the evidence), no verdict is demanded
        SURROGATE_STATS["cases"] += 1
        SURROGATE_STATS["accepted_but_not_serialisable"] += bool(o.get("accepted") and any(o[v] != "equal" for v in ("text", "zarr2", "zarr3")))
        return None
    if k == "surrogate-judged":
        if o.get("accepted") and any(o[v] != "equal" for v in ("text", "zarr2", "zarr3")):
            bad = sorted(v for v in ("text", "zarr2", "zarr3") if o[v] != "equal")
            return Failure(c, o, f"GeffMetadata accepts {c['field']}='a\\ud800b' (a lone surrogate) but the object does not survive {bad}: "
                                 f"{ {v: o[v] for v in bad} }", {"why": "roundtrip", "via": bad[0], "surrogate": True})
        return None
    if k == "attrsk":
        if o["write_exc"] is not None:
            return Failure(c, o, f"GeffMetadata.write raised {o['write_exc']} on a store whose root is absent or a group", {"why": "write-raises"})
        if o["untouched"] is False:
            return Failure(c, o, "GeffMetadata.write changed a key other than the root's attribute document", {"why": "foreign-keys", "via": f"zarr{c['fmt']}"})
    if not c.get("finite", True):
        return None
    if k == "attrsk":
        if o["back"][0] != "ok" or not o["equal"]:
            return Failure(c, o, f"GeffMetadata.read after write (zarr {c['fmt']}, store with members) does not return an equal object",
                           {"why": "roundtrip", "via": f"zarr{c['fmt']}"})
        if not o["strict_json"]:
            return Failure(c, o, "a metadata document of the store is not JSON (Infinity / NaN literal)", {"why": "invalid-json-document"})
        return None
    if k == "text":
        if o["back"][0] != "ok" or not o["equal"]:
            return Failure(c, o, "model_validate_json(model_dump_json()) does not return an equal object", {"why": "roundtrip", "via": "text"})
    if k == "cli":
        if o["exit"] != 0 or not o["equal"]:
            return Failure(c, o, "`geff info` does not print a document that parses back to an equal object", {"why": "roundtrip", "via": "cli"})
    if k == "attrs":
        if o["back"][0] != "ok" or not o["equal"]:
            return Failure(c, o, f"GeffMetadata.read after write (zarr {c['fmt']}) does not return an equal object",
                           {"why": "roundtrip", "via": f"zarr{c['fmt']}"})
        after = to_py(o["after"])
        for key, v in (to_py(c["prior"]) or {}).items():
            if key != "geff" and (key not in after or after[key] != v):
                return Failure(c, o, f"foreign attribute {key!r} was not preserved by GeffMetadata.write",
                               {"why": "foreign-attrs", "via": f"zarr{c['fmt']}"})
    return None


def nontrivial(c, o):
    if c["kind"] in ("vdoc", "parse", "read", "surrogate"):
        return True
    m = c["m"]
    return bool(m["axes"] or m["node_props_metadata"] or m["edge_props_metadata"] or m["related_objects"] or m["extra"])


def describe(c, o):
    k = c["kind"]
    s = f"{k}/{c.get('block')}"
    if "build_error" in o:
        return s + "/build-error"
    if k == "vdoc":
        s += f"/{c['label'].split(':')[0]}/pub={o['pub']}"
    elif k in ("parse", "read"):
        s += f"/{o['back'][0] if o['back'][0] == 'ok' else o['back'][1]}"
    elif k == "surrogate":
        s += f"/{c['field']}"
    elif k == "attrsk":
        s += f"/zarr{c['fmt']}/members={len(c['members'])}/cons={c['cons']}/{'no-group' if c['prior'] is None else 'group'}"
    elif k == "attrs":
        s += f"/zarr{c['fmt']}/{'no-group' if c['prior'] is None else ('old-geff' if 'geff' in c['prior'] else 'foreign')}"
    if not c.get("finite", True):
        s += "/non-finite"
    return s


def extra_coverage():
    from harness import translate_schema

    return {"schema_translator_refusal": translate_schema.LAST_ERROR, "lone_surrogate_cases_outside_the_quantifier": dict(SURROGATE_STATS)}
