"""Harvested corpus: the calls of the modelled functions made by the REPOSITORY'S OWN test suite, replayed against the Coq models.

    ./check --harvest [--rerun]        run the repository's tests with harness/harvest_plugin.py, convert, evaluate in Coq, report
    common.run_property(..., tier="thorough")  ->  harvest.replay_property(prop): the harvested cases of that property

A record of the plugin becomes a case / observation in the encoding of the owning driver (harness/cNN.py); the Coq term is printed by
that driver's own `coq_case` (store-side entry points: by the same printers, at record time, because string payloads are interned per
call), evaluated with `common.coq_eval_cases` against the unchanged `Corr/CNN.v`, and judged by the driver's own `oracle` wherever the
oracle's preconditions hold for the recorded input.  Calls outside a model's encoding are counted and skipped with the reason.
"""
from __future__ import annotations

import fcntl
import hashlib
import json
import os
import subprocess
import sys
import time
from collections import Counter, defaultdict
from fractions import Fraction
from pathlib import Path

import numpy as np

from harness import common
from harness.common import WORK, HarnessError

HARVEST = WORK / "harvest"
TERM_LIMIT = 400_000   # characters of one Coq term (larger cases are skipped: 'too large')
TEST_ARGS = ["packages/geff/tests", "packages/geff-spec/tests", "--ignore=packages/geff/tests/test_cli.py"]


class Skip(Exception):
    pass


# function -> (owning property, what the case is)
FUNCTIONS = {
    "write_arrays": ["C06", "C10"],
    "validate_structure": ["C04"],
    "read_to_memory": ["C09"],
    "GeffReader": ["C09"],
    "serialize_vlen_property_data": ["C11"],
    "deserialize_vlen_property_data": ["C11"],
    "construct_var_len_props": ["C11"],
    "validate_unique_node_ids": ["C12"],
    "validate_nodes_for_edges": ["C12"],
    "validate_no_self_edges": ["C12"],
    "validate_no_repeated_edges": ["C12"],
    "validate_data": ["C12"],
    "validate_sphere": ["C12"],
    "validate_ellipsoid": ["C12"],
    "validate_tracklets": ["C13"],
    "validate_lineages": ["C14"],
    "has_valid_seg_id": ["C19"],
    "axes_match_seg_dims": ["C19"],
    "graph_is_in_seg_bounds": ["C19"],
    "has_seg_ids_at_time_points": ["C19"],
    "has_seg_ids_at_coords": ["C19"],
    "geff_to_dataframes": ["C17"],
    "GeffMetadata.__init__": ["C07"],
    "GeffMetadata.model_validate": ["C07"],
    "GeffMetadata.model_validate_json": ["C07"],
    "GeffMetadata.__setattr__": ["C07"],
    "update_metadata_axes": ["C07"],
    "create_or_update_metadata": ["C07"],
    "add_or_update_props_metadata": ["C07"],
    "axes_from_lists": ["C07"],
    "dummy": ["C20"], "mock": ["C20"], "create_simple2d": ["C20"], "create_simple3d": ["C20"], "create_temporal": ["C20"],
    "create_empty": ["C20"],
}
PRETTY = {"dummy": "create_dummy_in_mem_geff", "mock": "create_mock_geff", "create_simple2d": "create_simple_2d_geff",
          "create_simple3d": "create_simple_3d_geff", "create_temporal": "create_simple_temporal_geff", "create_empty": "create_empty_geff",
          "GeffReader": "GeffReader (init, read_*_props, build)"}
PROPS = sorted({p for ps in FUNCTIONS.values() for p in ps})
REPLAYABLE = {"C07", "C11", "C12", "C13", "C14", "C17", "C19", "C20"}
# functions that call no other harvested function: a test that replaces some OTHER geff function by a mock leaves them genuine
LEAVES = {"serialize_vlen_property_data", "deserialize_vlen_property_data", "construct_var_len_props", "validate_unique_node_ids",
          "validate_nodes_for_edges", "validate_no_self_edges", "validate_no_repeated_edges", "validate_sphere", "validate_ellipsoid",
          "validate_tracklets", "validate_lineages", "has_valid_seg_id", "axes_match_seg_dims", "graph_is_in_seg_bounds",
          "has_seg_ids_at_time_points", "has_seg_ids_at_coords"}


# ----------------------------------------------------------------------------------------------------------------
# decoding the raw records
# ----------------------------------------------------------------------------------------------------------------
def dec_nd(d) -> np.ndarray:
    if d.get("big"):
        raise Skip("array too large to record")
    if d.get("masked"):
        raise Skip("masked array")
    if d.get("opaque"):
        raise Skip(f"array dtype {d['np']} outside the models")
    if d["dtype"] == "object":
        a = np.empty(len(d["elems"]), dtype=object)
        for i, e in enumerate(d["elems"]):
            a[i] = dec_any(e)
        return a.reshape(d["shape"])
    if d["dtype"] == "str":
        a = np.array(d["data"], dtype=str) if d["data"] else np.empty(0, dtype="<U1")
    elif d["dtype"] == "bytes":
        a = np.array([x.encode("latin1") for x in d["data"]], dtype="S") if d["data"] else np.empty(0, dtype="S1")
    else:
        a = np.array(d["data"], dtype=d["dtype"])
    return a.reshape(d["shape"])


class Model(dict):
    """a recorded pydantic object: its model_dump()"""
    cls = ""


def dec_any(x):
    if x is None or isinstance(x, (bool, int, float, str)):
        return x
    if isinstance(x, dict):
        if "nd" in x:
            return dec_nd(x["nd"])
        if "npscalar" in x:
            if x["npscalar"] in ("str", "bytes", "object") or isinstance(x["v"], str) and x["npscalar"] != "str":
                return x["v"]
            return np.dtype(x["npscalar"]).type(x["v"])
        if "list" in x:
            return [dec_any(v) for v in x["list"]]
        if "tuple" in x:
            return tuple(dec_any(v) for v in x["tuple"])
        if "dict" in x:
            out = {}
            for k, v in x["dict"]:
                k = dec_any(k)
                if not isinstance(k, (str, int, bool, float, tuple)) and k is not None:
                    raise Skip("unhashable / exotic dict key")
                out[k] = dec_any(v)
            return out
        if "model" in x:
            m = Model(dec_any(x["dump"]))
            m.cls = x["model"]
            return m
        if "bytes" in x:
            return x["bytes"].encode("latin1")
        if "path" in x:
            return Path(x["path"])
        if "repr" in x:
            raise Skip(f"argument of type {x.get('type', '?')} outside the encodings")
    raise Skip("unknown record value")


def dyadic(x, scale=1024) -> int:
    f = Fraction(x) * scale
    if f.denominator != 1:
        raise Skip(f"float {x!r} is not a multiple of 1/{scale}")
    return int(f)


def out_of(rec):
    """('ok', value) or ('err', exn name)"""
    o = rec["out"]
    if "exc" in o:
        return ("err", o["exc"])
    return ("ok", dec_any(o["ok"]))


def int_array(a, what):
    a = np.asarray(a) if not isinstance(a, np.ndarray) else a
    if a.dtype.kind not in "iu":
        raise Skip(f"{what}: dtype {a.dtype} is not an integer dtype")
    return a


# ----------------------------------------------------------------------------------------------------------------
# converters: record -> list of items {prop, case, obs, oracle}
# ----------------------------------------------------------------------------------------------------------------
def item(prop, case, obs, oracle=True, term=None):
    return {"prop": prop, "case": case, "obs": obs, "oracle": oracle, "term": term}


# ---- C12 -------------------------------------------------------------------------------------------------------
def conv_graph_validator(rec):
    fn = rec["fn"]
    a = {k: dec_any(v) for k, v in rec["args"].items()}
    r = out_of(rec)
    kind = {"validate_unique_node_ids": "unique", "validate_nodes_for_edges": "nodes_for_edges", "validate_no_self_edges": "self",
            "validate_no_repeated_edges": "repeated"}[fn]
    c = {"kind": kind}
    if "node_ids" in a:
        ids = int_array(a["node_ids"], "node ids")
        if ids.ndim != 1:
            raise Skip("node ids are not 1-D")
        c["ids"], c["dt"] = [int(x) for x in ids.tolist()], common.dtype_name(ids.dtype)
    if "edge_ids" in a:
        e = int_array(a["edge_ids"], "edge ids")
        if e.ndim != 2 or e.shape[1] != 2:
            raise Skip("edge ids are not (E, 2)")
        c["edges"], c["dt"] = [[int(x), int(y)] for x, y in e.tolist()], common.dtype_name(e.dtype)
    if r[0] == "err":
        o = ["err", r[1]]
    else:
        ok, bad = r[1]
        bad = np.asarray(bad)
        if kind in ("unique", "self"):
            o = ["ok", bool(ok), [int(x) for x in bad.tolist()]]
        else:
            o = ["ok", bool(ok), [[int(x), int(y)] for x, y in bad.reshape(-1, 2).tolist()]]
    return [item("C12", c, o)]


def scaled_ints(vals):
    """integers as themselves; dyadic floats scaled by 2^10 (the modelled predicates -- sign, symmetry, leading minors > 0 -- are
    invariant under a positive scalar); returns (ints, scaled?)"""
    vals = list(vals)
    if all(float(v) == int(v) for v in vals if v == v and abs(v) != float("inf")) and all(v == v and abs(v) != float("inf") for v in vals):
        return [int(v) for v in vals], False
    for v in vals:
        if v != v or abs(v) == float("inf"):
            raise Skip("non-finite value in a shape property")
    return [dyadic(v) for v in vals], True


def sphere_case(values, missing):
    v = np.asarray(values)
    if v.dtype.kind not in "iuf":
        raise Skip("radius dtype is not numeric")
    n = v.shape[0] if v.ndim else 0
    if v.ndim == 0:
        raise Skip("0-d radius")
    # rank 1: the radii; any other rank: only the rank enters the model (the driver prints every second entry as don't-care rows)
    vals, _ = scaled_ints(v.ravel().tolist())
    shape = [int(x) for x in v.shape]
    return {"shape": shape, "vals": vals, "float": v.dtype.kind == "f", "missing": None if missing is None else [bool(b) for b in missing]}


def ellipsoid_case(values, missing, axes=None):
    from harness import c12

    v = np.asarray(values)
    if v.dtype.kind not in "iuf":
        raise Skip("covariance dtype is not numeric")
    if v.ndim < 2 or v.ndim > 4:
        raise Skip("covariance rank outside the driver's encoding")
    flat, _ = scaled_ints(v.ravel().tolist())
    arr = np.array(flat, dtype=object).reshape(v.shape)
    mats = arr.tolist()
    nspace = sum(1 for t in (axes or []) if t == "space")
    miss = [False] * v.shape[0] if missing is None else [bool(b) for b in missing]
    if v.ndim == 3 and v.shape[1] == v.shape[2] == nspace and nspace > 0:
        present = [m for m, ms in zip(mats, miss) if not ms]
        if all(c12.is_sym(m) for m in present) and any(c12.ambiguous(m) for m in present):
            # every earlier test passes, so the verdict hangs on eigenvalues that are exactly zero
            raise Skip("covariance matrix on the boundary of the positive-definite cone (outside the claim: 'clearly inside or outside')")
    return {"shape": list(v.shape), "mats": mats, "missing": None if missing is None else [bool(b) for b in missing]}


def axes_types(md):
    return [a.get("type") for a in (md.get("axes") or [])]


def conv_validate_data(rec):
    a = {k: dec_any(v) for k, v in rec["args"].items()}
    g, cfg = a["memory_geff"], a["config"]
    if not isinstance(g, dict) or not isinstance(g.get("metadata"), Model) or not isinstance(cfg, Model):
        raise Skip("arguments are not (InMemoryGeff, ValidationConfig)")
    md = g["metadata"]
    r = out_of(rec)
    ids = int_array(g["node_ids"], "node ids")
    edges = int_array(g["edge_ids"], "edge ids")
    if edges.ndim != 2 or edges.shape[1] != 2:
        raise Skip("edge ids are not (E, 2)")
    c = {"kind": "data", "cfg": [bool(cfg[k]) for k in ("graph", "sphere", "ellipsoid", "lineage", "tracklet")], "directed": bool(md["directed"]),
         "dt": common.dtype_name(ids.dtype), "ids": [int(x) for x in ids.tolist()], "edges": [[int(x), int(y)] for x, y in edges.tolist()],
         "axes": axes_types(md), "sphere": None, "ellipsoid": None, "track": None}
    props = g["node_props"]
    if md.get("sphere") is not None:
        if md["sphere"] not in props:
            raise Skip("declared sphere property is absent (KeyError path is outside the driver's encoding)")
        p = props[md["sphere"]]
        c["sphere"] = sphere_case(p["values"], p["missing"])
    if md.get("ellipsoid") is not None:
        if md["ellipsoid"] not in props:
            raise Skip("declared ellipsoid property is absent")
        p = props[md["ellipsoid"]]
        c["ellipsoid"] = ellipsoid_case(p["values"], p["missing"], axes_types(md))
    tnp = md.get("track_node_props")
    if tnp:
        tr = {}
        for k in ("tracklet", "lineage"):
            if k in tnp:
                if tnp[k] not in props:
                    raise Skip("declared track property is absent")
                tr[k] = [int(x) for x in np.asarray(props[tnp[k]]["values"]).tolist()]
            else:
                tr[k] = None
        c["track"] = tr
    o = c12_obs(rec, r)
    # the oracle's reading of track validation is "may fail"; applicable as it is
    return [item("C12", c, o)]


def c12_obs(rec, r):
    """observation of a C12 `data` case: [ok|err, class, None, which raise statement fired (from the recorded message, as harness/c12.py
    reads it off the live exception)]"""
    if r[0] == "ok":
        return ["ok", "", None]
    from harness import c12

    msg = rec["out"].get("msg", "")
    if r[1] == "KeyError":
        fault = "FKey"
    elif r[1] == "IndexError":
        fault = "FIndex"
    elif r[1] == "ValueError":
        fault = next((f for pat, f in c12.FAULTS if pat in msg), "FUnknown")
    else:
        fault = "FUnknown"
    return ["err", r[1], None, fault]


def conv_sphere(rec):
    """validate_sphere(radius) = validate_data with only the sphere check enabled, the property declared and nothing missing"""
    a = {k: dec_any(v) for k, v in rec["args"].items()}
    r = out_of(rec)
    if not isinstance(a["radius"], np.ndarray):
        raise Skip("radius is not an ndarray")
    s = sphere_case(a["radius"], None)
    n = s["shape"][0]
    c = {"kind": "data", "cfg": [False, True, False, False, False], "directed": True, "dt": "uint64", "ids": list(range(n)), "edges": [],
         "axes": [], "sphere": s, "ellipsoid": None, "track": None}
    return [item("C12", c, c12_obs(rec, r))]


def conv_ellipsoid(rec):
    a = {k: dec_any(v) for k, v in rec["args"].items()}
    r = out_of(rec)
    if not isinstance(a["covariance"], np.ndarray):
        raise Skip("covariance is not an ndarray")
    axes = a["axes"]
    if axes is not None and not all(isinstance(x, Model) for x in axes):
        raise Skip("axes are not Axis objects")
    e = ellipsoid_case(a["covariance"], None, [x.get("type") for x in (axes or [])])
    n = e["shape"][0]
    c = {"kind": "data", "cfg": [False, False, True, False, False], "directed": True, "dt": "uint64", "ids": list(range(n)), "edges": [],
         "axes": [x.get("type") for x in (axes or [])], "sphere": None, "ellipsoid": e, "track": None}
    return [item("C12", c, c12_obs(rec, r))]


# ---- C13 / C14 -------------------------------------------------------------------------------------------------
def conv_tracks(rec):
    from harness.tracks_gen import is_dag, named_ids, parsed_msgs

    fn = rec["fn"]
    a = {k: dec_any(v) for k, v in rec["args"].items()}
    names = list(a)
    nodes = int_array(a[names[0]], "node ids")
    e_raw = np.asarray(a[names[1]])
    edges = np.empty((0, 2), dtype="int64") if e_raw.size == 0 else int_array(a[names[1]], "edge ids")   # np.array([]) is float64
    labels = int_array(a[names[2]], "track ids")
    if nodes.ndim != 1 or labels.ndim != 1 or nodes.shape != labels.shape or edges.ndim != 2 or (edges.size and edges.shape[1] != 2):
        raise Skip("array shapes outside the driver's encoding")
    r = out_of(rec)
    word = "Tracklet" if fn == "validate_tracklets" else "Lineage"
    c = {"kind": "tracklets" if word == "Tracklet" else "lineages", "nodes": [int(x) for x in nodes.tolist()],
         "edges": [[int(x), int(y)] for x, y in edges.reshape(-1, 2).tolist()], "labels": [int(x) for x in labels.tolist()]}
    if r[0] == "err":
        o = {"exc": r[1]}
    else:
        valid, errors = r[1]
        o = {"valid": bool(valid), "named": named_ids(list(errors), word, set(c["labels"]))}
        if word == "Tracklet":
            o["msgs"] = parsed_msgs(list(errors))
    # the oracles (and the theorems) assume unique node ids and edges that join listed nodes; C13's model with the cycle test
    # (ITrackletsAll) takes any graph, the model without it (ITrackletsDag) only acyclic ones
    idx = {x: i for i, x in enumerate(c["nodes"])}
    ok = len(idx) == len(c["nodes"])
    if word == "Tracklet":
        ok = ok and all(x in idx and y in idx for x, y in c["edges"])
        if not (ok and is_dag(len(idx), [(idx[x], idx[y]) for x, y in {tuple(e) for e in c["edges"]}])):
            c["kind"] = "tracklets_all"
    return [item("C13" if word == "Tracklet" else "C14", c, o, oracle=ok)]


# ---- C11 -------------------------------------------------------------------------------------------------------
def c11_elem(x):
    """one ndarray -> element of a C11 case (the driver's own abstraction: dtype with byte order / width, shape, payload)"""
    from harness import c11

    if not isinstance(x, np.ndarray):
        raise Skip("element is not an ndarray")
    try:
        return c11.xabstract(x)
    except (HarnessError, KeyError, ValueError, TypeError) as e:
        raise Skip(f"element outside the driver's encoding: {e}") from None


def conv_serialize(rec):
    from harness import c11

    a = dec_any(rec["args"]["prop_dict"])
    if not isinstance(a, dict) or not isinstance(a.get("values"), np.ndarray) or a["values"].dtype != object or a["values"].ndim != 1:
        raise Skip("values is not a 1-D object array")
    vals = [c11_elem(x) for x in a["values"]]
    miss = a.get("missing")
    c = {"kind": "ser", "vals": vals, "missing": None if miss is None else [bool(b) for b in np.asarray(miss).tolist()]}
    r = out_of(rec)
    if r[0] == "err":
        o = ["err", r[1]]
    else:
        values, m, data = r[1]
        try:
            o = ["ok", values.tolist() if values.ndim == 2 else [], c11.miss_list(m), c11.enc_flat(data), c11.xdt_of(data.dtype), str(values.dtype)]
        except (HarnessError, KeyError, ValueError, TypeError) as e:
            raise Skip(f"output outside the driver's encoding: {e}") from None
    return [item("C11", c, o)]


def conv_deserialize(rec):
    from harness import c11

    a = {k: dec_any(v) for k, v in rec["args"].items()}
    values, data = a["values"], a["data"]
    if not isinstance(values, np.ndarray) or not isinstance(data, np.ndarray) or values.ndim != 2 or data.ndim != 1:
        raise Skip("values / data are not arrays of rank 2 / 1")
    if values.dtype.kind not in "iu":
        raise Skip("table dtype outside the model")
    miss = a.get("missing")
    try:
        c = {"kind": "deser", "rows": [[int(x) for x in row] for row in values.tolist()], "data": c11.enc_flat(data), "xdt": c11.xdt_of(data.dtype),
             "missing": None if miss is None else [bool(b) for b in np.asarray(miss).tolist()]}
    except (HarnessError, KeyError, ValueError, TypeError) as e:
        raise Skip(f"data outside the driver's encoding: {e}") from None
    r = out_of(rec)
    if r[0] == "err":
        o = ["err", r[1]]
    else:
        try:
            el = c11.obs_elems(None, list(r[1]["values"]))
        except (HarnessError, KeyError, ValueError, TypeError) as e:
            raise Skip(f"output outside the driver's encoding: {e}") from None
        o = ["err", "OtherExn"] if el is None else ["ok", el, c11.miss_list(r[1]["missing"])]
    # the driver's 'deser' kind has no oracle (the round trip is judged on 'rt' cases)
    return [item("C11", c, o)]


def conv_construct(rec):
    from harness import c11

    seq_in = dec_any(rec["args"]["arr_seq"])
    if isinstance(seq_in, np.ndarray):
        seq_in = list(seq_in) if seq_in.dtype == object else [x for x in seq_in]
    if not isinstance(seq_in, (list, tuple)):
        raise Skip("sequence argument is not a list / tuple / array")
    seq = []
    for x in seq_in:
        if x is None:
            seq.append(None)
        elif isinstance(x, np.ndarray):
            seq.append(c11_elem(x))
        elif isinstance(x, np.generic):
            seq.append(c11_elem(np.asarray(x)))
        elif isinstance(x, (list, tuple, int, float, bool, str)):
            seq.append({"py": list(x) if isinstance(x, tuple) else x})
        else:
            raise Skip("sequence element outside the driver's encoding")
    c = {"kind": "cons", "seq": seq}
    r = out_of(rec)
    if r[0] == "err":
        o = ["err", r[1]]
    else:
        d = r[1]
        try:
            el = c11.obs_elems(seq, list(d["values"]))
        except (HarnessError, KeyError, ValueError, TypeError) as e:
            raise Skip(f"output outside the driver's encoding: {e}") from None
        o = ["err", "OtherExn"] if el is None else ["ok", el, c11.miss_list(d["missing"])]
    # what the model starts from (np.asarray of nested python lists) must be inside the encoding too
    try:
        for x in seq:
            if x is not None and "py" in x:
                c11.xabstract(c11.as_array(x))
    except (HarnessError, KeyError, ValueError, TypeError) as e:
        raise Skip(f"python value outside the driver's encoding: {e}") from None
    return [item("C11", c, o)]


# ---- C19 -------------------------------------------------------------------------------------------------------
def seg_of(x):
    seg = np.asanyarray(x) if not isinstance(x, np.ndarray) else x
    if seg.dtype.kind not in "iu":
        raise Skip("segmentation is not an integer array")
    return seg


def c19_axes(md):
    """axes of a recorded metadata object as the driver's [type, max] pairs (None: no axes); a min below 0 would be dropped by the
    driver's run_impl, but the model reads the type and the max only"""
    axes = md.get("axes")
    if axes is None:
        return None
    out = []
    for a in axes:
        m = a.get("max")
        if m is not None:
            if m != m or abs(m) == float("inf"):
                raise Skip("non-finite axis max")
            dyadic(m)
            m = int(m) if float(m) == int(m) else m
        out.append([a.get("type"), m])
    return out


def c19_result(rec, coords_passed=None):
    from harness import c19

    r = out_of(rec)
    if r[0] == "err":
        return ["err", r[1], rec["out"].get("exc_type", r[1])]
    v = r[1]
    if not (isinstance(v, tuple) and len(v) == 2 and isinstance(v[0], (bool, np.bool_)) and isinstance(v[1], list) and all(isinstance(m, str) for m in v[1])):
        return ["shape", repr(v)[:200]]
    return ["ok", bool(v[0]), [c19.parse_message(m, coords_passed) for m in v[1]], [m[:160] for m in v[1][:3]]]


def conv_seg(rec):
    fn = rec["fn"]
    raw_seg = rec["args"].get("segmentation")
    shape_only = fn in ("axes_match_seg_dims", "graph_is_in_seg_bounds") and isinstance(raw_seg, dict) and "nd" in raw_seg
    a = {k: dec_any(v) for k, v in rec["args"].items() if not (shape_only and k == "segmentation")}
    if shape_only:  # only the shape of the volume enters these two checks (volumes of any size)
        shp = raw_seg["nd"]["shape"]
        a["segmentation"] = np.lib.stride_tricks.as_strided(np.zeros(1, dtype="int8"), shape=shp, strides=[0] * len(shp))
    if fn == "has_valid_seg_id":
        g = a["memory_geff"]
        props = []
        for name, p in g["node_props"].items():
            v = p["values"]
            if not isinstance(v, np.ndarray):
                raise Skip("property values are not an ndarray")
            miss = p["missing"]
            props.append([name, v.dtype.str.lstrip("<>|=") if v.dtype.kind in "USO" else v.dtype.name, None if miss is None else [bool(b) for b in np.asarray(miss).tolist()]])
        key = a["seg_id"]
        c = {"kind": "segid", "props": props, "key": None if key == "seg_id" else key, "n": int(len(g["node_ids"]))}
        return [item("C19", c, c19_result(rec))]
    if fn in ("axes_match_seg_dims", "graph_is_in_seg_bounds"):
        g = a["memory_geff"]
        seg = np.asanyarray(a["segmentation"]) if not isinstance(a["segmentation"], np.ndarray) else a["segmentation"]
        if any(s > 4000 for s in seg.shape):
            raise Skip("segmentation axis longer than the nat-literal limit")
        axes = c19_axes(g["metadata"])
        if fn == "axes_match_seg_dims":
            c = {"kind": "axes", "axes": axes, "shape": list(seg.shape), "as_list": False}
        else:
            sc = a["scale"]
            if sc is not None:
                sc = [x.item() if isinstance(x, np.generic) else x for x in sc]
                for x in sc:
                    if isinstance(x, bool) or not isinstance(x, (int, float)) or x != x or abs(x) == float("inf"):
                        raise Skip("scale entry is not a finite number")
                    dyadic(x)
            c = {"kind": "bounds", "axes": axes, "shape": list(seg.shape), "scale": sc}
        return [item("C19", c, c19_result(rec))]
    seg = seg_of(a["segmentation"])
    if seg.size > 6000 or any(s > 4000 for s in seg.shape):
        raise Skip("segmentation volume too large for a Coq term")
    vol = {"shape": list(seg.shape), "data": [int(x) for x in seg.ravel().tolist()], "dtype": common.dtype_name(seg.dtype)}

    def ints(xs, what):
        xs = xs.tolist() if isinstance(xs, np.ndarray) else list(xs)
        out = []
        for x in xs:
            x = x.item() if isinstance(x, np.generic) else x
            if isinstance(x, bool) or not isinstance(x, int):
                raise Skip(f"{what} are not integers")
            out.append(x)
        return out

    if fn == "has_seg_ids_at_time_points":
        md = a["metadata"]
        if md is None:
            mdc = "none"
        else:
            ax = c19_axes(md)
            mdc = "noaxes" if ax is None else ax
            if ax is not None and len(ax) == 0:
                raise Skip("metadata with an empty axes list")
        c = dict(vol, kind="tp", tps=ints(a["time_points"], "time points"), ids=ints(a["seg_ids"], "seg ids"), md=mdc)
        return [item("C19", c, c19_result(rec))]
    coords = a["coords"]
    coords = coords.tolist() if isinstance(coords, np.ndarray) else list(coords)
    cs = []
    for co in coords:
        co = co.tolist() if isinstance(co, np.ndarray) else list(co)
        row = []
        for x in co:
            x = x.item() if isinstance(x, np.generic) else x
            if isinstance(x, bool) or not isinstance(x, (int, float)) or x != x or abs(x) == float("inf"):
                raise Skip("coordinate is not a finite number")
            dyadic(x)
            row.append(x)
        cs.append(row)
    sc = a["scale"]
    if sc is not None:
        sc = [x.item() if isinstance(x, np.generic) else x for x in sc]
        for x in sc:
            if isinstance(x, bool) or not isinstance(x, (int, float)) or x != x or abs(x) == float("inf"):
                raise Skip("scale entry is not a finite number")
            dyadic(x)
    tuples = bool(coords) and isinstance(dec_any(rec["args"]["coords"]), list) and isinstance(dec_any(rec["args"]["coords"])[0], tuple)
    c = dict(vol, kind="coords", coords=cs, ids=ints(a["seg_ids"], "seg ids"), scale=sc, tuples=tuples)
    passed = [tuple(co) for co in cs] if tuples else [list(co) for co in cs]
    return [item("C19", c, c19_result(rec, passed))]


# ---- C17 -------------------------------------------------------------------------------------------------------
def conv_frames(rec):
    from harness import c17

    g = rec["graph"]
    ids, edges = dec_nd(g["ids"]), dec_nd(g["edges"])
    if ids.dtype.kind not in "iu" or edges.ndim != 2:
        raise Skip("stored ids are not integer arrays of shape (N,), (E, 2)")

    def props(ps):
        out = []
        for p in ps:
            if p["varlen"]:
                raise Skip("variable-length property (outside the table model)")
            v = dec_nd(p["values"])
            dt = common.dtype_name(v.dtype)
            if dt not in c17.ALL_DTYPES:
                raise Skip(f"property dtype {dt} outside the table model")
            if any(ord(ch) < 32 for ch in p["name"]):
                raise Skip("control character in a property name")
            m = None if p["missing"] is None else [bool(b) for b in dec_nd(p["missing"]).tolist()]
            vals = v.ravel().tolist()
            out.append({"name": p["name"], "dtype": dt, "shape": list(v.shape), "values": vals, "missing": m})
        return out

    c = {"kind": "frames", "ids": [int(x) for x in ids.tolist()], "id_dtype": common.dtype_name(ids.dtype),
         "edges": [[int(x), int(y)] for x, y in edges.tolist()], "nprops": props(g["nprops"]), "eprops": props(g["eprops"]), "zf": 2}
    if "exc" in rec["out"]:
        o = {"res": "err", "exc": rec["out"]["exc"], "msg": rec["out"].get("msg"), "order": g["order"]}
    else:
        wn, we, wo = [], [], []
        for msg, cat in rec.get("warnings", []):
            m = c17.WARN_RE.match(msg)
            if m and cat == "UserWarning":
                (wn if m.group(1) == "node" else we).append(m.group(2))
            else:
                wo.append(msg[:80])
        o = {"res": "ok", "nodes": rec["frames"]["nodes"], "edges": rec["frames"]["edges"], "warn_nodes": wn, "warn_edges": we,
             "warn_other": wo, "order": g["order"]}
    return [item("C17", c, o)]


# ---- C20 -------------------------------------------------------------------------------------------------------
def c20_extras(x):
    """(items, kind)"""
    if x is None:
        return None, None
    kind = None
    if isinstance(x, (list, tuple)):
        try:
            pairs = [(k, v) for k, v in x]
        except Exception:  # noqa: BLE001
            raise Skip("extra properties given as a non-dict that is not a list of pairs") from None
        kind = "list"
    elif isinstance(x, dict):
        pairs = list(x.items())
    else:
        return [], "list"   # any non-dict is refused alike (isinstance(..., dict)); the driver's spelling of a non-dict is "list"
    items = []
    for k, v in pairs:
        name = k if isinstance(k, str) else ({"key": int(k)} if isinstance(k, int) and not isinstance(k, bool) else None)
        if name is None:
            raise Skip("extra property key outside the driver's encoding")
        if isinstance(v, str):
            spec = {"dt": v}
        elif isinstance(v, np.ndarray):
            spec = {"arr": common.dtype_name(v.dtype), "len": int(v.shape[0]) if v.ndim else 0, "tail": [int(s) for s in v.shape[1:]]}
            if v.ndim == 0:
                raise Skip("0-d extra property array")
        elif isinstance(v, bool):
            raise Skip("boolean extra property value")
        elif isinstance(v, int):
            spec = {"bad": "int"}
        elif v is None:
            spec = {"bad": "none"}
        elif isinstance(v, list):
            spec = {"bad": "list"}
        elif isinstance(v, float):
            spec = {"bad": "float"}
        else:
            raise Skip("extra property value outside the driver's encoding")
        items.append([name, spec])
    return items, kind


def conv_mock(rec):
    fn = rec["fn"]
    a = {k: dec_any(v) for k, v in rec["args"].items()}
    if fn in ("dummy", "mock"):
        ax = a["node_axis_dtypes"]
        if not isinstance(a["node_id_dtype"], str) or not isinstance(ax, dict) or not all(isinstance(ax.get(k), str) for k in ("position", "time")):
            raise Skip("dtype arguments are not strings")
        if set(ax) != {"position", "time"}:
            raise Skip("node_axis_dtypes with other keys")
        for k in ("num_nodes", "num_edges"):
            if isinstance(a[k], bool) or not isinstance(a[k], int):
                raise Skip("counts are not ints")
        for k in ("directed", "include_t", "include_z", "include_y", "include_x", "include_varlength", "include_missing"):
            if not isinstance(a[k], bool):
                raise Skip("flag arguments are not bools")
        enp, enk = c20_extras(a["extra_node_props"])
        eep, eek = c20_extras(a["extra_edge_props"])
        c = {"kind": fn, "id": a["node_id_dtype"], "pos": ax["position"], "time": ax["time"], "directed": a["directed"], "n": a["num_nodes"],
             "e": a["num_edges"], "enp": enp, "eep": eep, "t": a["include_t"], "z": a["include_z"], "y": a["include_y"], "x": a["include_x"],
             "varlen": a["include_varlength"], "missing": a["include_missing"]}
        if enk:
            c["enp_kind"] = enk
        if eek:
            c["eep_kind"] = eek
    elif fn == "create_empty":
        c = {"kind": "empty", "defaults": True} if not rec["given"] else {"kind": "empty", "directed": bool(a["directed"])}
    else:
        kind = {"create_simple2d": "simple2d", "create_simple3d": "simple3d", "create_temporal": "temporal"}[fn]
        if not rec["given"]:
            c = {"kind": kind, "defaults": True}
        else:
            if isinstance(a["num_nodes"], bool) or not isinstance(a["num_nodes"], int) or not isinstance(a["num_edges"], int) or not isinstance(a["directed"], bool):
                raise Skip("arguments are not (int, int, bool)")
            c = {"kind": kind, "n": a["num_nodes"], "e": a["num_edges"], "directed": a["directed"]}
    if "exc" in rec["out"]:
        o = {"exc": rec["out"]["exc"], "exc_type": rec["out"]["exc_type"]}
    else:
        if "view" not in rec:
            raise Skip(rec.get("skip", "no view recorded"))
        o = rec["view"]
    return [item("C20", c, o)]


# ---- C07 -------------------------------------------------------------------------------------------------------
class FloatMap:
    """Order-preserving stand-ins for floats outside the fixed-point encoding of the metadata model (multiples of 2^-10).

    The maintainers' mock data is full of values such as 0.1.  The metadata model touches float payloads only through comparisons
    (min <= max), int -> float coercion and the 0 / 1 tests of the bool coercion, so a non-dyadic float x of a record is replaced --
    in the arguments AND in the observed dumps, by one map per record -- by a multiple of 2^-10 that stands in the same order relation
    to every other number of the record (all ints, all dyadic floats, 0 and 1 are anchors that keep their value).  A record whose
    floats are too close together for that is skipped."""

    def __init__(self):
        self.nd, self.anchors, self.map = set(), {Fraction(0), Fraction(1)}, {}

    def see(self, x):
        if isinstance(x, bool):
            return
        if isinstance(x, int):
            self.anchors.add(Fraction(x))
        elif isinstance(x, float) and x == x and abs(x) != float("inf"):
            f = Fraction(x)
            if (f * 1024).denominator == 1:
                self.anchors.add(f)
            else:
                self.nd.add(x)

    def build(self):
        anchors = sorted(self.anchors)
        import bisect

        last = None   # last stand-in handed out
        for x in sorted(self.nd):
            f = Fraction(x)
            i = bisect.bisect_left(anchors, f)
            lo = anchors[i - 1] if i > 0 else None
            hi = anchors[i] if i < len(anchors) else None
            if last is not None and (lo is None or last > lo):
                lo = last
            s = Fraction(round(f * 1024), 1024)
            if lo is not None and s <= lo:
                s = Fraction((lo * 1024).__floor__() + 1, 1024)
            if hi is not None and s >= hi:
                s = Fraction((hi * 1024).__ceil__() - 1, 1024)
            if (lo is not None and s <= lo) or (hi is not None and s >= hi) or abs(s) >= 2 ** 40:
                raise Skip("floats outside the 2^-10 fixed-point encoding and too close together for order-preserving stand-ins")
            self.map[x] = float(s)
            last = s


RESPELL = {"mode": None, "fm": None}


def md_json(x, depth=0):
    """recorded python value -> the JSON-like domain of the metadata model (c07 case encoding), or Skip"""
    from harness import c07

    if isinstance(x, Model):
        return md_json(dict(x), depth)
    if x is None or isinstance(x, (bool, str)):
        if isinstance(x, str) and any(ord(ch) < 32 for ch in x):
            raise Skip("control character in a string")
        return x
    if isinstance(x, int):
        if RESPELL["mode"] == "collect":
            RESPELL["fm"].see(x)
        return x
    if isinstance(x, float):
        if RESPELL["mode"] == "collect":
            RESPELL["fm"].see(x)
            return c07.F(0.0)
        if RESPELL["mode"] == "apply" and x in RESPELL["fm"].map:
            x = RESPELL["fm"].map[x]
        try:
            return c07.enc(x)
        except HarnessError as e:
            raise Skip(str(e)) from None
    if isinstance(x, np.generic):
        if x.dtype.kind in "iu":
            return md_json(int(x))
        if x.dtype.kind == "b":
            return bool(x)
        if x.dtype.kind == "f":
            return md_json(float(x))
        raise Skip("numpy scalar outside the metadata model's domain")
    if isinstance(x, np.ndarray) and x.ndim == 1 and x.dtype.kind in "iuf" and x.size <= 64:
        return [md_json(v) for v in x.tolist()]   # a sequence argument given as an array: its items reach pydantic one by one
    if isinstance(x, (list, tuple)):
        return [md_json(v, depth + 1) for v in x]
    if isinstance(x, dict):
        out = {}
        for k, v in x.items():
            if not isinstance(k, str):
                raise Skip("non-string key")
            out[k] = md_json(v, depth + 1)
        return out
    raise Skip(f"value of type {type(x).__name__} outside the metadata model's domain")


def md_dump(x):
    """an observed model_dump().  Axis objects are not re-validated when they are assigned to / passed into a GeffMetadata, and
    compute_and_add_axis_min_max stores `np.min(...).item()` on them: for an integer coordinate column the float fields of the axis
    then hold Python ints.  The dump is read numerically (0 and 0.0 are the same number; the property does not distinguish them)."""
    d = md_json(x)

    def fix_axis(a):
        if isinstance(a, dict):
            for k in ("min", "max", "scale", "offset"):
                if isinstance(a.get(k), int) and not isinstance(a.get(k), bool):
                    a[k] = md_json(float(a[k]))
        return a
    if isinstance(d, dict) and isinstance(d.get("axes"), list):
        d["axes"] = [fix_axis(a) for a in d["axes"]]
    elif isinstance(d, dict) and "name" in d and "min" in d:
        d = fix_axis(d)
    return d


def known_dtypes_only(v):
    """property-metadata dtype spellings must be in the model's finite table (Meta.np_names)"""
    from harness import c04

    table = c04.known_dtype_spellings()

    def walk(x):
        if isinstance(x, dict):
            if "identifier" in x and "dtype" in x and isinstance(x["dtype"], str) and x["dtype"] not in table:
                try:
                    np.dtype(x["dtype"])
                except Exception:  # noqa: BLE001
                    return  # numpy rejects it too: the model's default branch
                raise Skip(f"dtype spelling {x['dtype']!r} outside the model's table")
            for y in x.values():
                walk(y)
        elif isinstance(x, list):
            for y in x:
                walk(y)
    walk(v)


def c07_step(idx, exc, real_exc, before, after, axes=None):
    changed = [[i, d] for i, d in enumerate(after) if i >= len(before) or before[i] != d]
    return {"skipped": False, "idx": idx, "exc": exc, "real_exc": real_exc, "axes": axes, "changed": changed, "before": before, "after": after}


def c07_exc(rec):
    o = rec["out"]
    if "exc" in o:
        return o["exc"], o.get("real_exc", o.get("exc_type"))
    return None, None


def conv_md_construct(rec):
    fn = rec["fn"]
    if fn == "GeffMetadata.__init__":
        kw, via = md_json(dec_any(rec["kw"])), "kwargs"
    else:
        if rec.get("extra_args"):
            raise Skip("strict / context / from_attributes arguments")
        obj = dec_any(rec["obj"])
        if isinstance(obj, Model):
            raise Skip("model_validate of an instance (returned as it is)")
        if fn == "GeffMetadata.model_validate_json":
            if not isinstance(obj, str):
                raise Skip("JSON given as bytes")
            try:
                obj = json.loads(obj)
            except Exception:  # noqa: BLE001
                raise Skip("unparsable JSON text") from None
            via = "json"
        else:
            via = "validate"
        kw = md_json(obj)
    known_dtypes_only(kw)
    exc, real = c07_exc(rec)
    after = [] if exc is not None else [md_dump(dec_any(rec["dump"]))]
    c = {"kind": "run", "block": "harvest", "ops": [{"op": "construct", "via": via, "kw": kw}]}
    o = {"gv": rec["gv"], "steps": [c07_step(None, exc, real, [], after)]}
    return [item("C07", c, o)]


def start_from(dump):
    """the first op of a case about an EXISTING object: construct it from its own dump (the model's construct is idempotent on dumps)"""
    return {"op": "construct", "via": "kwargs", "kw": dump}


def conv_md_setattr(rec):
    from harness import c07

    field = rec["field"]
    if field not in c07.FIELD_COQ:
        field = "bogus_field"
    before = md_dump(dec_any(rec["before"]))
    after = md_dump(dec_any(rec["after"]))
    v = md_json(dec_any(rec["value"]))
    known_dtypes_only(v)
    exc, real = c07_exc(rec)
    c = {"kind": "run", "block": "harvest", "ops": [start_from(before), {"op": "assign", "i": 0, "field": field, "v": v, "inst": False}]}
    o = {"gv": rec["gv"], "steps": [c07_step(None, None, None, [], [before]), c07_step(0, exc, real, [before], [after])]}
    return [item("C07", c, o)]


def lists_of(a, roi):
    ls = {"names": md_json(a.get("axis_names"))}
    for k, arg in (("units", "axis_units"), ("types", "axis_types"), ("scales", "axis_scales"), ("scaled_units", "scaled_units"),
                   ("offset", "axis_offset")):
        if a.get(arg) is not None:
            ls[k] = md_json(a[arg])
    if roi:
        for k in ("roi_min", "roi_max"):
            if a.get(k) is not None:
                ls[k] = md_json(a[k])
    for k, v in ls.items():
        if v is not None and not isinstance(v, list):
            raise Skip("axis list argument is not a list")
    return ls


def conv_md_util(rec):
    fn = rec["fn"]
    a = {k: dec_any(v) for k, v in rec["args"].items()}
    exc, real = c07_exc(rec)
    gv = rec["gv"]
    if fn == "axes_from_lists":
        ls = lists_of(a, True)
        axes = None if exc is not None else [md_dump(dec_any(x)) for x in rec["result"]]
        c = {"kind": "run", "block": "harvest", "ops": [{"op": "axes_from_lists", "lists": ls}]}
        return [item("C07", c, {"gv": gv, "steps": [c07_step(None, exc, real, [], [], axes)]})]
    md = a["metadata"]
    after_args = [md_dump(dec_any(x)) for x in rec.get("args_after", [])]
    result = None if exc is not None else md_dump(dec_any(rec["result"]))
    if fn == "create_or_update_metadata":
        axes = a["axes"]
        axes_j = md_json(axes)
        directed = md_json(a["is_directed"])
        if md is None:
            c = {"kind": "run", "block": "harvest", "ops": [{"op": "create_or_update", "i": None, "directed": directed, "axes": axes_j, "inst": False}]}
            o = {"gv": gv, "steps": [c07_step(None, exc, real, [], [] if exc is not None else [result])]}
            return [item("C07", c, o)]
        if not isinstance(md, Model):
            raise Skip("metadata argument is not a GeffMetadata")
        before = md_dump(md)
        c = {"kind": "run", "block": "harvest", "ops": [start_from(before), {"op": "create_or_update", "i": 0, "directed": directed, "axes": axes_j, "inst": False}]}
    elif fn == "update_metadata_axes":
        if not isinstance(md, Model):
            raise Skip("metadata argument is not a GeffMetadata")
        before = md_dump(md)
        c = {"kind": "run", "block": "harvest", "ops": [start_from(before), {"op": "update_axes", "i": 0, "lists": lists_of(a, False)}]}
    elif fn == "add_or_update_props_metadata":
        if not isinstance(md, Model):
            raise Skip("metadata argument is not a GeffMetadata")
        before = md_dump(md)
        props = md_json(list(a["props_md"]) if isinstance(a["props_md"], (list, tuple)) else a["props_md"])
        known_dtypes_only(props)
        c = {"kind": "run", "block": "harvest", "ops": [start_from(before), {"op": "add_props", "i": 0, "props": props, "ctype": md_json(a["c_type"]), "inst": False}]}
    else:
        raise Skip(fn)
    # the metadata argument after the call is the first recorded model argument
    md_after = after_args[0] if after_args else before
    if exc is None and rec.get("alias"):
        raise Skip("the helper handed back its argument (aliasing is outside the model's pool semantics)")
    after = [md_after] + ([] if exc is not None else [result])
    o = {"gv": gv, "steps": [c07_step(None, None, None, [], [before]), c07_step(0, exc, real, [before], after)]}
    return [item("C07", c, o)]


# ---- store side (terms printed by the plugin) -----------------------------------------------------------------------
def conv_write_arrays(rec):
    out = []
    info = rec.get("info", {})
    t = rec.get("terms", {})
    if "C06" in t:
        res = ["ok"] if "exc" not in rec["out"] else ["err", rec["out"]["exc"], rec["out"].get("msg", "")[:100]]
        call = {"ov": info["overwrite"], "nprops": ({"_": {"values": {"vlen": []}, "missing": None}} if info.get("empty_vlen") else None), "eprops": None}
        c = {"kind": "history", "store": "path" if info["kind"] == "KPath" else "mem", "fmt": [info["fmt"]], "pre": "harvest", "entry": "arrays",
             "calls": [call], "summary": {k: info.get(k) for k in ("n", "e", "nprops", "eprops", "validate", "store")}}
        step = {"existed": info["existed"], "ov": info["overwrite"], "res": res}
        if "bytes_identical" in info:
            step["bytes_identical"] = info["bytes_identical"]
        elif info["existed"]:
            step["bytes_identical"] = info.get("post_same_tree", True)
        out.append(item("C06", c, {"steps": [step]}, term=t["C06"]))
    if "C10" in t:
        c = {"kind": "full", "summary": {k: info.get(k) for k in ("n", "e", "nprops", "eprops", "validate", "fmt")}}
        out.append(item("C10", c, {"res": ["ok"] if "exc" not in rec["out"] else ["err", rec["out"]["exc"]], "doc": info.get("doc")},
                        oracle=False, term=t["C10"]))
    if not out:
        raise Skip(rec.get("skip") or rec.get("skip_C10") or "no term")
    return out


def conv_validate_structure(rec):
    t = rec.get("terms", {})
    if "C04" not in t:
        raise Skip(rec.get("skip", "no term"))
    o = rec["out"]
    v = ["ok"] if "exc" not in o else ["err", o["exc"], o.get("exc_type"), o.get("msg", "")[:100]]
    tree = rec.get("tree")
    if tree is None and rec["info"].get("kind") == "KPath":
        c = {"base": "absent-path", "faults": [], "fmt": 0}
    else:
        c = {"base": "harvest", "faults": [], "fmt": 0}
    # the reader's agreement with validate_structure is a separate call (harvested as GeffReader): not re-observed here
    return [item("C04", c, {"v": v, "tree": tree, "reader": v}, term=t["C04"])]


def conv_read(rec):
    t = rec.get("terms", {})
    if "C09" not in t:
        raise Skip(rec.get("skip", "no term"))
    info = rec.get("info", {})
    if rec["fn"] == "read_to_memory":
        c = {"kind": "build", "summary": info}
    else:
        c = {"kind": "seq", "summary": info, "nops": rec.get("nops")}
    # C09's oracle compares a partial read with the full read of the same store; the harvested calls are judged by the model only
    return [item("C09", c, {"res": ["ok"] if "exc" not in rec.get("out", {}) else ["err", rec["out"]["exc"]]}, oracle=False, term=t["C09"])]


def respelled(conv):
    """run a metadata converter; when the record holds floats outside the fixed-point encoding, run it again under a FloatMap"""
    def f(rec):
        fm = FloatMap()
        RESPELL.update(mode="collect", fm=fm)
        try:
            its = conv(rec)
        finally:
            RESPELL.update(mode=None, fm=None)
        if not fm.nd:
            return conv(rec)
        fm.build()
        RESPELL.update(mode="apply", fm=fm)
        try:
            its = conv(rec)
        finally:
            RESPELL.update(mode=None, fm=None)
        for it in its:
            it["respelled"] = len(fm.map)
        return its
    return f


CONVERTERS = {
    "write_arrays": conv_write_arrays, "validate_structure": conv_validate_structure, "read_to_memory": conv_read, "GeffReader": conv_read,
    "serialize_vlen_property_data": conv_serialize, "deserialize_vlen_property_data": conv_deserialize, "construct_var_len_props": conv_construct,
    "validate_unique_node_ids": conv_graph_validator, "validate_nodes_for_edges": conv_graph_validator,
    "validate_no_self_edges": conv_graph_validator, "validate_no_repeated_edges": conv_graph_validator,
    "validate_data": conv_validate_data, "validate_sphere": conv_sphere, "validate_ellipsoid": conv_ellipsoid,
    "validate_tracklets": conv_tracks, "validate_lineages": conv_tracks,
    "has_valid_seg_id": conv_seg, "axes_match_seg_dims": conv_seg, "graph_is_in_seg_bounds": conv_seg,
    "has_seg_ids_at_time_points": conv_seg, "has_seg_ids_at_coords": conv_seg,
    "geff_to_dataframes": conv_frames,
    "GeffMetadata.__init__": respelled(conv_md_construct), "GeffMetadata.model_validate": respelled(conv_md_construct),
    "GeffMetadata.model_validate_json": respelled(conv_md_construct), "GeffMetadata.__setattr__": respelled(conv_md_setattr),
    "update_metadata_axes": respelled(conv_md_util), "create_or_update_metadata": respelled(conv_md_util), "add_or_update_props_metadata": respelled(conv_md_util),
    "axes_from_lists": respelled(conv_md_util),
    "dummy": conv_mock, "mock": conv_mock, "create_simple2d": conv_mock, "create_simple3d": conv_mock, "create_temporal": conv_mock,
    "create_empty": conv_mock,
}


# ----------------------------------------------------------------------------------------------------------------
# corpus: run the repository's tests with the plugin (cached per repository state under .work/harvest/<key>)
# ----------------------------------------------------------------------------------------------------------------
def repo_state_key() -> str:
    repo = common.REPO
    h = hashlib.sha1()
    h.update(str(repo).encode())
    for cmd in (["git", "rev-parse", "HEAD"], ["git", "diff", "HEAD", "--", "packages"], ["git", "status", "--porcelain", "--", "packages"]):
        r = subprocess.run(cmd, cwd=repo, capture_output=True, text=True)
        h.update(r.stdout.encode())
    h.update((common.VERIF / "harness" / "harvest_plugin.py").read_bytes())
    return h.hexdigest()[:16]


def run_suite(out_dir: Path) -> dict:
    """cd $VERIF_REPO && pytest with the plugin; returns the session summary"""
    out_dir.mkdir(parents=True, exist_ok=True)
    for f in out_dir.glob("*"):
        f.unlink()
    env = dict(os.environ)
    env["PYTHONPATH"] = os.pathsep.join(common.REPO_SRC + [str(common.VERIF)])
    env["PYTHONHASHSEED"] = "0"
    env["PYTHONDONTWRITEBYTECODE"] = "1"
    env["HARVEST_DIR"] = str(out_dir)
    cmd = ["/venv/bin/python", "-m", "pytest", "-q", "-p", "no:cacheprovider", "-p", "harness.harvest_plugin", *TEST_ARGS]
    t0 = time.time()
    r = subprocess.run(["timeout", "2400", *cmd], cwd=common.REPO, env=env, capture_output=True, text=True)
    tail = (r.stdout + r.stderr)[-1500:]
    sess = {}
    for f in out_dir.glob("session-*.json"):
        sess = json.loads(f.read_text())
    sess.update(returncode=r.returncode, wall_s=round(time.time() - t0, 1), tail=tail, cmd=" ".join(cmd))
    (out_dir / "run.json").write_text(json.dumps(sess, indent=1))
    return sess


def corpus(rerun=False) -> tuple[Path, dict]:
    """directory holding the records of the current repository state (running the suite when there is none yet)"""
    if os.environ.get("HARVEST_FROM"):  # debugging aid: convert the records of an earlier (partial) run
        d = Path(os.environ["HARVEST_FROM"])
        sess = json.loads((d / "run.json").read_text()) if (d / "run.json").exists() else {"returncode": 0, "records": None}
        return d, sess
    HARVEST.mkdir(parents=True, exist_ok=True)
    key = repo_state_key()
    d = HARVEST / key
    with open(HARVEST / ".lock", "w") as lk:
        fcntl.flock(lk, fcntl.LOCK_EX)
        try:
            if rerun or not (d / "run.json").exists():
                sess = run_suite(d)
            else:
                sess = json.loads((d / "run.json").read_text())
        finally:
            fcntl.flock(lk, fcntl.LOCK_UN)
    return d, sess


def load_records(d: Path) -> list[dict]:
    recs = []
    for f in sorted(d.glob("calls-*.jsonl")):
        with open(f) as fh:
            for line in fh:
                recs.append(json.loads(line))
    # one GeffReader = one record: the last (longest) sequence of each reader
    last = {}
    for i, r in enumerate(recs):
        if r.get("fn") == "GeffReader":
            last[r["uid"]] = i
    return [r for i, r in enumerate(recs) if r.get("fn") != "GeffReader" or last[r["uid"]] == i]


# ----------------------------------------------------------------------------------------------------------------
# conversion + evaluation
# ----------------------------------------------------------------------------------------------------------------
def convert_all(recs, props=None):
    """-> (items per property, per-function statistics)"""
    import importlib

    stats = defaultdict(lambda: {"calls": 0, "encodable": 0, "skipped": Counter(), "plugin_errors": 0, "tests": set()})
    items = defaultdict(list)
    mods = {}
    for r in recs:
        fn = r.get("fn")
        if fn not in CONVERTERS:
            continue
        if props is not None and not (set(FUNCTIONS[fn]) & set(props)):
            continue
        st = stats[fn]
        st["calls"] += 1
        st["tests"].add(r.get("test"))
        if "plugin_error" in r:
            st["plugin_errors"] += 1
            st["skipped"]["plugin error: " + r["plugin_error"][:80]] += 1
            continue
        if r.get("mocked") and fn not in LEAVES:
            st["skipped"]["the test replaced geff internals by mocks (" + ", ".join(x.rsplit(".", 1)[-1] for x in r["mocked"][:2]) + "): not geff's own code"] += 1
            continue
        if r.get("out", {}).get("warning_as_error"):
            st["skipped"]["a warning of geff escalated to an error by the suite's filterwarnings=error (warnings are outside the models)"] += 1
            continue
        try:
            its = CONVERTERS[fn](r)
            good = []
            for it in its:
                if props is not None and it["prop"] not in props:
                    continue
                if it["term"] is None:
                    p = it["prop"]
                    if p not in mods:
                        mods[p] = importlib.import_module(f"harness.{p.lower()}")
                    try:
                        it["term"] = mods[p].coq_case(it["case"], it["obs"])
                    except HarnessError as e:
                        raise Skip(str(e)) from None
                    if it["term"] is None:
                        raise Skip("the driver's coq_case has no term for this case (oracle-only / exception outside the model's interface)")
                if len(it["term"]) > TERM_LIMIT:
                    raise Skip("Coq term too large")
                it["fn"], it["test"], it["depth"] = fn, r.get("test"), r.get("depth", 0)
                good.append(it)
            if good:
                st["encodable"] += 1
            for it in good:
                items[it["prop"]].append(it)
            if "skip_C10" in r and fn == "write_arrays":
                st["skipped"]["C10 only: " + r["skip_C10"][:90]] += 1
        except Skip as s:
            st["skipped"][str(s)[:110]] += 1
        except (KeyError, TypeError, ValueError, AttributeError, IndexError, OverflowError) as e:  # shapes the converter did not foresee
            st["skipped"][f"converter: {type(e).__name__}: {str(e)[:70]}"] += 1
    return items, stats


def dedupe(its):
    seen, out = {}, []
    for it in its:
        k = hashlib.sha1(it["term"].encode()).hexdigest()
        if k in seen:
            seen[k]["dups"] += 1
            continue
        it["dups"] = 1
        seen[k] = it
        out.append(it)
    return out


def evaluate(prop, its, known=None, report=True):
    """Coq evaluation + oracles for the distinct items of one property.  Returns a result dict; prints VIOLATION / KNOWN-FINDING lines."""
    import importlib

    mod = importlib.import_module(f"harness.{prop.lower()}")
    known = common.load_known_findings(prop) if known is None else known
    distinct = dedupe(its)
    terms = [it["term"] for it in distinct]
    mism, errors = common.coq_eval_cases(prop, terms) if terms else ([], [])
    failures = []
    for it in distinct:
        if not it["oracle"]:
            continue
        try:
            f = mod.oracle(it["case"], it["obs"])
        except Exception as e:  # noqa: BLE001 -- an oracle that cannot judge a harvested shape is reported, not fatal
            f = None
            errors.append(f"oracle crashed on a harvested case of {it['fn']} ({it['test']}): {type(e).__name__}: {e}"[:300])
        if f is not None:
            failures.append((it, f))
    new_fail = [(it, f) for it, f in failures if not any(common.finding_matches(k, f.tags) for k in known)]
    res = {"prop": prop, "cases": len(its), "distinct": len(distinct), "mismatches": len(mism), "oracle_failures": len(failures),
           "oracle_judged": sum(1 for it in distinct if it["oracle"]), "errors": errors[:3], "violations": 0, "known": []}
    if not report:
        res["mismatch_items"] = [distinct[i] for i in mism]
        res["failure_items"] = failures
        return res
    printed = set()
    for it, f in failures:
        for k in known:
            if common.finding_matches(k, f.tags) and k["id"] not in printed:
                printed.add(k["id"])
                print(f"KNOWN-FINDING: property={prop} id={k['id']} {k['what']} (harvested: {it['test']})")
    res["known"] = sorted(printed)
    reported = set()
    for it, f in new_fail:
        key = json.dumps(common.jsonable(f.tags), sort_keys=True)
        if key in reported:
            continue
        reported.add(key)
        # cases of the pure-function drivers are in generator format and can be re-run by `--replay`; the store-side ones are
        # observations of a store state that existed inside a test (the replay prints them)
        replayable = prop in REPLAYABLE
        path = common.write_replay(prop, {"property": prop, "kind": "failing-input" if replayable else "harvested-failing-observation",
                                          "what": f.what, "tags": f.tags, "input": f.inp,
                                          "observed": f.obs, "harvested_from": {"function": it["fn"], "test": it["test"]},
                                          "term": it["term"][:20000],
                                          "replay_cmd": f"./check {prop} --replay <this file>"})
        print(f"VIOLATION property={prop} replay={path}")
        res["violations"] += 1
        if res["violations"] >= 5:
            break
    if (mism or errors) and not new_fail:
        detail = {"property": prop, "kind": "no-failing-input-found", "source": "harvested corpus (repository test suite)",
                  "correspondence_errors": errors[:3], "correspondence_mismatches": []}
        for i in mism[:5]:
            it = distinct[i]
            detail["correspondence_mismatches"].append({
                "function": it["fn"], "test": it["test"], "case": it["case"], "implementation_observed": it["obs"],
                "model_output": common.coq_model_output(prop, it["term"]), "term": it["term"][:3000]})
        path = common.write_replay(prop, detail)
        print(f"VIOLATION property={prop} replay={path} no-failing-input-found")
        res["violations"] += 1
    return res


def summarise(stats, fns):
    calls = sum(stats[f]["calls"] for f in fns if f in stats)
    enc = sum(stats[f]["encodable"] for f in fns if f in stats)
    return calls, enc


def replay_property(prop: str, known=None) -> dict | None:
    """Hook of common.run_property (thorough tier): the harvested cases of one property.  None when nothing of it is harvested."""
    fns = [f for f, ps in FUNCTIONS.items() if prop in ps]
    if not fns:
        return None
    d, sess = corpus()
    suite_note = ""
    if sess.get("returncode") not in (0,):
        # The suite passes with the plugin loaded on the unchanged tree (484 passed / 19 skipped, as without it).  A failing suite means
        # the repository's own tests object to the tree under test: that is their verdict, not this check's; the calls recorded up to
        # there are still real calls and are replayed, the exit status goes into the evidence.
        suite_note = f" WARNING: the repository's suite exited {sess.get('returncode')} with the plugin loaded"
        if not list(d.glob("calls-*.jsonl")):
            raise HarnessError(f"harvest: the repository's test suite produced no records (exit {sess.get('returncode')}): {sess.get('tail', '')[-400:]}")
    recs = load_records(d)
    items, stats = convert_all(recs, props=[prop])
    res = evaluate(prop, items.get(prop, []), known)
    calls, enc = summarise(stats, fns)
    skipped = Counter()
    for f in fns:
        if f in stats:
            for k, v in stats[f]["skipped"].items():
                skipped[f"{f}: {k}"] += v
    cov = {"harvested_calls": calls, "harvested_encodable": enc, "harvested_distinct": res["distinct"],
           "harvested_mismatches": res["mismatches"], "harvested_oracle_failures": res["oracle_failures"],
           "harvested_oracle_judged": res["oracle_judged"], "harvested_known_findings": res["known"],
           "harvested_functions": {f: {"calls": stats[f]["calls"], "encodable": stats[f]["encodable"]} for f in fns if f in stats},
           "harvested_skipped": dict(skipped.most_common(12)), "harvested_errors": res["errors"],
           "harvested_suite": {k: sess.get(k) for k in ("cmd", "returncode", "wall_s", "records", "testscollected", "testsfailed")}}
    return {"coverage": cov, "violations": res["violations"], "line": f"harvested: calls={calls} encodable={enc} distinct={res['distinct']} "
            f"mismatches={res['mismatches']} oracle_failures={res['oracle_failures']}{suite_note}"}


# ----------------------------------------------------------------------------------------------------------------
# CLI:  ./check --harvest
# ----------------------------------------------------------------------------------------------------------------
def main(rerun=False, props=None, table=None) -> int:
    common.pin_environment()
    errs = common.regenerate_gen()
    if errs:
        raise HarnessError(errs[0])
    t0 = time.time()
    d, sess = corpus(rerun=rerun)
    print(f"[harvest] suite: exit={sess.get('returncode')} records={sess.get('records')} wall={sess.get('wall_s')}s "
          f"plugin={sess.get('plugin_seconds')}s dir={d}")
    if sess.get("returncode") != 0:
        print(sess.get("tail", "")[-1500:])
        if os.environ.get("HARVEST_ALLOW_FAIL") != "1":  # sensitivity runs on a modified repository go on with what was recorded
            raise HarnessError("the repository's test suite does not pass with the plugin loaded")
    recs = load_records(d)
    items, stats = convert_all(recs, props=props)
    todo = [p for p in PROPS if props is None or p in props]
    ok, log = common.coq_make([f"theories/Corr/{p}.vo" for p in todo])
    if not ok:
        raise HarnessError("Coq build failed: " + log[-800:])
    exit_code = 0
    rows = []
    for p in todo:
        fns = [f for f, ps in FUNCTIONS.items() if p in ps]
        res = evaluate(p, items.get(p, []))
        calls, enc = summarise(stats, fns)
        print(f"[harvest] {p}: calls={calls} encodable={enc} cases={res['cases']} distinct={res['distinct']} mismatches={res['mismatches']} "
              f"oracle_failures={res['oracle_failures']} (judged {res['oracle_judged']}) known={len(res['known'])} errors={len(res['errors'])} "
              f"violations={res['violations']}")
        for e in res["errors"]:
            print(f"    error: {e[:300]}")
        if res["violations"]:
            exit_code = 1
        rows.append((p, fns, res))
    print()
    print("per function:")
    for f in FUNCTIONS:
        if f not in stats:
            if props is None:
                print(f"  {PRETTY.get(f, f):45s} calls=0")
            continue
        st = stats[f]
        print(f"  {PRETTY.get(f, f):45s} calls={st['calls']:5d} encodable={st['encodable']:5d} tests={len(st['tests']):4d}")
        for k, v in st["skipped"].most_common(8):
            print(f"      skipped {v:4d}: {k}")
    if props is None:
        (HARVEST / "last_summary.json").write_text(json.dumps({
            "suite": {k: sess.get(k) for k in ("cmd", "returncode", "wall_s", "records", "plugin_seconds", "testscollected")},
            "properties": {p: {"functions": {f: {"calls": stats[f]["calls"], "encodable": stats[f]["encodable"]} for f in fns if f in stats},
                               **{k: res[k] for k in ("cases", "distinct", "mismatches", "oracle_failures", "oracle_judged", "violations")}}
                           for p, fns, res in rows}}, indent=1))
    if table:
        write_table(Path(table), stats, rows, sess)
    print(f"[harvest] wall={time.time() - t0:.1f}s exit={exit_code}")
    return exit_code


def write_table(path: Path, stats, rows, sess):
    """machine-written part of DESIGN_NOTES/harvest.md (numbers of the last full run)"""
    by_prop = {p: res for p, _, res in rows}
    lines = ["| function | property | calls in the repository's tests | encodable | distinct cases (property) | mismatches (property) | oracle failures (property) |",
             "|---|---|---|---|---|---|---|"]
    for f, ps in FUNCTIONS.items():
        st = stats.get(f, {"calls": 0, "encodable": 0})
        for p in ps:
            r = by_prop.get(p, {})
            lines.append(f"| `{PRETTY.get(f, f)}` | {p} | {st['calls']} | {st['encodable']} | {r.get('distinct', '-')} | {r.get('mismatches', '-')} | {r.get('oracle_failures', '-')} |")
    lines.append("")
    lines.append("Skipped calls (reason, count):")
    lines.append("")
    for f in FUNCTIONS:
        if f in stats and stats[f]["skipped"]:
            for k, v in stats[f]["skipped"].most_common(10):
                lines.append(f"* `{PRETTY.get(f, f)}`: {v} x {k}")
    lines.append("")
    lines.append(f"Suite: `{sess.get('cmd')}` exit {sess.get('returncode')}, {sess.get('records')} records, {sess.get('wall_s')} s "
                 f"(of which {sess.get('plugin_seconds')} s inside the plugin).")
    path.write_text("\n".join(lines) + "\n")


if __name__ == "__main__":
    sys.exit(main())
