"""Shared machinery of the /verif checks: environment pinning, Coq build and
audit (proof obligations), correspondence shard runner (model evaluated inside
Coq with vm_compute), known-findings handling, replay and evidence writing.

Nothing in here is specific to one property; per-property drivers live in
harness/cNN.py and plug into `run_property`.
"""
from __future__ import annotations

import fcntl
import hashlib
import json
import os
import random
import re
import shutil
import subprocess
import sys
import time
import traceback
from collections import Counter
from pathlib import Path

VERIF = Path(__file__).resolve().parent.parent
COQ = VERIF / "coq"
WORK = VERIF / ".work"
EVID = VERIF / "evidence"
REPLAYS = VERIF / "replays"
REPO = Path(os.environ.get("VERIF_REPO", "/repo"))  # override only for scratch worktrees (seeding, builders); registered checks use /repo
REPO_SRC = [str(REPO / "packages/geff/src"), str(REPO / "packages/geff-spec/src")]
NCPU = max(2, min(16, os.cpu_count() or 4))
# A scratch worktree (seeded change, builder) gets a PRIVATE copy of the Coq tree: Gen/*.v is regenerated from the source under test,
# so two checks of different source trees running at the same time must not share it (a compile of one tree's Gen/Consts.v had
# finished after the other tree's file was written: a .vo newer than, and different from, its .v).
MAIN_COQ = COQ
if str(REPO) != "/repo":
    import hashlib as _hashlib

    COQ = WORK / ("coq-" + _hashlib.sha1(str(REPO).encode()).hexdigest()[:10])

TRUSTED_BASE = [
    "Coq 8.16.1 kernel + its VM (vm_compute used in finite-table lemmas, _refuted witnesses and to "
    "evaluate the model in the correspondence; native_compute not used)",
    "no axioms declared; Print Assumptions of every property theorem must be 'Closed under the global context'",
    "harness/translate.py (source -> Gen/Consts.v, Gen/Schema.v)",
    "correspondence check: harness generators, Coq-term printer, index parser (harness/common.py)",
    "modelled, not verified: numpy / zarr-python / pydantic / graph libraries runtime behaviour "
    "(tied by the correspondence on the generated inputs only)",
]


class HarnessError(Exception):
    """Infrastructure problem (exit 2, never a verdict)."""


# --------------------------------------------------------------------------
# environment
# --------------------------------------------------------------------------
def pin_environment() -> None:
    """Make sure geff / geff_spec are imported from /repo's working tree."""
    for p in reversed(REPO_SRC):
        if p in sys.path:
            sys.path.remove(p)
        sys.path.insert(0, p)
    os.environ["PYTHONPATH"] = os.pathsep.join(REPO_SRC + [str(VERIF)])
    os.environ.setdefault("PYTHONHASHSEED", "0")
    import warnings

    warnings.simplefilter("ignore")
    import geff  # noqa
    import geff_spec  # noqa

    for m in (geff, geff_spec):
        if not str(Path(m.__file__).resolve()).startswith(str(REPO)):
            raise HarnessError(f"{m.__name__} imported from {m.__file__}, not from /repo")


def exn_name(e: BaseException) -> str:
    """Map a Python exception to the model's exn enum (class only, never messages)."""
    import pydantic

    if isinstance(e, pydantic.ValidationError):
        return "ValueError"
    for cls, name in (
        (FileExistsError, "FileExistsError"),
        (FileNotFoundError, "FileNotFoundError"),
        (KeyError, "KeyError"),
        (IndexError, "IndexError"),
        (AssertionError, "AssertionError"),
        (ValueError, "ValueError"),
        (TypeError, "TypeError"),
        (OSError, "OSError"),
    ):
        if isinstance(e, cls):
            return name
    return "OtherExn"


# --------------------------------------------------------------------------
# Coq term printers
# --------------------------------------------------------------------------
def cz(n: int) -> str:
    n = int(n)
    if abs(n) >> 256:        # a long token: Coq reads a decimal numeral of thousands of digits in quadratic time, a hexadecimal one at once
        return f"({'-' if n < 0 else ''}{hex(abs(n))})%Z"
    return f"({n})%Z"


def cnat(n: int) -> str:
    n = int(n)
    if n < 0 or n > 5000:
        raise HarnessError(f"nat literal out of the safe range: {n}")
    return f"{n}%nat"


def cbool(b) -> str:
    return "true" if b else "false"


def cstr(s: str) -> str:
    # Coq string literal: bytes are taken as they are, a double quote is doubled
    if any(ord(ch) < 32 for ch in s):
        raise HarnessError("control character in a Coq string literal")
    return '"' + s.replace('"', '""') + '"%string'


def clist(xs, f=lambda x: x) -> str:
    return "[" + "; ".join(f(x) for x in xs) + "]"


def copt(x, f=lambda x: x) -> str:
    return "None" if x is None else f"(Some {f(x)})"


def cpair(a: str, b: str) -> str:
    return f"({a}, {b})"


def cres(r, f=lambda x: x) -> str:
    """r is ('ok', value) or ('err', exn_name)."""
    if r[0] == "ok":
        return f"(Ok {f(r[1])})"
    return f"(Err {r[1]})"


DTYPE_COQ = {
    "bool": "DBool", "int8": "DI8", "int16": "DI16", "int32": "DI32", "int64": "DI64",
    "uint8": "DU8", "uint16": "DU16", "uint32": "DU32", "uint64": "DU64",
    "float16": "DF16", "float32": "DF32", "float64": "DF64",
    "str": "DStr", "bytes": "DBytes", "object": "DObj",
}


def dtype_name(dt) -> str:
    import numpy as np

    dt = np.dtype(dt)
    if dt.kind == "U":
        return "str"
    if dt.kind == "S":
        return "bytes"
    if dt.kind == "O":
        return "object"
    return dt.name


def cdtype(dt) -> str:
    return DTYPE_COQ[dtype_name(dt)]


FSCALE = 1024


def enc_scalar(dtname: str, v) -> int:
    """Payload encoding shared with Dtype.v: ints/bools as themselves, floats * 2^10 (must be exact)."""
    if dtname.startswith("float"):
        x = float(v) * FSCALE
        if x != int(x):
            raise HarnessError(f"float {v!r} is not a multiple of 2^-10: outside the exact encoding")
        return int(x)
    return int(v)


def enc_array(a) -> list[int]:
    import numpy as np

    a = np.asarray(a)
    n = dtype_name(a.dtype)
    return [enc_scalar(n, v) for v in a.ravel().tolist()]


# --------------------------------------------------------------------------
# Coq build / audit
# --------------------------------------------------------------------------
LAYOUTS = ["C", "C", "C", "F", "T", "S", "R"]


def relayout(a, layout):
    """The same logical array in another memory layout (callers hand geff views, transposes, Fortran-ordered and strided arrays;
    the models speak about logical contents only): C contiguous, F Fortran order, T transposed view, S strided view (every second item of
    a larger buffer), R reversed view."""
    import numpy as np

    if layout in (None, "C") or a.ndim == 0:
        return a
    if layout == "F":
        out = np.asfortranarray(a)
    elif layout == "T":
        out = np.ascontiguousarray(a.T).T
    elif layout == "S":
        big = np.empty(a.shape[:-1] + (2 * a.shape[-1] + 1,), dtype=a.dtype)
        big[...] = a.dtype.type() if a.dtype.kind != "U" else ""
        big[..., 0:2 * a.shape[-1]:2] = a
        out = big[..., 0:2 * a.shape[-1]:2]
    elif layout == "R":
        out = np.ascontiguousarray(a[::-1])[::-1]
    else:
        raise HarnessError(f"unknown layout {layout}")
    assert out.shape == a.shape and out.dtype.name == a.dtype.name
    return out


def big_endian(a):
    """The same array in non-native byte order (as read from FITS / HDF5 / network buffers): same values, same dtype name."""
    if a.dtype.itemsize == 1 or a.dtype.kind not in "iufU":
        return a
    return a.astype(a.dtype.newbyteorder(">"))


class CoqLock:
    def __enter__(self):
        COQ.mkdir(exist_ok=True)
        self.f = open(COQ / ".lock", "w")
        fcntl.flock(self.f, fcntl.LOCK_EX)
        return self

    def __exit__(self, *a):
        fcntl.flock(self.f, fcntl.LOCK_UN)
        self.f.close()


def run(cmd, cwd=None, timeout=600, env=None) -> subprocess.CompletedProcess:
    return subprocess.run(cmd, cwd=cwd, timeout=timeout, capture_output=True, text=True, env=env)


def prepare_coq_tree() -> None:
    """For a scratch worktree: bring the private Coq tree up to date with /verif/coq (sources and compiled files; incremental)."""
    if COQ == MAIN_COQ:
        return
    import fcntl

    COQ.parent.mkdir(parents=True, exist_ok=True)
    # several checks of the SAME scratch worktree may run at the same time and share the private tree: it is synchronised once per state
    # of the main tree (stamp = newest source file), under its own lock -- a second rsync would replace compiled files another check is
    # reading
    stamp = str(max(p.stat().st_mtime_ns for p in MAIN_COQ.rglob("*.v") if "Gen" not in p.parts))
    with open(str(COQ) + ".synclock", "w") as lf:
        fcntl.flock(lf, fcntl.LOCK_EX)
        try:
            sf = COQ / ".synced"
            if sf.exists() and sf.read_text() == stamp:
                return
            _sync_private_tree()
            sf.write_text(stamp)
        finally:
            fcntl.flock(lf, fcntl.LOCK_UN)


def _sync_private_tree() -> None:
    import fcntl

    with open(MAIN_COQ / ".lock", "w") as f:
        fcntl.flock(f, fcntl.LOCK_EX)          # not while the main tree is being built
        try:
            # everything, Gen and compiled files included: the translator then rewrites Gen/*.v only where the source under test gives
            # another text, which makes exactly those files (and, through make, what depends on them) newer than their compiled form
            subprocess.run(["rsync", "-a", "--delete", "--exclude", ".lock", "--exclude", ".synced", f"{MAIN_COQ}/", f"{COQ}/"], check=True)
        finally:
            fcntl.flock(f, fcntl.LOCK_UN)


def regenerate_gen() -> list[str]:
    """Run the translator (source -> coq/theories/Gen/*.v).  Returns error strings (fail-closed)."""
    prepare_coq_tree()
    from harness import translate

    try:
        with CoqLock():
            translate.main()
        return []
    except Exception as e:  # translator refuses: obligation broken
        return [f"translator: {type(e).__name__}: {e}"]


COQPROJECT_HEADER = ("-Q theories Geff\n-Q props GeffProps\n"
                     "-arg -w -arg -notation-overridden,-deprecated-hint-without-locality,-deprecated-syntactic-definition\n")


def sync_coqproject() -> None:
    """_CoqProject = header + every .v under theories/ and props/ (order is irrelevant: coqdep sorts).
    Rewritten only when the file list changes, so an unchanged tree never re-runs coq_makefile."""
    files = sorted(str(p.relative_to(COQ)) for d in ("theories", "props") for p in (COQ / d).rglob("*.v"))
    text = COQPROJECT_HEADER + "\n".join(files) + "\n"
    p = COQ / "_CoqProject"
    if not p.exists() or p.read_text() != text:
        p.write_text(text)


def coq_make(targets: list[str], timeout=1500) -> tuple[bool, str]:
    """(Re)build the given .vo targets (and their dependencies) under the lock."""
    with CoqLock():
        sync_coqproject()
        if not (COQ / "Makefile").exists() or (COQ / "_CoqProject").stat().st_mtime > (COQ / "Makefile").stat().st_mtime:
            r = run(["coq_makefile", "-f", "_CoqProject", "-o", "Makefile"], cwd=COQ)
            if r.returncode != 0:
                return False, r.stdout + r.stderr
        r = run(["timeout", str(timeout), "make", f"-j{NCPU}", *targets], cwd=COQ, timeout=timeout + 30)
        return r.returncode == 0, (r.stdout + r.stderr)[-6000:]


THEOREM_RE = re.compile(r"^\s*(?:Theorem|Corollary)\s+([A-Za-z0-9_']+)", re.M)
FORBIDDEN_RE = re.compile(
    r"\b(Admitted|admit|Axiom|Axioms|Parameter|Parameters|Conjecture|Hypothesis|Variable|Variables)\b|"
    r"Unset\s+Guard|bypass_check|type-in-type|impredicative-set|Admit Obligations"
)


def forbidden_scan() -> list[str]:
    """The grep gate over the whole development (comments stripped)."""
    bad = []
    for p in sorted(COQ.rglob("*.v")):
        txt = p.read_text()
        txt = strip_coq_comments(txt)
        for m in FORBIDDEN_RE.finditer(txt):
            word = m.group(0)
            # Variable/Hypothesis are fine inside a Section; we simply do not use them at all
            line = txt.count("\n", 0, m.start()) + 1
            bad.append(f"{p.relative_to(COQ)}:{line}: {word}")
    return bad


def strip_coq_comments(txt: str) -> str:
    out, depth, i = [], 0, 0
    instr = False
    while i < len(txt):
        if depth == 0 and txt[i] == '"':
            instr = not instr
            out.append(txt[i])
            i += 1
            continue
        if not instr and txt.startswith("(*", i):
            depth += 1
            i += 2
            continue
        if not instr and depth > 0 and txt.startswith("*)", i):
            depth -= 1
            i += 2
            continue
        if depth == 0:
            out.append(txt[i])
        elif txt[i] == "\n":
            out.append("\n")
        i += 1
    return "".join(out)


def audit_property(prop: str) -> dict:
    """Build props/<prop>.vo and check every theorem in it with Print Assumptions.

    Returns dict(obligations, discharged, failed: [names/reasons], theorems: [...], log).
    """
    prepare_coq_tree()
    pfile = COQ / "props" / f"{prop}.v"
    names = THEOREM_RE.findall(strip_coq_comments(pfile.read_text()))
    res = {"obligations": len(names), "discharged": 0, "failed": [], "theorems": names, "log": ""}
    errs = regenerate_gen()
    if errs:
        res["failed"] = [f"{n} (source translation failed: {errs[0]})" for n in names] or errs
        res["log"] = "\n".join(errs)
        return res
    ok, log = coq_make([f"props/{prop}.vo", f"theories/Corr/{prop}.vo"])
    res["log"] = log
    if not ok:
        broken = re.findall(r'File "\./([^"]+)", line (\d+)', log)
        where = ", ".join(f"{f}:{l}" for f, l in broken[:3]) or "make failed"
        res["failed"] = [f"{n} (build broken at {where})" for n in names]
        return res
    bad = forbidden_scan()
    if bad:
        res["failed"] = [f"forbidden construct {b}" for b in bad]
        return res
    WORK.mkdir(exist_ok=True)
    d = WORK / f"audit-{prop}-{os.getpid()}"
    d.mkdir(exist_ok=True)
    try:
        src = f"From GeffProps Require Import {prop}.\n" + "".join(
            f'Goal True. idtac "@@ {n}". exact I. Qed.\nPrint Assumptions {n}.\n' for n in names
        )
        (d / "Audit.v").write_text(src)
        r = run(["timeout", "300", "coqc", "-Q", str(COQ / "theories"), "Geff", "-Q", str(COQ / "props"), "GeffProps",
                 "Audit.v"], cwd=d, timeout=330)
        out = r.stdout + r.stderr
        if r.returncode != 0:
            res["failed"] = [f"{n} (audit failed)" for n in names]
            res["log"] += out[-3000:]
            return res
        chunks = out.split("@@ ")[1:]
        seen = {}
        for ch in chunks:
            name, _, rest = ch.partition("\n")
            seen[name.strip()] = rest
        for n in names:
            rest = seen.get(n, "")
            if "Closed under the global context" in rest:
                res["discharged"] += 1
            else:
                res["failed"].append(f"{n} (assumptions: {' '.join(rest.split())[:200]})")
    finally:
        shutil.rmtree(d, ignore_errors=True)
    return res


# --------------------------------------------------------------------------
# correspondence shards
# --------------------------------------------------------------------------
SHARD = 300


def coq_eval_cases(prop: str, terms: list[str], shard: int = SHARD, timeout=900) -> tuple[list[int], list[str]]:
    """Evaluate `check` of Geff.Corr.<prop> on the given case terms inside Coq.

    Returns (indices of mismatching cases, infrastructure errors)."""
    if not terms:
        return [], []
    WORK.mkdir(exist_ok=True)
    d = WORK / f"corr-{prop}-{os.getpid()}"
    shutil.rmtree(d, ignore_errors=True)
    d.mkdir()
    shards = [terms[i:i + shard] for i in range(0, len(terms), shard)]
    for k, sh in enumerate(shards):
        body = ";\n".join(sh)
        (d / f"cases_{k}.v").write_text(
            f"From Geff Require Import Base Dtype.\nFrom Geff.Corr Require Import {prop}.\n"
            "Open Scope list_scope.\n"
            f"Definition cases : list (input * obs) := [\n{body}\n].\n"
            "Definition bad := mism check cases.\n"
            'Goal True. idtac "@@BAD". exact I. Qed.\n'
            "Eval vm_compute in bad.\n"
            'Goal True. idtac "@@END". exact I. Qed.\n'
        )
    procs = []
    errors: list[str] = []
    mism: list[int] = []

    def launch(k):
        return subprocess.Popen(
            ["timeout", str(timeout), "coqc", "-Q", str(COQ / "theories"), "Geff", f"cases_{k}.v"],
            cwd=d, stdout=subprocess.PIPE, stderr=subprocess.STDOUT, text=True)

    pending = list(range(len(shards)))
    running: dict[int, subprocess.Popen] = {}
    while pending or running:
        while pending and len(running) < NCPU:
            k = pending.pop(0)
            running[k] = launch(k)
        done = [k for k, p in running.items() if p.poll() is not None]
        if not done:
            time.sleep(0.05)
            continue
        for k in done:
            p = running.pop(k)
            out = p.stdout.read()
            if p.returncode != 0 or "@@BAD" not in out or "@@END" not in out:
                errors.append(f"shard {k}: coqc exit {p.returncode}: {out[-1500:]}")
                continue
            seg = out.split("@@BAD", 1)[1].split("@@END", 1)[0]
            m = re.search(r"=\s*(.*?):\s*list nat", seg, re.S)
            if not m:
                errors.append(f"shard {k}: cannot parse {seg[:300]}")
                continue
            for tok in re.findall(r"\d+", m.group(1)):
                mism.append(k * shard + int(tok))
    if not errors:
        shutil.rmtree(d, ignore_errors=True)
    return sorted(mism), errors


def coq_model_output(prop: str, term: str, timeout=120) -> str:
    """`model input` printed by Coq for one case (used in replay files of correspondence mismatches)."""
    WORK.mkdir(exist_ok=True)
    d = WORK / f"dbg-{prop}-{os.getpid()}"
    d.mkdir(exist_ok=True)
    try:
        (d / "Dbg.v").write_text(
            f"From Geff Require Import Base Dtype.\nFrom Geff.Corr Require Import {prop}.\nOpen Scope list_scope.\n"
            f"Definition c : input * obs := {term}.\nEval vm_compute in (model (fst c)).\n")
        r = run(["timeout", str(timeout), "coqc", "-Q", str(COQ / "theories"), "Geff", "Dbg.v"], cwd=d, timeout=timeout + 10)
        return " ".join((r.stdout + r.stderr).split())[:4000]
    finally:
        shutil.rmtree(d, ignore_errors=True)


# --------------------------------------------------------------------------
# known findings
# --------------------------------------------------------------------------
def load_known_findings(prop: str) -> list[dict]:
    out = []
    p = VERIF / "KNOWN_FINDINGS.txt"
    if not p.exists():
        return out
    for line in p.read_text().splitlines():
        line = line.strip()
        if not line.startswith("open:"):
            continue
        m = re.match(r"open:\s+property=(\S+)\s+id=(\S+)\s+site=(\S+)\s+match=(\{.*?\})\s+what=(.*)$", line)
        if not m:
            raise HarnessError(f"unparsable KNOWN_FINDINGS line: {line}")
        if m.group(1) != prop:
            continue
        out.append({"id": m.group(2), "site": m.group(3), "match": json.loads(m.group(4)), "what": m.group(5)})
    return out


def finding_matches(finding: dict, tags: dict) -> bool:
    """A failure is covered by an open finding iff every key of `match` equals the failure's tag."""
    return all(tags.get(k) == v for k, v in finding["match"].items())


# --------------------------------------------------------------------------
# driver
# --------------------------------------------------------------------------
class Failure:
    def __init__(self, inp, obs, what: str, tags: dict | None = None):
        self.inp, self.obs, self.what, self.tags = inp, obs, what, tags or {}


def jsonable(x):
    import numpy as np

    if isinstance(x, dict):
        return {str(k): jsonable(v) for k, v in x.items()}
    if isinstance(x, (list, tuple)):
        return [jsonable(v) for v in x]
    if isinstance(x, np.ndarray):
        return {"__ndarray__": x.tolist() if x.dtype != object else [jsonable(v) for v in x], "dtype": str(x.dtype), "shape": list(x.shape)}
    if isinstance(x, (np.generic,)):
        return x.item()
    if isinstance(x, (bytes,)):
        return x.decode("latin1")
    if isinstance(x, float) and (x != x or x in (float("inf"), float("-inf"))):
        return repr(x)
    if isinstance(x, (str, int, float, bool)) or x is None:
        return x
    return repr(x)


def write_replay(prop: str, payload: dict) -> Path:
    REPLAYS.mkdir(exist_ok=True)
    blob = json.dumps(jsonable(payload), sort_keys=True, indent=1)
    h = hashlib.sha1(blob.encode()).hexdigest()[:12]
    p = REPLAYS / f"{prop}-{h}.json"
    p.write_text(blob)
    return p


def write_evidence(prop: str, tier: str, seed: int, coverage: dict, assumptions: list[str], wall: float, violations: int) -> None:
    # evidence/ describes runs against /repo itself; a run pointed at a scratch worktree (seeded change, mutation sweep, builder)
    # writes its evidence into the scratch area instead
    evid = EVID if str(REPO) == "/repo" else WORK / "evidence-scratch"
    evid.mkdir(parents=True, exist_ok=True)
    ev = {
        "property_id": prop, "tier": tier, "seed": seed, "level": "proof",
        "coverage": jsonable(coverage), "assumptions": assumptions, "wall_s": round(wall, 2),
        "violations": violations,
    }
    (evid / f"{prop}.json").write_text(json.dumps(ev, indent=1, sort_keys=True))


_POOL_MOD = None


def _pool_run(c):
    try:
        return ("ok", _POOL_MOD.run_impl(c))
    except HarnessError as e:
        return ("harness", str(e))
    except Exception:
        return ("crash", traceback.format_exc())


def run_impl_all(mod, cases: list) -> list:
    """Run the implementation on every case (in a fork pool when the module sets PARALLEL: cases are independent)."""
    global _POOL_MOD
    if getattr(mod, "PARALLEL", False) and len(cases) > 32:
        import multiprocessing as mp

        _POOL_MOD = mod
        with mp.get_context("fork").Pool(NCPU) as pool:
            res = pool.map(_pool_run, cases, chunksize=max(1, len(cases) // (NCPU * 8)))
    else:
        _POOL_MOD = mod
        res = [_pool_run(c) for c in cases]
    out = []
    for c, (tag, val) in zip(cases, res):
        if tag == "harness":
            raise HarnessError(val)
        if tag == "crash":  # a driver bug must not pass silently
            raise HarnessError(f"run_impl crashed on {c!r}: {val}")
        out.append(val)
    return out


def run_property(mod, tier: str, seed: int) -> int:
    """Generic check driver.  `mod` is a per-property module providing:

    PROP                     property id
    generate(rng, tier)      -> iterable of case dicts; each has 'kind' and the structured input
    run_impl(case)           -> observation (python structure) of the real implementation
    coq_case(case, obs)      -> Coq term of type (input * obs), or None if the case is oracle-only
    oracle(case, obs)        -> None | Failure (independent predicate written from the property text)
    nontrivial(case, obs)    -> bool
    describe(case, obs)      -> short string used for the input-distribution histogram
    optional: shrink(case, still_fails) -> smaller case; search(rng, budget_s) -> iterable of extra cases
    ASSUMPTIONS              list[str]
    """
    t0 = time.time()
    prop = mod.PROP
    rng = random.Random(seed)
    pin_environment()
    known = load_known_findings(prop)

    # 1. proof obligations
    audit = audit_property(prop)

    # 2. run the implementation on the generated cases
    cases = list(mod.generate(rng, tier))
    observed = run_impl_all(mod, cases)

    # 3. correspondence inside Coq
    terms, term_idx = [], []
    unprintable = []   # (case index, reason): the generated INPUT is inside the model's encoding by construction, so a value the term
    # printer cannot encode comes from what the implementation returned -- the model and the code disagree on that case (reported as a
    # correspondence mismatch with the case as replay, not as a harness error: under a changed implementation this is a detection)
    for i, (c, o) in enumerate(zip(cases, observed)):
        try:
            t = mod.coq_case(c, o)
        except HarnessError as e:
            unprintable.append((i, str(e)))
            continue
        if t is not None:
            terms.append(t)
            term_idx.append(i)
    mism, corr_errors = ([], [])
    if audit["log"] is not None and not any("build broken" in f or "translation failed" in f for f in audit["failed"]):
        mism, corr_errors = coq_eval_cases(prop, terms)
    else:
        corr_errors = ["model not built: correspondence skipped"]
    mism_cases = [term_idx[j] for j in mism] + [i for i, _ in unprintable]
    unprintable_why = dict(unprintable)

    # 4. oracle on everything the implementation produced
    failures: list[Failure] = []
    for c, o in zip(cases, observed):
        f = mod.oracle(c, o)
        if f is not None:
            failures.append(f)

    broken_proof = audit["discharged"] != audit["obligations"] or audit["obligations"] == 0
    broken_corr = bool(mism_cases) or bool(corr_errors)

    # 4a. thorough tier: the harvested corpus (calls of the modelled functions made by the repository's own test suite, recorded by
    # harness/harvest_plugin.py) is replayed against the same Corr module and judged by the same oracle (harness/harvest.py)
    harvested = None
    if tier == "thorough" and os.environ.get("VERIF_HARVEST", "1") != "0" and not any("build broken" in f or "translation failed" in f for f in audit["failed"]):
        from harness import harvest as _harvest

        harvested = _harvest.replay_property(prop, known)

    # 4b. widen the search when an obligation or the correspondence broke but no failing input is known yet
    new_fail = [f for f in failures if not any(finding_matches(k, f.tags) for k in known)]
    if (broken_proof or broken_corr) and not new_fail and hasattr(mod, "search"):
        t_search = time.time()
        for c in mod.search(rng, 120 if tier == "quick" else 600):
            o = mod.run_impl(c)
            f = mod.oracle(c, o)
            if f is not None and not any(finding_matches(k, f.tags) for k in known):
                new_fail.append(f)
                break
            if time.time() - t_search > (120 if tier == "quick" else 600):
                break

    # 5. report
    exit_code = 0
    printed_known = set()
    for f in failures:
        for k in known:
            if finding_matches(k, f.tags) and k["id"] not in printed_known:
                printed_known.add(k["id"])
                print(f"KNOWN-FINDING: property={prop} id={k['id']} {k['what']}")
    violations = 0
    reported = set()
    for f in new_fail:
        key = json.dumps(jsonable(f.tags), sort_keys=True)
        if key in reported:
            continue
        reported.add(key)
        inp = f.inp
        if hasattr(mod, "shrink"):
            try:
                inp = mod.shrink(f.inp)
            except Exception:
                inp = f.inp
        path = write_replay(prop, {
            "property": prop, "kind": "failing-input", "what": f.what, "tags": f.tags,
            "input": inp, "observed": f.obs,
            "replay_cmd": f"./check {prop} --replay <this file>",
        })
        print(f"VIOLATION property={prop} replay={path}")
        violations += 1
        exit_code = 1
        if violations >= 5:
            break
    if (broken_proof or broken_corr) and not new_fail:
        detail = {
            "property": prop, "kind": "no-failing-input-found",
            "broken_theorems": audit["failed"],
            "correspondence_errors": corr_errors[:3],
            "correspondence_mismatches": [],
            "build_log_tail": audit["log"][-2000:] if broken_proof else "",
        }
        for i in mism_cases[:5]:
            if i in unprintable_why:
                detail["correspondence_mismatches"].append({
                    "case": cases[i], "implementation_observed": observed[i],
                    "model_output": f"the observation is outside the model's encoding: {unprintable_why[i]}"})
                continue
            t = mod.coq_case(cases[i], observed[i])
            detail["correspondence_mismatches"].append({
                "case": cases[i], "implementation_observed": observed[i],
                "model_output": coq_model_output(prop, t) if not broken_proof else "n/a",
            })
        path = write_replay(prop, detail)
        print(f"VIOLATION property={prop} replay={path} no-failing-input-found")
        violations += 1
        exit_code = 1

    # 6. evidence
    hist = Counter(mod.describe(c, o) for c, o in zip(cases, observed))
    distinct = set()
    for c, o in zip(cases, observed):
        if mod.nontrivial(c, o):
            distinct.add(json.dumps(jsonable(c), sort_keys=True))
    samples = []
    step = max(1, len(cases) // 4)
    for i in range(0, len(cases), step):
        samples.append({"case": cases[i], "observed": observed[i]})
    coverage = {
        "obligations": audit["obligations"],
        "discharged": audit["discharged"],
        "theorems": audit["theorems"],
        "failed_obligations": audit["failed"],
        "checker_cmd": f"make -C coq props/{prop}.vo && coqc Audit.v (Print Assumptions of every theorem in props/{prop}.v)",
        "trusted_base": TRUSTED_BASE,
        "evaluations": len(cases),
        "distinct_nontrivial": len(distinct),
        "rule": getattr(mod, "RULE", ""),
        "traces_validated_against_impl": len(terms),
        "correspondence_mismatches": len(mism_cases),
        "correspondence_errors": corr_errors[:3],
        "oracle_failures": len(failures),
        "known_findings_hit": sorted(printed_known),
        "input_distribution": dict(sorted(hist.items(), key=lambda kv: -kv[1])[:60]),
        "samples": samples[:5],
        "exhaustive": False,
        "exhaustive_blocks": getattr(mod, "EXHAUSTIVE_BLOCKS", []),
    }
    if hasattr(mod, "extra_coverage"):
        coverage.update(mod.extra_coverage())
    if harvested is not None:
        coverage.update(harvested["coverage"])
        violations += harvested["violations"]
        if harvested["violations"]:
            exit_code = 1
        print(f"[{prop}] {harvested['line']}")
    write_evidence(prop, tier, seed, coverage, getattr(mod, "ASSUMPTIONS", []), time.time() - t0, violations)
    print(f"[{prop}] tier={tier} seed={seed} obligations={audit['discharged']}/{audit['obligations']} "
          f"cases={len(cases)} corr={len(terms)} mismatches={len(mism_cases)} corr_errors={len(corr_errors)} oracle_failures={len(failures)} "
          f"known={len(printed_known)} violations={violations} wall={time.time()-t0:.1f}s")
    return exit_code


def replay_property(mod, path: str) -> int:
    pin_environment()
    data = json.loads(Path(path).read_text())
    if data.get("kind") != "failing-input":
        print(json.dumps(data, indent=1)[:4000])
        print("replay: this file names a broken theorem / correspondence case (no failing input was found)")
        return 1
    case = mod.load_case(data["input"]) if hasattr(mod, "load_case") else data["input"]
    obs = mod.run_impl(case)
    f = mod.oracle(case, obs)
    print("input:", json.dumps(jsonable(case))[:2000])
    print("observed:", json.dumps(jsonable(obs))[:2000])
    if f is None:
        print("replay: property holds on this input now")
        return 0
    print("replay: FAILS:", f.what)
    return 1
