"""C20 -- mock-data generators honour their parameters and emit valid geffs.

Correspondence: create_dummy_in_mem_geff / create_mock_geff / create_simple_* / create_empty_geff are run on the
real code; the in-memory result and the store (read back with plain zarr, not with geff) are turned into two
"views" (ids, edges, dtypes, axes, property names / dtypes / lengths / missing masks / decoded var-length
elements, metadata entries) and compared, inside Coq, with the views computed by Mock.v.
Oracle: a plain-Python restatement of the property text over the same two views plus the verdicts of the real
validate_structure(store) and validate_data(in_memory, graph=True) named in the property as observation points.
"""
from __future__ import annotations

import hashlib
import itertools
import json
import random

import numpy as np

from harness.common import (DTYPE_COQ, Failure, HarnessError, cbool, clist, cnat, copt, cstr, cz, dtype_name,
                            exn_name)

PROP = "C20"

# ---------------------------------------------------------------- the documented parameter space
ID_DTYPES = ["uint", "uint8", "uint16", "uint32", "uint64"]            # NodeIdDTypeStr
ID_DTYPES_SIGNED = ["int", "int8", "int16", "int32", "int64"]          # used by the repository's own tests
PROP_DTYPES = ["double", "int", "int8", "uint8", "int16", "uint16", "float32", "float64", "str"]  # DTypeStr
AXIS_DTYPES = [d for d in PROP_DTYPES if d != "str"]
NP_NAME = {"uint": "uint64", "int": "int64", "double": "float64"}      # numpy aliases -> canonical names
ARRAY_DTYPES = ["bool", "int8", "int16", "int32", "int64", "uint8", "uint16", "uint32", "uint64", "float32", "float64", "str"]
# explicit arrays beyond the plainly storable ones: float16 is stored as float32 (create_props_metadata), a bytes /
# complex / datetime array has no geff dtype (rejected by PropMetadata)
ARRAY_DTYPES_UPCAST = ["float16"]
ARRAY_DTYPES_UNSTORABLE = ["bytes", "complex128", "datetime64[D]"]
ELEM_DTYPES = ["int64", "uint8", "int16", "uint64", "float32", "float64", "bool"]      # element arrays of an object array
RESERVED = ["t", "z", "y", "x", "var_length", "sparse_prop"]
NAMES = ["label", "score", "color", "w", "k0", "conf", "a b", "Z", "tt", "prop_9", "v", "u"]


def generated_names(p, side):
    """The property names the generator creates itself on that side (a request for an extra property of such a
    name is contradictory: since fix 42c98a8 it is rejected with ValueError)."""
    if side == "eep":
        return ["sparse_prop"] if p["missing"] else []
    return [a for a in "tzyx" if p[a]] + (["var_length"] if p["varlen"] else []) + (["sparse_prop"] if p["missing"] else [])

RULE = ("bounded-exhaustive: every (num_nodes<=12, num_edges<=max_possible+2, directed) through create_dummy_in_mem_geff; "
        "every subset of {t,z,y,x} x include_varlength x include_missing x directed x num_nodes in {0,1,3} x num_edges in {0,2} "
        "through create_mock_geff; all five wrappers on a grid; random: all id dtypes (unsigned and signed), all axis dtypes, "
        "extra node/edge property maps over every DTypeStr and explicit arrays (1-D/2-D, every storable dtype, float16, bytes / complex / "
        "datetime, object arrays of arrays -- uniform, mixed dtype, mixed rank, float16 elements -- and of non-arrays, 0-d), num_nodes up to 40, "
        "num_edges from 0 to beyond the maximum; names of generated properties as extra names, clashing (t with include_t, var_length with "
        "include_varlength, sparse_prop with include_missing, node and edge side) and not clashing (edge t, node t without include_t ...); "
        "boundary: num_nodes at/over the capacity of 8-bit id dtypes, node-side arange wrap (num_nodes 128..300 with int8/uint8 extras), "
        "num_edges<0, num_nodes<0, malformed extra-property maps (non-dict incl. a non-dict Mapping, non-string key, unsupported dtype, "
        "wrong length, wrong value type), non-integer id dtype, str id dtype, str axis dtype; non-trivial = accepted with at least one node; "
        "distinct by structural input")
EXHAUSTIVE_BLOCKS = [
    "create_dummy_in_mem_geff: all num_nodes<=12 x num_edges<=max_possible+2 x directed (edge lists compared exactly); "
    "thorough: the same through create_mock_geff (with include_missing and an edge property) for num_nodes<=8",
    "create_mock_geff: every subset of {t,z,y,x} x include_varlength x include_missing x directed x num_nodes in {0,1,3} x num_edges in {0,2} "
    "(thorough: num_nodes in {0,1,2,3,5} x num_edges in {0,2,7})",
    "wrappers: create_simple_2d/3d/temporal_geff on num_nodes<=6 x num_edges in {0,3,15,40} x directed, create_empty_geff x directed, defaults",
]
ASSUMPTIONS = [
    "numpy (arange / linspace / array casts), zarr MemoryStore and pydantic are modelled by their meaning; float payloads "
    "(linspace coordinates, float extra properties) are opaque in the model and compared store-vs-memory bit for bit by the oracle only",
    "parameter space = the documented one: node_id_dtype an integer dtype name, axis dtypes numeric DTypeStr names, extra property "
    "names are strings; a name the generator creates itself on that side (an included axis, var_length with include_varlength, "
    "sparse_prop with include_missing) makes the request contradictory and MUST be rejected (docstring since fix 42c98a8; checked); "
    "explicit arrays have a dtype geff can store, float16 counting as float32 (create_props_metadata documents the upcast); "
    "0 <= num_nodes, 0 <= num_edges",
    "outside the Coq correspondence, oracle only (reason): num_nodes < 0 (the model counts in nat; numpy raises in linspace / zeros); "
    "an explicit array whose dtype the finite dtype model lacks (complex, datetime); an object array with an element that is not a "
    "numpy array (AttributeError on a Python object has no model); a 0-d array (len() raises TypeError; VArray carries a length); "
    "dtype names numpy knows beyond the model's table",
    "object arrays of arrays are modelled (VObjArray -> variable-length property) and compared in Coq, but the theorems exclude them "
    "(req_wf) and the oracle treats them as outside the documented space: accepted results must still be valid geffs",
    "include_varlength with num_nodes=0 is rejected (IndexError in geff_spec.utils.create_props_metadata: no element to take the "
    "dtype from; candidate F01a, owned by C01) -- the property speaks about accepted combinations only; the model reproduces the error",
    "the store is read back with zarr-python directly (group / array API), geff's own reader is not used by the check",
]


# ---------------------------------------------------------------- case construction helpers
def base_case(kind="mock", **kw):
    c = {"kind": kind, "id": "uint8", "pos": "float64", "time": "float64", "directed": True, "n": 5, "e": 4,
         "enp": None, "eep": None, "t": True, "z": True, "y": True, "x": True, "varlen": False, "missing": False}
    c.update(kw)
    return c


def max_possible(directed, n):
    return n * (n - 1) if directed else n * (n - 1) // 2


def spec_dtype(dt):
    return {"dt": dt}


def spec_array(dt, length, tail=()):
    return {"arr": dt, "len": length, "tail": list(tail)}


def rand_extras(rng, count_for, used, malformed=None):
    """A list of [name, spec] pairs (kept as a list so that the order is part of the JSON case)."""
    k = rng.choice([0, 1, 1, 2, 3, 4])
    items = []
    for _ in range(k):
        pool = NAMES if rng.random() < 0.92 else RESERVED       # now and then the name of a generated property
        name = rng.choice([x for x in pool if x not in used] or [x for x in NAMES if x not in used])
        used.add(name)
        r = rng.random()
        if r < 0.6:
            items.append([name, spec_dtype(rng.choice(PROP_DTYPES))])
        elif r < 0.93:
            tail = rng.choice([(), (), (), (2,), (3, 2), (0,)])
            dts = ARRAY_DTYPES if rng.random() < 0.85 else ARRAY_DTYPES_UPCAST + ARRAY_DTYPES_UNSTORABLE[:1]
            items.append([name, spec_array(rng.choice(dts), count_for, tail)])
        else:
            items.append([name, rand_obj(rng, count_for, rng.choice(["uniform", "uniform", "mixed-dtype", "mixed-rank", "float16"]))])
    return items


def build_extras(items, kind):
    """JSON description -> the Python object handed to the generator."""
    if items is None:
        return None
    out = {}
    for name, spec in items:
        key = name if isinstance(name, str) else (int(name["key"]) if "key" in name else None)
        if "dt" in spec:
            val = spec["dt"]
        elif "arr" in spec:
            shape = (spec["len"], *spec["tail"])
            dt = spec["arr"]
            if dt == "str":
                val = np.array([f"s{i}" for i in range(int(np.prod(shape)))], dtype="str").reshape(shape)
            elif dt == "bytes":
                val = np.array([b"b%d" % (i % 7) for i in range(int(np.prod(shape)))], dtype="S").reshape(shape)
            elif dt.startswith("datetime64"):
                val = (np.arange(int(np.prod(shape))) % 2).astype("int64").astype(dt).reshape(shape)
            else:
                val = (np.arange(int(np.prod(shape))) % 2).astype(dt).reshape(shape)
        elif "obj" in spec:                     # object array of arrays: [[dtype, shape], ...]
            val = np.empty(len(spec["obj"]), dtype=object)
            for i, (edt, eshape) in enumerate(spec["obj"]):
                val[i] = obj_elem(edt, eshape)
        elif "objx" in spec:                    # object array holding Python objects that are not arrays
            val = np.empty(spec["objx"], dtype=object)
            for i in range(spec["objx"]):
                val[i] = [1, "a", None][i % 3]
        elif "arr0" in spec:                    # 0-d array
            val = np.array(5, dtype=spec["arr0"])
        else:
            val = {"int": 3, "none": None, "list": [1, 2, 3], "float": 0.5}[spec["bad"]]
        out[key] = val
    if kind == "list":
        return list(out.items())
    if kind == "mappingproxy":                  # a Mapping (the annotated type) that is not a dict
        import types

        return types.MappingProxyType(out)
    return out


def obj_elem(edt, eshape):
    size = int(np.prod(eshape)) if eshape else 1
    return (np.arange(size) % 3).astype(edt).reshape(eshape)


def spec_obj(elems):
    return {"obj": [[dt, list(shape)] for dt, shape in elems]}


def rand_obj(rng, count, flavour):
    """An object array of `count` element arrays: uniform / mixed dtype / mixed rank / float16 elements."""
    dt = rng.choice(ELEM_DTYPES)
    nd = rng.choice([1, 1, 2, 0])
    elems = [(dt, [rng.randint(0, 3) for _ in range(nd)]) for _ in range(count)]
    if flavour == "mixed-dtype" and count >= 2:
        i = rng.randrange(1, count)
        elems[i] = (rng.choice([d for d in ELEM_DTYPES if d != dt]), elems[i][1])
    elif flavour == "mixed-rank" and count >= 2:
        i = rng.randrange(1, count)
        elems[i] = (dt, elems[i][1] + [2])
    elif flavour == "float16":
        elems = [("float16", sh) for _, sh in elems]
    return spec_obj(elems)


# ---------------------------------------------------------------- generation
def _generate(rng: random.Random, tier: str):
    thorough = tier == "thorough"
    yield {"kind": "consts"}
    # block 1: the edge generator, exhaustively
    for directed in (False, True):
        for n in range(13):
            for e in range(max_possible(directed, n) + 3):
                yield base_case("dummy", directed=directed, n=n, e=e, z=False, y=False, x=False)
                if thorough and n <= 8:
                    yield base_case("mock", directed=directed, n=n, e=e, z=False, missing=True,
                                    eep=[["score", spec_dtype("float64")]])
    # block 2: axes x flags through the store
    for directed in (False, True):
        for n in (0, 1, 3) if not thorough else (0, 1, 2, 3, 5):
            for e in (0, 2) if not thorough else (0, 2, 7):
                for t, z, y, x in itertools.product((False, True), repeat=4):
                    for vl in (False, True):
                        for ms in (False, True):
                            yield base_case("mock", directed=directed, n=n, e=e, t=t, z=z, y=y, x=x, varlen=vl, missing=ms)
    # the two general generators called with their required arguments only (documented defaults: 5 nodes, 4 edges,
    # all four axes, no extra / variable-length / sparse property)
    for kind in ("dummy", "mock"):
        for directed in (False, True):
            for idt in ("uint8", "uint", "int"):
                yield base_case(kind, id=idt, directed=directed, defaults=True)
    # block 3: wrappers
    for kind in ("simple2d", "simple3d", "temporal"):
        yield {"kind": kind, "defaults": True}
        for directed in (False, True):
            for n in range(7):
                for e in (0, 3, 15, 40):
                    yield {"kind": kind, "n": n, "e": e, "directed": directed}
    yield {"kind": "empty", "defaults": True}
    for directed in (False, True):
        yield {"kind": "empty", "directed": directed}
    # random, mostly valid
    for _ in range(420 if not thorough else 10000):
        directed = rng.random() < 0.5
        n = rng.choice([0, 1, 2, 3, 4, 5, 6, 7, 9, 12, 17, 25, 40]) if rng.random() < 0.9 else rng.randint(0, 40)
        mp = max_possible(directed, n)
        e = rng.choice([0, 1, n - 1 if n else 0, n, mp // 2, mp - 1 if mp else 0, mp, mp + 1, mp + 7, rng.randint(0, mp + 3)])
        e = max(0, e)
        if n > 12 and rng.random() < 0.7:
            e = min(e, 3 * n)
        vl = rng.random() < 0.3
        if vl and n > 9:
            n = rng.randint(0, 9)
            e = min(e, max_possible(directed, n) + 2)
        used = set()
        c = base_case(rng.choice(["mock", "mock", "mock", "dummy"]),
                      id=rng.choice(ID_DTYPES + ID_DTYPES + ID_DTYPES_SIGNED), pos=rng.choice(AXIS_DTYPES), time=rng.choice(AXIS_DTYPES),
                      directed=directed, n=n, e=e, t=rng.random() < 0.7, z=rng.random() < 0.6, y=rng.random() < 0.7,
                      x=rng.random() < 0.7, varlen=vl, missing=rng.random() < 0.35)
        if rng.random() < 0.75:
            c["enp"] = rand_extras(rng, n, used)
        if rng.random() < 0.75:
            used_e = set()
            c["eep"] = rand_extras(rng, min(e, max_possible(directed, n)), used_e)
        yield c
    # boundary: capacity of the id dtype
    for idt, cap in (("uint8", 256), ("int8", 128)):
        for n in (cap - 1, cap, cap + 1, cap + 44):
            for e in (0, 3, n - 1, n + 5):
                for kind in ("dummy", "mock"):
                    yield base_case(kind, id=idt, n=n, e=e, directed=rng.random() < 0.5, z=False, y=False)
    # (16-bit only: were the capacity test ever lost, a request just above the 32- or 64-bit capacity would make the
    #  generator allocate without bound -- np.arange(2**63 + 1, dtype="int64") is empty and range(num_nodes) is not)
    for idt, n in (("uint16", 65537), ("int16", 32769)):
        yield base_case("dummy", id=idt, n=n, e=2)
    # boundary: negative edge request (outside the quantifier; the loops clamp at zero)
    for n in (0, 1, 4):
        for e in (-1, -5):
            yield base_case("dummy", n=n, e=e, directed=rng.random() < 0.5)
    # names of generated properties used as extra names: clashing (rejected since fix 42c98a8) and not clashing
    for kind in ("dummy", "mock"):
        for name, spec in (("t", spec_dtype("int8")), ("t", spec_dtype("str")), ("x", spec_array("float64", 3, (2,))),
                           ("z", spec_dtype("float32")), ("y", spec_array("float16", 3))):
            yield base_case(kind, n=3, e=2, enp=[[name, spec]])                         # clash with the included axis
            yield base_case(kind, n=3, e=2, enp=[[name, spec]], **{name: False})        # no clash: the axis is not included
            yield base_case(kind, n=3, e=2, enp=[["ok", spec_dtype("int")], [name, spec]])
            espec = dict(spec, len=2) if "arr" in spec else spec
            yield base_case(kind, n=3, e=2, eep=[[name, espec]])                        # edge side: never a clash with an axis
        for vl in (False, True):
            for ms in (False, True):
                yield base_case(kind, n=3, e=2, varlen=vl, missing=ms, enp=[["var_length", spec_dtype("int")]])
                yield base_case(kind, n=3, e=2, varlen=vl, missing=ms, enp=[["sparse_prop", spec_dtype("int")]])
                yield base_case(kind, n=3, e=2, varlen=vl, missing=ms, eep=[["sparse_prop", spec_dtype("str")]])
                yield base_case(kind, n=3, e=2, varlen=vl, missing=ms, eep=[["var_length", spec_dtype("str")]])
                yield base_case(kind, n=3, e=2, varlen=vl, missing=ms,
                                enp=[["sparse_prop", spec_dtype("int")]], eep=[["sparse_prop", spec_dtype("str")]])
        yield base_case(kind, n=0, e=0, varlen=True, enp=[["t", spec_dtype("int")]])     # ValueError before the IndexError
    # explicit arrays beyond the plainly storable dtypes
    for kind in ("dummy", "mock"):
        for side, count in (("enp", 3), ("eep", 2)):
            for dt in ARRAY_DTYPES_UPCAST + ARRAY_DTYPES_UNSTORABLE:
                for tail in ((), (2,)):
                    c = base_case(kind, n=3, e=2, z=False)
                    c[side] = [["given", spec_array(dt, count, tail)], ["k0", spec_dtype("uint8")]]
                    yield c
            for flavour in ("uniform", "uniform", "mixed-dtype", "mixed-rank", "float16"):
                c = base_case(kind, n=3, e=2, z=False, missing=rng.random() < 0.5)
                c[side] = [["o", rand_obj(rng, count, flavour)]]
                yield c
            c = base_case(kind, n=3, e=2)
            c[side] = [["o", {"objx": count}]]
            yield c
            c = base_case(kind, n=3, e=2)
            c[side] = [["z0", {"arr0": "int64"}]]
            yield c
            c = base_case(kind, n=0, e=0)                       # an empty object array: no element to take the dtype from
            c[side] = [["o", spec_obj([])]]
            yield c
            c = base_case(kind, n=0, e=0)
            c[side] = [["h", spec_array("float16", 0, (2,))]]
            yield c
            c = base_case(kind, n=3, e=2)
            c[side] = [["a", spec_dtype("int")]]
            c[side + "_kind"] = "mappingproxy"
            yield c
    # node-side arange wrap-around in a small integer dtype (edge-side wrap needs > 127 edges)
    for n in (128, 200, 300):
        for kind in ("dummy", "mock"):
            yield base_case(kind, id="uint16", n=n, e=3, z=False, y=False,
                            enp=[["a", spec_dtype("int8")], ["b", spec_dtype("uint8")], ["c", spec_dtype("int16")]])
    # outside the documented space: a negative node count, a str id dtype
    for kind in ("dummy", "mock"):
        yield base_case(kind, n=-1, e=2)
        yield base_case(kind, n=-1, e=2, z=False, y=False, x=False)
        yield base_case(kind, n=-1, e=2, z=False, y=False, x=False, enp=[["a", spec_dtype("int")]], missing=True)
        yield base_case(kind, n=-2, e=0, t=False, z=False, y=False, x=False, enp=[["a", spec_array("int8", 0)]])
        for n in (0, 3):
            yield base_case(kind, id="str", n=n, e=2)
    # malformed stream
    bad_specs = [
        [["a", {"dt": "int32"}]], [["a", {"dt": "float16"}]], [["a", {"dt": ""}]], [["a", {"dt": "bool"}]], [["a", {"dt": "uint32"}]],
        [["a", {"bad": "int"}]], [["a", {"bad": "none"}]], [["a", {"bad": "list"}]], [["a", {"bad": "float"}]],
        [[{"key": 3}, {"dt": "int"}]], [["ok", {"dt": "int"}], [{"key": 7}, {"dt": "str"}]],
        [["a", "LEN+1"]], [["a", "LEN-1"]], [["ok", {"dt": "float32"}], ["a", "LEN+1"]], [["a", "LEN+1"], ["b", {"dt": "nope"}]],
    ]
    for _ in range(1 if not thorough else 4):
        for spec in bad_specs:
            for side in ("enp", "eep"):
                for kind in ("dummy", "mock"):
                    n = rng.choice([0, 1, 3, 5])
                    directed = rng.random() < 0.5
                    e = rng.choice([0, 2, 4, 30])
                    count = n if side == "enp" else min(e, max_possible(directed, n))
                    items = []
                    for name, s in spec:
                        if s == "LEN+1":
                            s = spec_array(rng.choice(ARRAY_DTYPES), count + 1)
                        elif s == "LEN-1":
                            s = spec_array(rng.choice(ARRAY_DTYPES), max(0, count - 1)) if count else spec_array("int8", 2)
                        items.append([name, s])
                    c = base_case(kind, n=n, e=e, directed=directed, varlen=rng.random() < 0.3, missing=rng.random() < 0.3)
                    c[side] = items
                    yield c
    for side in ("enp", "eep"):
        for kind in ("dummy", "mock"):
            c = base_case(kind, n=3, e=2)
            c[side] = [["a", {"dt": "int"}]]
            c[side + "_kind"] = "list"
            yield c
            c = base_case(kind, n=0, e=0, varlen=True)          # error precedence: ValueError before the IndexError
            c[side] = [["a", {"dt": "nope"}]]
            yield c
    for kind in ("dummy", "mock"):
        for idt in ("float32", "float64"):
            yield base_case(kind, id=idt, n=3, e=2)
            yield base_case(kind, id=idt, n=0, e=0)
        for n in (0, 2):
            yield base_case(kind, time="str", n=n, e=0)
            yield base_case(kind, pos="str", n=n, e=0, t=False)
            yield base_case(kind, pos="str", n=n, e=0, t=False, z=False, y=False, x=False)
        yield base_case(kind, n=0, e=0, varlen=True)
        yield base_case(kind, n=0, e=0, varlen=True, missing=True)
        yield base_case(kind, id="nope", n=2, e=1)
        yield base_case(kind, time="nope", n=2, e=1)
        yield base_case(kind, pos="nope", n=2, e=1, t=False)
        yield base_case(kind, pos="nope", n=2, e=1, t=False, z=False, y=False, x=False)


# ---------------------------------------------------------------- implementation + observation
def _digest(a) -> str:
    a = np.asarray(a)
    if a.dtype.kind in "US":
        blob = json.dumps(a.tolist())
    elif a.dtype.kind == "O":
        blob = json.dumps([[list(np.asarray(x).shape), dtype_name(np.asarray(x).dtype), np.asarray(x).ravel().tolist()] for x in a])
    else:
        blob = a.astype(a.dtype.newbyteorder("=")).tobytes().hex()
    return hashlib.sha1((dtype_name(a.dtype) + str(a.shape) + blob).encode()).hexdigest()[:16]


def _ints(a):
    """Payload as integers when it is integer-valued and short (ids, arange-like properties), else None."""
    a = np.asarray(a)
    if a.ndim != 1 or a.dtype.kind not in "iuf" or a.shape[0] > 4500:
        return None
    if a.dtype.kind == "f":
        if not np.all(np.isfinite(a)) or not np.all(a == np.floor(a)):
            return None
    return [int(v) for v in a.tolist()]


def _prop_view(name, values, missing, data=None):
    """One property as seen in memory (data is None) or in the store (data = the var-length data array or None)."""
    values = np.asarray(values)
    pv = {"name": name, "missing": None if missing is None else [bool(b) for b in np.asarray(missing).tolist()],
          "missing_dtype": None if missing is None else dtype_name(np.asarray(missing).dtype),
          "missing_shape": None if missing is None else list(np.asarray(missing).shape)}
    if data is None and values.dtype.kind == "O":
        elems = [np.asarray(x) for x in values]
        pv.update(varlen=True, len=int(values.shape[0]), tail=list(values.shape[1:]),
                  dtype=dtype_name(elems[0].dtype) if elems else None,
                  elem_dtypes=sorted({dtype_name(x.dtype) for x in elems}),
                  vl=[[list(x.shape), [int(v) for v in x.ravel().tolist()]] for x in elems], ints=None,
                  digest=_digest(values))
    elif data is not None:
        data = np.asarray(data)
        rows = values.tolist()
        vl = []
        for row in rows:
            off, shape = int(row[0]), [int(s) for s in row[1:]]
            size = int(np.prod(shape)) if shape else 1
            chunk = data[off:off + size]
            if chunk.shape[0] != size:
                raise HarnessError(f"store var-length property {name}: slice out of the data array")
            vl.append([shape, [int(v) for v in chunk.tolist()]])
        pv.update(varlen=True, len=int(values.shape[0]), tail=[], dtype=dtype_name(data.dtype), elem_dtypes=[dtype_name(data.dtype)],
                  vl=vl, ints=None, values_dtype=dtype_name(values.dtype),
                  digest=hashlib.sha1(json.dumps([[s, dtype_name(data.dtype), f] for s, f in vl]).encode()).hexdigest()[:16])
    else:
        pv.update(varlen=False, len=int(values.shape[0]) if values.ndim else -1, tail=list(values.shape[1:]),
                  dtype=dtype_name(values.dtype), vl=[], ints=_ints(values), digest=_digest(values))
    return pv


def _vl_digest(pv):
    return hashlib.sha1(json.dumps([[s, pv["dtype"], f] for s, f in pv["vl"]]).encode()).hexdigest()[:16]


def _meta_view(md: dict):
    axes = md.get("axes")
    return {
        "directed": md["directed"],
        "axes": None if axes is None else [{"name": a["name"], "type": a["type"], "unit": a["unit"], "min": a["min"], "max": a["max"]}
                                           for a in axes],
        "nmeta": [{"name": k, "id": v["identifier"], "dtype": v["dtype"], "varlen": bool(v["varlength"]), "unit": v["unit"]}
                  for k, v in md["node_props_metadata"].items()],
        "emeta": [{"name": k, "id": v["identifier"], "dtype": v["dtype"], "varlen": bool(v["varlength"]), "unit": v["unit"]}
                  for k, v in md["edge_props_metadata"].items()],
        "other": {k: md.get(k) for k in ("sphere", "ellipsoid", "track_node_props", "related_objects", "display_hints")},
    }


def mem_view(g):
    v = _meta_view(g["metadata"].model_dump())
    nid, eid = np.asarray(g["node_ids"]), np.asarray(g["edge_ids"])
    v.update(iddt=dtype_name(nid.dtype), idshape=list(nid.shape), ids=[int(x) if float(x) == int(x) else None for x in nid.tolist()],
             edt=dtype_name(eid.dtype), eshape=list(eid.shape),
             edges=[[int(a), int(b)] for a, b in eid.tolist()] if eid.ndim == 2 and eid.shape[1] == 2 else None,
             nprops=[_prop_view(k, p["values"], p["missing"]) for k, p in g["node_props"].items()],
             eprops=[_prop_view(k, p["values"], p["missing"]) for k, p in g["edge_props"].items()])
    for pv in v["nprops"] + v["eprops"]:
        if pv["varlen"]:
            pv["digest"] = _vl_digest(pv)
    return v


def store_view(store, order_n, order_e):
    """Read the store with zarr only (independent of geff's reader)."""
    import zarr

    root = zarr.open_group(store, mode="r")
    v = _meta_view(dict(root.attrs)["geff"])
    nid, eid = root["nodes/ids"][...], root["edges/ids"][...]
    v.update(iddt=dtype_name(nid.dtype), idshape=list(nid.shape), ids=[int(x) for x in nid.tolist()],
             edt=dtype_name(eid.dtype), eshape=list(eid.shape),
             edges=[[int(a), int(b)] for a, b in eid.tolist()] if eid.ndim == 2 and eid.shape[1] == 2 else None)
    v["top"] = sorted(root.keys())
    for grp, key, order in (("nodes", "nprops", order_n), ("edges", "eprops", order_e)):
        g = root[grp]
        v[grp + "_keys"] = sorted(g.keys())
        props = []
        if "props" in g:
            pg = g["props"]
            names = list(pg.keys())
            names = [k for k in order if k in names] + sorted(k for k in names if k not in order)
            for name in names:
                sub = pg[name]
                arrays = set(sub.array_keys())
                extra = sorted(set(sub.keys()) - {"values", "missing", "data"})
                pv = _prop_view(name, sub["values"][...], sub["missing"][...] if "missing" in arrays else None,
                                sub["data"][...] if "data" in arrays else None)
                pv["unexpected"] = extra
                props.append(pv)
        else:
            props = None
        v[key] = props
    return v


def store_layout(store):
    """Every member of the store below the root (zarr API): [path, None] for a group, [path, [dtype, shape]] for an array."""
    import zarr

    out = []

    def walk(g, prefix):
        for k in sorted(g.keys()):
            x = g[k]
            if isinstance(x, zarr.Group):
                out.append([prefix + k, None])
                walk(x, prefix + k + "/")
            else:
                out.append([prefix + k, [dtype_name(x.dtype), [int(d) for d in x.shape]]])
    walk(zarr.open_group(store, mode="r"), "")
    return out


def call_impl(c):
    from geff.testing import data as D

    k = c["kind"]
    if k in ("simple2d", "simple3d", "temporal"):
        f = {"simple2d": D.create_simple_2d_geff, "simple3d": D.create_simple_3d_geff, "temporal": D.create_simple_temporal_geff}[k]
        return f() if c.get("defaults") else f(num_nodes=c["n"], num_edges=c["e"], directed=c["directed"])
    if k == "empty":
        return D.create_empty_geff() if c.get("defaults") else D.create_empty_geff(directed=c["directed"])
    kw = dict(node_id_dtype=c["id"], node_axis_dtypes={"position": c["pos"], "time": c["time"]}, directed=c["directed"],
              num_nodes=c["n"], num_edges=c["e"],
              extra_node_props=build_extras(c["enp"], c.get("enp_kind")), extra_edge_props=build_extras(c["eep"], c.get("eep_kind")),
              include_t=c["t"], include_z=c["z"], include_y=c["y"], include_x=c["x"],
              include_varlength=c["varlen"], include_missing=c["missing"])
    if c.get("defaults"):
        kw = dict(node_id_dtype=c["id"], node_axis_dtypes={"position": c["pos"], "time": c["time"]}, directed=c["directed"])
    if k == "dummy":
        return None, D.create_dummy_in_mem_geff(**kw)
    return D.create_mock_geff(**kw)


_CACHE: dict[str, dict] = {}


def _key(c) -> str:
    return json.dumps(c, sort_keys=True)


def _worker_init():
    from harness import common

    common.pin_environment()


def _prefetch(cases):
    """Run the implementation on the store-writing cases in worker processes (zarr's MemoryStore round trip costs
    ~0.1 s per case); results are the same observations run_impl computes, keyed by the case."""
    heavy = [c for c in cases if c["kind"] not in ("consts", "dummy") and _key(c) not in _CACHE]
    if len(heavy) < 64:
        return
    try:
        import multiprocessing as mp
        import os

        workers = max(2, min(8, (os.cpu_count() or 4) // 2))
        with mp.get_context("forkserver").Pool(workers, initializer=_worker_init) as pool:
            for c, o in zip(heavy, pool.map(_run_impl, heavy, chunksize=8)):
                _CACHE[_key(c)] = o
    except Exception:  # noqa: BLE001 -- no worker pool available: run_impl computes sequentially
        return


def generate(rng: random.Random, tier: str):
    cases = list(_generate(rng, tier))
    _prefetch(cases)
    return cases


def run_impl(c):
    k = _key(c)
    if k in _CACHE:
        return _CACHE[k]
    return _run_impl(c)


def _run_impl(c):
    if c["kind"] == "consts":
        from typing import get_args

        from geff.testing import data as D

        return {"prop_dtypes": list(get_args(D.DTypeStr)), "id_dtypes": list(get_args(D.NodeIdDTypeStr))}
    try:
        store, g = call_impl(c)
    except Exception as ex:  # noqa: BLE001 -- the class is the observation
        return {"exc": exn_name(ex), "exc_type": type(ex).__name__}
    from geff.validate.data import ValidationConfig, validate_data
    from geff.validate.structure import validate_structure

    out = {"mem": mem_view(g)}
    try:
        validate_data(g, ValidationConfig(graph=True))
        out["graph"] = "ok"
    except Exception as ex:  # noqa: BLE001
        out["graph"] = exn_name(ex)
    if store is not None:
        out["store_type"] = type(store).__name__
        try:
            validate_structure(store)
            out["struct"] = "ok"
        except Exception as ex:  # noqa: BLE001
            out["struct"] = exn_name(ex)
        out["store"] = store_view(store, [p["name"] for p in out["mem"]["nprops"]], [p["name"] for p in out["mem"]["eprops"]])
        out["layout"] = store_layout(store)
    return out


# ---------------------------------------------------------------- the request, resolved (wrappers -> explicit parameters)
def resolve(c):
    """Parameters a case asks for, in the vocabulary of the property (wrappers as documented in their docstrings)."""
    k = c["kind"]
    if k in ("simple2d", "simple3d", "temporal"):
        n, e, d = (10, 15, False) if c.get("defaults") else (c["n"], c["e"], c["directed"])
        return base_case("mock", id="uint", n=n, e=e, directed=d, t=True, z=(k == "simple3d"), y=(k != "temporal"), x=(k != "temporal"),
                         eep=[["score", spec_dtype("float64")], ["color", spec_dtype("int")]])
    if k == "empty":
        return base_case("mock", id="uint", n=0, e=0, directed=False if c.get("defaults") else c["directed"],
                         t=False, z=False, y=False, x=False)
    return c


def extras_problem(items, kind, count, generated=()):
    """None if the extra-property map is one the generators document, else a reason."""
    if items is None:
        return None
    if kind in ("list", "mappingproxy"):
        return "not a dict"
    seen = set()
    for name, spec in items:
        if not isinstance(name, str):
            return "non-string key"
        if name in generated or name in seen:
            return "name clash"
        seen.add(name)
        if "dt" in spec:
            if spec["dt"] not in PROP_DTYPES:
                return "unsupported dtype"
        elif "arr" in spec:
            if spec["len"] != count:
                return "wrong length"
            if spec["arr"] in ARRAY_DTYPES_UNSTORABLE:
                return "array dtype geff cannot store"
        elif "obj" in spec or "objx" in spec:
            return "object array"
        elif "arr0" in spec:
            return "0-d array"
        else:
            return "wrong value type"
    return None


def has_clash(p):
    for side in ("enp", "eep"):
        if p.get(side + "_kind") in ("list", "mappingproxy") or not p[side]:
            continue
        gen = generated_names(p, side)
        if any(isinstance(n, str) and n in gen for n, _ in p[side]):
            return True
    return False


def in_domain(p):
    """(inside the documented parameter space?, must the generator accept it?, reason)"""
    if p["id"] not in ID_DTYPES + ID_DTYPES_SIGNED:
        return False, "id dtype"
    if p["pos"] not in AXIS_DTYPES and (p["z"] or p["y"] or p["x"]):
        return False, "position dtype"
    if p["time"] not in AXIS_DTYPES and p["t"]:
        return False, "time dtype"
    if p["n"] < 0 or p["e"] < 0:
        return False, "negative count"
    n_edges = min(p["e"], max_possible(p["directed"], p["n"]))
    for side, count in (("enp", p["n"]), ("eep", n_edges)):
        why = extras_problem(p[side], p.get(side + "_kind"), count, generated_names(p, side))
        if why:
            return False, f"{side}: {why}"
    cap = int(np.iinfo(NP_NAME.get(p["id"], p["id"])).max) + 1
    if p["n"] > cap:
        return False, "num_nodes exceeds the id dtype"
    if p["varlen"] and p["n"] == 0:
        return False, "var-length property without nodes (F01a)"
    return True, ""


# ---------------------------------------------------------------- oracle (from the property text)
def graph_problems(ids, edges, directed):
    probs = []
    idset = set(ids)
    if len(idset) != len(ids):
        probs.append("node ids not unique")
    if any(a not in idset or b not in idset for a, b in edges):
        probs.append("edge endpoint is not a node")
    if any(a == b for a, b in edges):
        probs.append("self edge")
    keyed = [tuple(e) for e in edges] if directed else [tuple(sorted(e)) for e in edges]
    if len(set(keyed)) != len(keyed):
        probs.append("repeated edge")
    return probs


def same_graph(m, s):
    """Differences between the in-memory view and the store view (the store denotes the graph by the geff spec)."""
    diffs = []
    for k in ("directed", "axes", "nmeta", "emeta", "other", "iddt", "ids", "edt", "edges", "eshape", "idshape"):
        if m[k] != s[k]:
            diffs.append(k)
    for key in ("nprops", "eprops"):
        sp = s[key] or []
        if [p["name"] for p in m[key]] != [p["name"] for p in sp]:
            diffs.append(f"{key}: names {[p['name'] for p in m[key]]} vs {[p['name'] for p in sp]}")
            continue
        for a, b in zip(m[key], sp):
            for f in ("varlen", "len", "tail", "dtype", "missing", "digest", "vl"):
                if a[f] != b[f]:
                    diffs.append(f"{key}.{a['name']}.{f}")
    return diffs


def structure_problems(s):
    """The geff layout rules that concern what the generators write (specification, not geff's validator)."""
    probs = []
    if s["top"] != ["edges", "nodes"]:
        probs.append(f"top-level groups {s['top']}")
    if len(s["idshape"]) != 1:
        probs.append("nodes/ids is not 1-D")
    if len(s["eshape"]) != 2 or s["eshape"][1] != 2:
        probs.append("edges/ids is not (E, 2)")
    if s["iddt"] != s["edt"] or not s["iddt"].startswith(("int", "uint")):
        probs.append("id dtypes")
    for key, meta, count in (("nprops", "nmeta", len(s["ids"])), ("eprops", "emeta", s["eshape"][0])):
        props = s[key] or []
        declared = {m["name"]: m for m in s[meta]}
        if any(m["name"] != m["id"] for m in s[meta]):
            probs.append(f"{meta}: key differs from identifier")
        if sorted(declared) != sorted(p["name"] for p in props):
            probs.append(f"{key}: stored {sorted(p['name'] for p in props)} declared {sorted(declared)}")
            continue
        for p in props:
            m = declared[p["name"]]
            if p["len"] != count:
                probs.append(f"{key}.{p['name']}: length {p['len']} != {count}")
            if p["missing"] is not None and (p["missing_shape"] != [count] or p["missing_dtype"] != "bool"):
                probs.append(f"{key}.{p['name']}: missing mask shape/dtype")
            if m["varlen"] != p["varlen"] or m["dtype"] != p["dtype"]:
                probs.append(f"{key}.{p['name']}: metadata says {m['dtype']}/{m['varlen']}, stored {p['dtype']}/{p['varlen']}")
            if p["varlen"] and p.get("values_dtype") != "uint64":
                probs.append(f"{key}.{p['name']}: var-length index table is not uint64")
            if p["unexpected"]:
                probs.append(f"{key}.{p['name']}: unexpected members {p['unexpected']}")
    stored = {p["name"]: p for p in (s["nprops"] or [])}
    names = [a["name"] for a in (s["axes"] or [])]
    if len(set(names)) != len(names):
        probs.append("duplicate axis names")
    for a in s["axes"] or []:
        p = stored.get(a["name"])
        if p is None or p["missing"] is not None or p["tail"] or p["varlen"]:
            probs.append(f"axis {a['name']} is not a 1-D property without missing values")
    return probs


AXIS_SPEC = {"t": ("time", "second"), "z": ("space", "nanometer"), "y": ("space", "nanometer"), "x": ("space", "nanometer")}


def request_problems(p, v, where):
    """Does one view carry exactly what was requested?  Returns (tag, text) pairs."""
    probs = []
    n, directed = p["n"], p["directed"]
    want_edges = min(p["e"], max_possible(directed, n))
    iddt = NP_NAME.get(p["id"], p["id"])
    if v["idshape"] != [n] or v["ids"] != list(range(n)):
        probs.append(("nodes", f"{where}: node ids are not 0..{n - 1}: shape {v['idshape']}"))
    if v["eshape"] != [want_edges, 2]:
        probs.append(("edge-count", f"{where}: edge ids have shape {v['eshape']}, expected ({want_edges}, 2) = min(requested, possible)"))
    if v["directed"] != directed:
        probs.append(("directed", f"{where}: directed={v['directed']}"))
    if v["iddt"] != iddt or v["edt"] != iddt:
        probs.append(("id-dtype", f"{where}: id dtypes {v['iddt']}/{v['edt']}, requested {iddt}"))
    want_axes = [a for a in "tzyx" if p[a]]
    got_axes = [a["name"] for a in (v["axes"] or [])]
    if got_axes != want_axes:
        probs.append(("axes", f"{where}: axes {got_axes}, requested {want_axes}"))
    for a in v["axes"] or []:
        if a["name"] in AXIS_SPEC and (a["type"], a["unit"]) != AXIS_SPEC[a["name"]]:
            probs.append(("axes", f"{where}: axis {a['name']} is {a['type']}/{a['unit']}"))
    want_n = [(a, NP_NAME.get(p["time" if a == "t" else "pos"], p["time" if a == "t" else "pos"]), False, False) for a in want_axes]
    want_e = []
    for side, want, in (("enp", want_n), ("eep", want_e)):
        for name, spec in p[side] or []:
            dt = spec["dt"] if "dt" in spec else spec["arr"]
            if "arr" in spec and dt == "float16":
                dt = "float32"              # create_props_metadata: "If dtype is float16, upcasts to float32"
            want.append((name, NP_NAME.get(dt, dt), False, False))
    if p["varlen"]:
        want_n.append(("var_length", "uint64", True, True))
    if p["missing"]:
        want_n.append(("sparse_prop", "float64", False, True))
        want_e.append(("sparse_prop", "float64", False, True))
    for key, meta, want, count in (("nprops", "nmeta", want_n, n), ("eprops", "emeta", want_e, want_edges)):
        props = v[key] or []
        # (whether the variable-length property carries a mask is not part of the property text: not compared)
        got = sorted((q["name"], q["dtype"], q["varlen"], q["missing"] is not None or (q["varlen"] and q["name"] == "var_length"))
                     for q in props)
        if got != sorted(want):
            tag = "props"
            gm = {(g_[0], g_[3]) for g_ in got}
            wm = {(w[0], w[3]) for w in want}
            if {g_[0] for g_ in got} == {w[0] for w in want} and gm != wm:
                tag = "missing-flag"
            elif ("sparse_prop" in {w[0] for w in want}) != ("sparse_prop" in {g_[0] for g_ in got}):
                tag = "sparse"
            elif ("var_length" in {w[0] for w in want}) != ("var_length" in {g_[0] for g_ in got}):
                tag = "varlength"
            probs.append((tag, f"{where}: {key} (name, dtype, var-length, missing-bearing) = {got}, requested {sorted(want)}"))
        declared = sorted((m["name"], m["dtype"], m["varlen"]) for m in v[meta])
        if declared != sorted(w[:3] for w in want):
            probs.append(("metadata", f"{where}: {meta} declares {declared}, requested {sorted(w[:3] for w in want)}"))
        for q in props:
            if q["len"] != count:
                probs.append(("prop-length", f"{where}: {key}.{q['name']} has {q['len']} entries for {count} elements"))
            if q["missing"] is not None and len(q["missing"]) != count:
                probs.append(("prop-length", f"{where}: {key}.{q['name']} missing mask has {len(q['missing'])} entries for {count}"))
        for name, spec in (p["enp" if key == "nprops" else "eep"] or []):
            if "arr" in spec:
                q = next((q for q in props if q["name"] == name), None)
                if q is not None and q["tail"] != spec["tail"]:
                    probs.append(("props", f"{where}: {key}.{name} has trailing shape {q['tail']}, the given array {spec['tail']}"))
    return probs


def oracle(c, o):
    if c["kind"] == "consts":
        if o["prop_dtypes"] != PROP_DTYPES or o["id_dtypes"] != ID_DTYPES:
            return Failure(c, o, "DTypeStr / NodeIdDTypeStr changed: the documented parameter space is not the checked one", {"why": "consts"})
        return None
    p = resolve(c)
    inside, why = in_domain(p)
    tags = {"kind": c["kind"], "directed": p["directed"]}
    if "exc" in o:
        if inside:
            return Failure(c, o, f"documented parameter combination rejected with {o['exc_type']}", dict(tags, why="rejects"))
        return None
    if c["kind"] in ("dummy", "mock") and p["n"] >= 0 and has_clash(p):
        # "mock-data generators honour their parameters": a request for an extra property named like a property the
        # generator creates itself cannot be honoured (one of the two is lost) -- documented as a ValueError
        return Failure(c, o, "accepted a request whose extra property has the name of a generated property "
                             f"({why}): either the coordinate / flag property or the requested one is lost",
                       dict(tags, why="accepts-clash"))
    if not inside:
        if why in ("negative count",):
            return None
        # accepted although outside the documented space: whatever is returned must still be a valid geff
        mem = o["mem"]
        if mem["ids"] is not None and None not in mem["ids"] and mem["edges"] is not None:
            gp = graph_problems(mem["ids"], mem["edges"], mem["directed"])
            if gp or o["graph"] != "ok":
                return Failure(c, o, f"accepted ({why}) but the result fails graph validation: {gp or o['graph']}", dict(tags, why="invalid-graph"))
        if "struct" in o and o["struct"] != "ok":
            return Failure(c, o, f"accepted ({why}) but the store is structurally invalid", dict(tags, why="invalid-structure"))
        return None
    mem = o["mem"]
    views = [("memory", mem)] + ([("store", o["store"])] if "store" in o else [])
    for where, v in views:
        if v["edges"] is None or None in v["ids"]:
            return Failure(c, o, f"{where}: ids / edges are not integer arrays of shape (N,), (E, 2)", dict(tags, why="shape"))
        gp = graph_problems(v["ids"], v["edges"], v["directed"])
        if gp:
            return Failure(c, o, f"{where}: not a valid graph: {gp} (n={p['n']}, e={p['e']})", dict(tags, why="invalid-graph", what=gp[0]))
    if o["graph"] != "ok":
        return Failure(c, o, f"validate_data(graph=True) raised {o['graph']}", dict(tags, why="graph-validation"))
    for where, v in views:
        rp = request_problems(p, v, where)
        if rp:
            return Failure(c, o, "; ".join(t for _, t in rp[:3]), dict(tags, why=rp[0][0]))
    if "store" in o:
        if o["struct"] != "ok":
            return Failure(c, o, f"validate_structure(store) raised {o['struct']}", dict(tags, why="structure-validation"))
        sp = structure_problems(o["store"])
        if sp:
            return Failure(c, o, f"store violates the layout rules: {sp[:3]}", dict(tags, why="invalid-structure"))
        diffs = same_graph(mem, o["store"])
        if diffs:
            return Failure(c, o, f"store and in-memory geff differ in {diffs[:4]}", dict(tags, why="same-graph"))
        if o["store_type"] != "MemoryStore":
            return Failure(c, o, f"store is a {o['store_type']}", dict(tags, why="store-type"))
    return None


def nontrivial(c, o):
    return "mem" in o and len(o["mem"]["ids"]) > 0


def describe(c, o):
    if c["kind"] == "consts":
        return "consts"
    p = resolve(c)
    res = o["exc"] if "exc" in o else "ok"
    size = "0" if p["n"] == 0 else "1-3" if p["n"] <= 3 else "4-12" if p["n"] <= 12 else ">12"
    full = "over" if p["e"] > max_possible(p["directed"], p["n"]) else "max" if p["e"] == max_possible(p["directed"], p["n"]) else "under"
    return (f"{c['kind']}:{'dir' if p['directed'] else 'und'}:n={size}:e={full}:axes={''.join(a for a in 'tzyx' if p[a]) or '-'}:"
            f"vl={int(p['varlen'])}:ms={int(p['missing'])}:extra={'y' if (p['enp'] or p['eep']) else 'n'}:{res}")


def search(rng, budget):
    yield from generate(rng, "thorough")


def load_case(c):
    return c


def _shrink_candidates(c):
    if c["kind"] not in ("dummy", "mock"):
        return
    for side in ("enp", "eep"):
        if c[side]:
            yield dict(c, **{side: None})
            for i in range(len(c[side])):
                yield dict(c, **{side: c[side][:i] + c[side][i + 1:]})
    for flag in ("varlen", "missing", "t", "z", "y", "x"):
        if c[flag]:
            yield dict(c, **{flag: False})
    if c["n"] > 0:
        for n in sorted({c["n"] // 2, c["n"] - 1}):
            d = dict(c, n=n)
            for side in ("enp", "eep"):     # explicit arrays follow the element count
                if d[side]:
                    cnt = n if side == "enp" else min(d["e"], max_possible(d["directed"], n))
                    d[side] = [[nm, dict(sp, len=cnt) if "arr" in sp else sp] for nm, sp in d[side]]
            yield d
    if c["e"] > 0:
        for e in sorted({0, c["e"] // 2, c["e"] - 1}):
            d = dict(c, e=e)
            if d["eep"]:
                cnt = min(e, max_possible(d["directed"], d["n"]))
                d["eep"] = [[nm, dict(sp, len=cnt) if "arr" in sp else sp] for nm, sp in d["eep"]]
            yield d
    if c["kind"] == "mock":
        yield dict(c, kind="dummy")
    for k, v in (("id", "uint8"), ("pos", "float64"), ("time", "float64")):
        if c[k] != v:
            yield dict(c, **{k: v})


def shrink(c):
    """Greedy reduction of a failing request: keep a smaller request while the oracle fails for the same reason."""
    def why(x):
        try:
            f = oracle(x, _run_impl(x))
        except Exception:  # noqa: BLE001
            return None
        return f.tags.get("why") if f is not None else None
    target = why(c)
    if target is None:
        return c
    cur, steps = c, 0
    progress = True
    while progress and steps < 200:
        progress = False
        for cand in _shrink_candidates(cur):
            steps += 1
            if why(cand) == target:
                cur, progress = cand, True
                break
    return cur


# ---------------------------------------------------------------- Coq terms
NP_TABLE = ["uint", "int", "double", "uint8", "uint16", "uint32", "uint64", "int8", "int16", "int32", "int64", "float32", "float64", "str"]
ID_MODELLED = ID_DTYPES + ID_DTYPES_SIGNED + ["float32", "float64", "double", "str"]


def _numpy_knows(s):
    try:
        np.dtype(s)
        return True
    except TypeError:
        return False


def _name_ok_for_model(s):
    """The model's np_dtype is a table: a name outside it must really be unknown to numpy."""
    return s in NP_TABLE or not _numpy_knows(s)


def cvarr_elem(edt, eshape):
    a = obj_elem(edt, eshape)
    return (f"{{| v_dt := {DTYPE_COQ[edt]}; v_shape := {clist(eshape, cnat)}; "
            f"v_flat := {clist([int(v) for v in a.ravel().tolist()], cz)} |}}")


def cextras(items, kind):
    if items is None:
        return "ENone"
    if kind in ("list", "mappingproxy"):
        return "ENotDict"

    def one(item):
        name, spec = item
        k = f"(KStr {cstr(name)})" if isinstance(name, str) else "KOther"
        if "dt" in spec:
            v = f"(VDtype {cstr(spec['dt'])})"
        elif "arr" in spec:
            v = f"(VArray {DTYPE_COQ[spec['arr']]} {cnat(spec['len'])} {clist(spec['tail'], cnat)})"
        elif "obj" in spec:
            v = f"(VObjArray {clist(spec['obj'], lambda e: cvarr_elem(e[0], e[1]))})"
        else:
            v = "VOther"
        return f"({k}, {v})"
    return f"(EDict {clist(items, one)})"


def cparams(p):
    return (f"{{| p_id := {cstr(p['id'])}; p_pos := {cstr(p['pos'])}; p_time := {cstr(p['time'])}; p_directed := {cbool(p['directed'])}; "
            f"p_n := {cz(p['n'])}; p_e := {cz(p['e'])}; p_enp := {cextras(p['enp'], p.get('enp_kind'))}; "
            f"p_eep := {cextras(p['eep'], p.get('eep_kind'))}; p_t := {cbool(p['t'])}; p_z := {cbool(p['z'])}; p_y := {cbool(p['y'])}; "
            f"p_x := {cbool(p['x'])}; p_varlen := {cbool(p['varlen'])}; p_missing := {cbool(p['missing'])} |}}")


def cpview(q):
    dt = DTYPE_COQ[q["dtype"]] if q["dtype"] is not None else "DObj"
    vl = clist(q["vl"], lambda e: f"({clist(e[0], cnat)}, {clist(e[1], cz)})")
    return (f"{{| pv_name := {cstr(q['name'])}; pv_dt := {dt}; pv_varlen := {cbool(q['varlen'])}; pv_len := {cnat(q['len'])}; "
            f"pv_tail := {clist(q['tail'], cnat)}; pv_missing := {copt(q['missing'], lambda m: clist(m, cbool))}; pv_vl := {vl}; "
            f"pv_ints := {copt(q['ints'], lambda l: clist(l, cz))} |}}")


def cgview(v):
    def cax(a):
        return (f"{{| ax_name := {cstr(a['name'])}; ax_type := {cstr(a['type'])}; ax_unit := {cstr(a['unit'])}; "
                f"ax_bounded := {cbool(a['min'] is not None and a['max'] is not None)} |}}")

    def cpm(m):
        return (f"{{| pm_name := {cstr(m['name'])}; pm_dt := {DTYPE_COQ[m['dtype']]}; pm_varlen := {cbool(m['varlen'])}; "
                f"pm_unit := {copt(m['unit'], cstr)} |}}")
    return (f"{{| gv_directed := {cbool(v['directed'])}; gv_axes := {clist(v['axes'] or [], cax)}; gv_nmeta := {clist(v['nmeta'], cpm)}; "
            f"gv_emeta := {clist(v['emeta'], cpm)}; gv_iddt := {DTYPE_COQ[v['iddt']]}; gv_ids := {clist(v['ids'], cz)}; "
            f"gv_edt := {DTYPE_COQ[v['edt']]}; gv_edges := {clist(v['edges'], lambda e: f'({cz(e[0])}, {cz(e[1])})')}; "
            f"gv_nprops := {clist(v['nprops'], cpview)}; gv_eprops := {clist(v['eprops'] or [], cpview)} |}}")


def _view_ok(v):
    if v["edges"] is None or None in v["ids"] or v["axes"] is None:
        return False
    if any(m["name"] != m["id"] or m["dtype"] not in DTYPE_COQ for m in v["nmeta"] + v["emeta"]):
        return False
    if any(a["unit"] is None or a["type"] is None for a in v["axes"]):
        return False
    for q in v["nprops"] + (v["eprops"] or []):
        if q["len"] < 0 or (q["dtype"] is not None and q["dtype"] not in DTYPE_COQ):
            return False
    return len(v["ids"]) <= 4000 and len(v["edges"]) <= 4000


def coq_case(c, o):
    k = c["kind"]
    if k == "consts":
        return f"(IConsts {clist(o['prop_dtypes'], cstr)} {clist(o['id_dtypes'], cstr)}, OConsts)"
    if k in ("dummy", "mock"):
        if c["n"] < 0 or c["id"] not in ID_MODELLED and _numpy_knows(c["id"]):
            return None
        if not _name_ok_for_model(c["pos"]) or not _name_ok_for_model(c["time"]):
            return None
        for side in ("enp", "eep"):
            names = [n for n, _ in (c[side] or []) if isinstance(n, str)]
            if len(set(names)) != len(names):
                return None
            for _, spec in c[side] or []:
                if "dt" in spec and not _name_ok_for_model(spec["dt"]) and spec["dt"] in PROP_DTYPES:
                    return None
                if "arr" in spec and spec["arr"] not in DTYPE_COQ:     # complex, datetime: no such dtype in the model
                    return None
                if "objx" in spec or "arr0" in spec:                   # Python objects / 0-d arrays: not representable
                    return None
        inp = f"{'IDummy' if k == 'dummy' else 'IMock'} {cparams(c)}"
    elif k == "empty":
        inp = "IDefaultEmpty" if c.get("defaults") else f"IEmpty {cbool(c['directed'])}"
    else:
        ctor = {"simple2d": "2d", "simple3d": "3d", "temporal": "Temporal"}[k]
        if c.get("defaults"):
            inp = f"IDefault{ctor}"
        else:
            inp = f"{'ISimple' + ctor if ctor != 'Temporal' else 'ITemporal'} {cz(c['n'])} {cz(c['e'])} {cbool(c['directed'])}"
    if "exc" in o:
        return f"({inp}, OOut (Err {o['exc']}))"
    if not _view_ok(o["mem"]) or ("store" in o and not _view_ok(o["store"])):
        return None

    def cr(x):
        return "(Ok tt)" if x == "ok" else f"(Err {x})"
    store = f"(Some {cgview(o['store'])})" if "store" in o else "None"
    struct = f"(Some {cr(o['struct'])})" if "struct" in o else "None"

    def cmember(m):
        if m[1] is None:
            return f"({cstr(m[0])}, None)"
        if m[1][0] not in DTYPE_COQ:
            raise HarnessError(f"store member {m[0]} has dtype {m[1][0]}")
        return f"({cstr(m[0])}, Some ({DTYPE_COQ[m[1][0]]}, {clist(m[1][1], cnat)}))"
    layout = f"(Some {clist(o['layout'], cmember)})" if "layout" in o else "None"
    return (f"({inp}, OOut (Ok {{| o_mem := {cgview(o['mem'])}; o_store := {store}; o_struct := {struct}; "
            f"o_graph := {cr(o['graph'])}; o_layout := {layout} |}}))")
