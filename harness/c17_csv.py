"""C17, CSV text layer (fx2011): what geff_to_csv writes, byte for byte, and what pandas.read_csv WITH DEFAULT
ARGUMENTS makes of it -- against Csv.v evaluated in Coq -- plus the oracle for the property's sentence
"writing the tables to CSV and parsing them back reproduces the same ids and values" under that default reader.

Case kinds added here
  csvtext  a typed graph written with write_arrays, exported with the real geff_to_csv into an empty directory;
           observed: the bytes of both files, pd.read_csv(path) of both (dtype and cells), samples of pandas' float
           parser for the texts that occur.
  read     pd.read_csv on an arbitrary text (the reader model alone; the model may be silent, then no claim).
  consts   pandas._libs.parsers.STR_NA_VALUES.
"""
from __future__ import annotations

import io
import math
import re
import shutil
import struct
import tempfile
import warnings
from pathlib import Path

import numpy as np

from harness.common import Failure, cbool, clist, cnat, copt, cz

# ---------------------------------------------------------------- Coq string literals with control characters
def cstrb(s) -> str:
    """Coq string for a python str (UTF-8 bytes) or bytes; control characters through Csv.chr."""
    b = s if isinstance(s, bytes) else s.encode("utf-8")
    parts, cur = [], bytearray()
    for ch in b:
        if ch < 32 or ch >= 127:
            if cur:
                parts.append('"' + cur.decode("latin-1").replace('"', '""') + '"')
                cur = bytearray()
            parts.append(f"chr {ch}")
        else:
            cur.append(ch)
    if cur or not parts:
        parts.append('"' + cur.decode("latin-1").replace('"', '""') + '"')
    if len(parts) == 1 and parts[0].startswith('"'):
        return parts[0] + "%string"
    return "(" + " ++ ".join(parts) + ")%string"


def _latin(txt: str) -> bytes:
    return txt.encode("latin-1")


# ---------------------------------------------------------------- observation of a DataFrame read by pandas
DTYPES = {"int64": "DInt64", "uint64": "DUInt64", "float64": "DFloat64", "bool": "DBool", "str": "DStr", "object": "DObject"}


def f64_bits(v: float) -> int:
    return struct.unpack("<Q", struct.pack("<d", float(v)))[0]


def cell_obs(v):
    """JSON-able cell: ["i", int] ["f", bits] ["nan"] ["b", bool] ["s", latin-1 of the UTF-8 bytes] ["?", repr]."""
    import pandas as pd

    if v is None or v is pd.NA:
        return ["nan"]
    if isinstance(v, (bool, np.bool_)):
        return ["b", bool(v)]
    if isinstance(v, (int, np.integer)):
        return ["i", int(v)]
    if isinstance(v, (float, np.floating)):
        return ["nan"] if v != v else ["f", f64_bits(v)]
    if isinstance(v, str):
        return ["s", v.encode("utf-8", "surrogateescape").decode("latin-1")]
    return ["?", repr(v)[:40]]


def frame_typed_obs(df):
    return [[str(col).encode("utf-8", "surrogateescape").decode("latin-1"), str(df[col].dtype), [cell_obs(v) for v in df[col].tolist()]]
            for col in df.columns]


def read_default(path_or_buf):
    """pandas.read_csv with default arguments; {"frame": ...} or {"exc": class name}."""
    import pandas as pd

    try:
        with warnings.catch_warnings():
            warnings.simplefilter("ignore")
            df = pd.read_csv(path_or_buf)
    except Exception as ex:  # noqa: BLE001
        return {"exc": type(ex).__name__, "msg": str(ex)[:100]}
    if len(df) > 64:        # pandas' tokenizer loops on some texts with blank / CR-only lines (outside the model)
        return {"exc": "TooManyRows", "msg": f"{len(df)} rows"}
    return {"frame": frame_typed_obs(df)}


_DEN: dict = {}


def den_of(text: str):
    """Value (float64 bits) pandas' default float parser assigns to a cell text, sampled in isolation: the text beside
    the cell 0.5 in a two-row column.  None when the column is not read as float64 or the cell is NaN."""
    import csv

    import pandas as pd

    if text in _DEN:
        return _DEN[text]
    buf = io.StringIO()
    w = csv.writer(buf, lineterminator="\n")
    w.writerow(["", "v"])
    w.writerow(["0", text])
    w.writerow(["1", "0.5"])
    out = None
    try:
        with warnings.catch_warnings():
            warnings.simplefilter("ignore")
            df = pd.read_csv(io.BytesIO(buf.getvalue().encode("utf-8", "surrogateescape")))
        if str(df["v"].dtype) == "float64" and len(df) == 2:
            v = float(df["v"].iloc[0])
            if v == v:
                out = f64_bits(v)
    except Exception:  # noqa: BLE001
        out = None
    _DEN[text] = out
    return out


def den_samples(texts):
    out = []
    for t in dict.fromkeys(texts):
        if "\x00" in t or "\r" in t or "\n" in t:
            continue
        b = den_of(t)
        if b is not None:
            out.append([t, b])
    return out


# ---------------------------------------------------------------- typed graph for Coq
def float_literal(dt, v):
    """What numpy / Python print for the float (independent of pandas' writer): repr of the float64, shortest repr of
    the float32.  None for NaN (a missing cell for pandas)."""
    x = np.dtype(dt).type(v)
    if x != x:
        return None
    if dt == "float16":                  # stored (and exported) as float32
        return str(np.float32(x))
    return str(x) if dt == "float32" else repr(float(x))


def tcell(dt, v):
    if dt == "str":
        return f"(TStr {cstrb(v)})"
    if dt == "bool":
        return f"(TBool {cbool(v)})"
    if dt.startswith("float"):
        lit = float_literal(dt, v)
        return "TNA" if lit is None else f"(TFloat {cstrb(lit)})"
    return f"(TInt {cz(v)})"


def coq_tprop(p):
    vals = clist([tcell(p["dtype"], v) for v in p["values"]])
    return f"(mkTProp {cstrb(p['name'])} {clist(p['shape'], cnat)} {vals} {copt(p['missing'], lambda m: clist(m, cbool))})"


def coq_tgraph(c, order):
    def ordered(key):
        byname = {p["name"]: p for p in c[key]}
        return [byname[n] for n in order[key]]

    edges = clist(c["edges"], lambda e: f"({cz(e[0])}, {cz(e[1])})")
    return (f"(mkTGraph {clist(c['ids'], cz)} {clist(ordered('nprops'), coq_tprop)} {edges} "
            f"{clist(ordered('eprops'), coq_tprop)})")


def coq_den(den):
    return clist(den, lambda kv: f"({cstrb(kv[0])}, {cz(kv[1])})")


def coq_ocell(x):
    tag = x[0]
    if tag == "nan":
        return "ONaN"
    if tag == "i":
        return f"(OInt {cz(x[1])})"
    if tag == "f":
        return f"(OFloat {cz(x[1])})"
    if tag == "b":
        return f"(OBool {cbool(x[1])})"
    if tag == "s":
        return f"(OStr {cstrb(_latin(x[1]))})"
    return None


def coq_oframe(r):
    """option oframe term for a read_default result; None-term when pandas raised or a cell / dtype has no encoding."""
    if "frame" not in r:
        return "None"
    cols = []
    for name, dt, cells in r["frame"]:
        if dt not in DTYPES:
            return "None"
        enc = [coq_ocell(x) for x in cells]
        if any(e is None for e in enc):
            return "None"
        cols.append(f"({cstrb(_latin(name))}, ({DTYPES[dt]}, {clist(enc)}))")
    return f"(Some {clist(cols)})"


def candidate_texts(c):
    """Texts whose float value the model may need: the printed floats and every stored string; when a bare carriage
    return breaks the rows, numerals land in other columns, so every numeral of the file as well."""
    out = []
    strs = [str(v) for p in c["nprops"] + c["eprops"] if p["dtype"] == "str" for v in p["values"]]
    if any(bare_cr(s) for s in strs + [p["name"] for p in c["nprops"] + c["eprops"]]):
        out += [str(v) for v in c["ids"]] + [str(i) for i in range(max(len(c["ids"]), len(c["edges"])) + 1)]
        for p in c["nprops"] + c["eprops"]:
            if p["dtype"] not in ("str", "bool") and not p["dtype"].startswith("float"):
                out += [str(int(v)) for v in p["values"]]
            if p["dtype"] == "bool":
                out += ["True", "False"]
        for s in strs:
            out += re.split(r"[\r\n]", s)
    for p in c["nprops"] + c["eprops"]:
        if p["dtype"].startswith("float"):
            out += [lit for lit in (float_literal(p["dtype"], v) for v in p["values"]) if lit is not None]
        elif p["dtype"] == "str":
            out += [str(v) for v in p["values"]]
    return out


# ---------------------------------------------------------------- running the implementation
def run_csvtext(c, write_store, listing_order):
    from zarr.storage import MemoryStore

    from geff.convert import geff_to_csv

    store = MemoryStore()
    write_store(c, store)
    order = listing_order(store, c)
    d = Path(tempfile.mkdtemp(prefix="c17t.v1-"))      # a dot in the directory name: only the file name loses its suffix
    try:
        o = {"order": order}
        try:
            with warnings.catch_warnings():
                warnings.simplefilter("ignore")
                geff_to_csv(store, d / "out.csv")
            o["res"] = "ok"
        except Exception as ex:  # noqa: BLE001
            o.update({"res": "err", "exc": type(ex).__name__, "msg": str(ex)[:120]})
            return o
        for k in ("nodes", "edges"):
            p = d / f"out-{k}.csv"
            if not p.exists():
                o[k] = {"absent": True}
                continue
            o[k] = {"bytes": p.read_bytes().decode("latin-1"), "default": read_default(p)}
        o["den"] = den_samples(candidate_texts(c))
        return o
    finally:
        shutil.rmtree(d, ignore_errors=True)


def run_read(c):
    data = _latin(c["text"])
    cells = set()
    for line in re.split(r"[\r\n]", c["text"]):
        cells.update(x.strip('"') for x in line.split(","))
    return {"default": read_default(io.BytesIO(data)), "den": den_samples(sorted(cells))}


def run_consts():
    from pandas._libs.parsers import STR_NA_VALUES

    return {"na": sorted(STR_NA_VALUES)}


# ---------------------------------------------------------------- Coq terms
def coq_case(c, o):
    if c["kind"] == "consts":
        return f"(IConsts, OConsts {clist(o['na'], cstrb)})"
    if c["kind"] == "read":
        return f"(IRead {cstrb(_latin(c['text']))} {coq_den(o['den'])}, ORead {coq_oframe(o['default'])})"
    g = coq_tgraph(c, o["order"])
    if o["res"] != "ok":
        return f"(ICsvText {g} [], OCsvText (Err {o['exc']}) \"\"%string \"\"%string None None)"
    texts, frames = [], []
    for k in ("nodes", "edges"):
        f = o[k]
        if "bytes" not in f:
            texts.append('""%string')
            frames.append("None")
        else:
            texts.append(cstrb(_latin(f["bytes"])))
            frames.append(coq_oframe(f["default"]))
    return (f"(ICsvText {g} {coq_den(o['den'])}, OCsvText (Ok tt) {texts[0]} {texts[1]} {frames[0]} {frames[1]})")


# ---------------------------------------------------------------- oracle: the default reader, from the property text
NA_TOKENS = None


def _na_tokens():
    global NA_TOKENS
    if NA_TOKENS is None:
        from pandas._libs.parsers import STR_NA_VALUES

        NA_TOKENS = set(STR_NA_VALUES)
    return NA_TOKENS


NUMERIC_RE = re.compile(r"\s*[+-]?(\d+\.?\d*|\.\d+)([eE]\s*[+-]?\d+)?\s*\Z")


def looks_numeric(s):
    return bool(NUMERIC_RE.match(s)) or s.lstrip("+-").lower() in ("inf", "infinity")


def looks_bool(s):
    return s.lower() in ("true", "false")


def bare_cr(s):
    """csv.writer leaves a carriage return unquoted unless the field is quoted for another reason."""
    return "\r" in s and not any(ch in s for ch in ',"\n')


def effective_missing(p, i):
    return bool(p["missing"][i]) if p["missing"] is not None else False


def column_cause(p):
    """Why default read_csv may fail to reproduce this property's values -- decided from the STORED data alone.
    None = no known reason."""
    n = p["shape"][0] if p["shape"] else 0
    vals = p["values"]
    k = (len(vals) // n) if n else 0
    present = [vals[i * k + j] for i in range(n) for j in range(k) if not effective_missing(p, i)]
    any_missing = any(effective_missing(p, i) for i in range(n))
    dt = p["dtype"]
    if dt == "str":
        toks = _na_tokens()
        if any("\x00" in v for v in present):
            return "string-nul"
        if any(v in toks for v in present):
            return "string-na-or-numeric"
        # per exported column (2-D properties: one column per component)
        for j in range(k):
            col = [vals[i * k + j] for i in range(n) if not effective_missing(p, i)]
            if col and (all(looks_numeric(v) for v in col) or all(looks_bool(v) for v in col)):
                return "string-na-or-numeric"
        return None
    if dt == "bool":
        return None
    if dt.startswith("float"):
        return "float-parser" if dt == "float64" else None
    if any_missing and any(abs(int(v)) > 2**53 for v in present):
        return "int-with-missing"
    return None


def table_cause(c, key):
    names = [p["name"] for p in c[key]]
    strs = [v for p in c[key] if p["dtype"] == "str" for v in p["values"]]
    if any(bare_cr(s) for s in names + strs):
        return "carriage-return"
    return None


def same_default(dt, cell, v):
    """'the same value' for a cell read by default read_csv (cell in the cell_obs vocabulary)."""
    tag = cell[0]
    if dt == "str":
        return tag == "s" and _latin(cell[1]).decode("utf-8", "surrogateescape") == v
    if dt == "bool":
        return tag == "b" and cell[1] == bool(v)
    if dt.startswith("float"):
        x = float(np.dtype(dt).type(v))
        if x != x:
            return tag == "nan"
        if tag == "i":
            return float(cell[1]) == x
        if tag != "f":
            return False
        got = struct.unpack("<d", struct.pack("<Q", cell[1]))[0]
        if dt in ("float32", "float16"):
            with np.errstate(over="ignore"):
                return float(np.float32(got)) == x          # the value at the stored precision
        return got == x
    if tag == "i":
        return cell[1] == int(v)
    if tag == "f":
        got = struct.unpack("<d", struct.pack("<Q", cell[1]))[0]
        return math.isfinite(got) and got == int(got) and int(got) == int(v)
    return False


def float_close(cell, v):
    if cell[0] != "f":
        return False
    got = struct.unpack("<d", struct.pack("<Q", cell[1]))[0]
    x = float(v)
    return math.isfinite(got) and math.isfinite(x) and abs(got - x) <= 1e-12 * abs(x)


def check_default(c, key, idcols, default, what, alternatives):
    """Failures of one table under default read_csv: list of (cause, message); cause None = no known reason."""
    tc = table_cause(c, key)
    if "frame" not in default:
        return [(tc, f"{what}: pandas.read_csv raised {default.get('exc')}: {default.get('msg')}")]
    cols = {}
    for name, _dt, cells in default["frame"]:
        cols[_latin(name).decode("utf-8", "surrogateescape")] = cells
    out = []
    n = len(idcols[0][1])
    claimed = {}
    for name, _ in idcols:
        claimed[name] = claimed.get(name, 0) + 1
    for p in c[key]:
        for nm in {nm for alt in alternatives(p) for nm, _ in alt["columns"]}:
            claimed[nm] = claimed.get(nm, 0) + 1
    for name, ids in idcols:
        if claimed.get(name, 0) > 1:
            continue                                      # name collision: the other open finding
        cells = cols.get(name)
        if cells is None:
            out.append((tc, f"{what}: default read_csv shows no column {name!r}"))
        elif len(cells) != n or any(not same_default(c["id_dtype"], a, b) for a, b in zip(cells, ids)):
            out.append((tc, f"{what}: default read_csv gives {name} = {cells[:6]} ({len(cells)} rows), stored ids are {ids[:6]}"))
    for p in c[key]:
        cands = [alt for alt in alternatives(p) if not alt["warn"]]
        has_warn = any(alt["warn"] for alt in alternatives(p))
        if any(claimed.get(nm, 0) > 1 for alt in cands for nm, _ in alt["columns"]):
            continue                                      # name collision: the other open finding
        results = []
        for alt in cands:
            bad = None
            for nm, j in alt["columns"]:
                cells = cols.get(nm)
                if cells is None:
                    bad = ("nocol", f"{what}: default read_csv shows no column {nm!r}")
                    break
                if len(cells) != n:
                    bad = ("rows", f"{what}: default read_csv gives {len(cells)} rows in {nm!r} for {n} stored entries")
                    break
                for i in range(n):
                    v = p["values"][i * alt["k"] + j]
                    if effective_missing(p, i):
                        if cells[i][0] != "nan":
                            bad = ("cell", f"{what}: {nm!r} row {i} is flagged missing but default read_csv gives {cells[i]}")
                    elif not same_default(p["dtype"], cells[i], v):
                        kind = "float-close" if (p["dtype"] == "float64" and float_close(cells[i], v)) else "cell"
                        bad = (kind, f"{what}: {nm!r} row {i}: default read_csv gives {cells[i]}, stored value is {v!r} "
                                     f"({p['dtype']}, shape {p['shape']})")
                    if bad:
                        break
                if bad:
                    break
            results.append(bad)
        if not cands or any(r is None for r in results):
            continue
        if has_warn and all(r[0] == "nocol" for r in results):
            continue                                      # left out (the frames check looks at the warning)
        real = [r for r in results if r[0] != "nocol"]
        best = real[0] if real else results[0]
        cause = tc or column_cause(p)
        if cause == "float-parser" and best[0] != "float-close":
            cause = None                                  # only a last-digits difference is the parser's
        out.append((cause, best[1]))
    return out


READER_SIDE = {"int-with-missing", "string-na-or-numeric", "float-parser", "string-nul"}
READER_SIDE_STATS: dict = {}


def default_failure(c, o, tags, alternatives):
    """First failure of the two written tables under default read_csv, unknown causes first."""
    idn = [("id", c["ids"])]
    ide = [("source", [e[0] for e in c["edges"]]), ("target", [e[1] for e in c["edges"]])]
    found = []
    for key, idcols, k in (("nprops", idn, "nodes"), ("eprops", ide, "edges")):
        f = o.get(k)
        if not isinstance(f, dict) or "default" not in f:
            continue
        found += check_default(c, key, idcols, f["default"], f"{k} csv", alternatives)
    # what the DEFAULT reader makes of a cell is the reader's type inference, not the export: the text of the file holds every value
    # verbatim (checked at text level by check_table(from_text=True) and modelled in Csv.v), and a reader that is told the column dtypes
    # reproduces them.  Differences with a reader-side cause are counted (READER_SIDE_STATS, evidence) and stated as theorems about the
    # modelled default reader (C17_csv_full_refuted and the per-kind witnesses); they are not violations of the export.  A bare carriage
    # return (rows broken for every CSV tokenizer) and differences without a known cause remain failures.
    for cause, _ in found:
        if cause in READER_SIDE:
            READER_SIDE_STATS[cause] = READER_SIDE_STATS.get(cause, 0) + 1
    found = [f for f in found if f[0] not in READER_SIDE]
    if not found:
        return None
    found.sort(key=lambda t: 0 if t[0] is None else 1)
    cause, msg = found[0]
    return Failure(c, o, msg, {**tags, "why": "csv-default-read", "cause": cause or "other"})


def oracle_csvtext(c, o, alternatives):
    tags = {"kind": c["kind"]}
    if o["res"] != "ok":
        return Failure(c, o, f"geff_to_csv raised {o['exc']}: {o.get('msg')}", {**tags, "why": "raises"})
    for k in ("nodes", "edges"):
        if "bytes" not in o[k]:
            return Failure(c, o, f"call succeeded but the {k} csv is absent", {**tags, "why": "not-written"})
    return default_failure(c, o, tags, alternatives)


# ---------------------------------------------------------------- generation
WITNESS_STRINGS = ["007", "NA", "", "1e3", "True", "x,y", 'q"t', "l1\nl2", "a\rb", "a\r\nb", "x\ry,z", " 5", "5 ", "inf", "-Infinity",
                   "None", "nan", "n/a", "NULL", "<NA>", "#N/A", "false", "TRUE", "1.", ".5", "+5", "-0", "1e", "e3", "0x10", "1_000",
                   "na", "Nan", "NA ", " ", "'", "#c", "ünï", "two words", "x\ty", "1e 3", "9223372036854775807", "-9223372036854775808"]


def mk_prop(name, dt, shape, values, missing):
    return {"name": name, "dtype": dt, "shape": list(shape), "values": list(values), "missing": None if missing is None else list(missing)}


def witness_cases():
    """The distinguishing inputs named in the audit, one cause per graph, plus columns that do round-trip."""
    def g(ids, nprops, edges=(), eprops=(), id_dtype="int64", zf=3):
        return {"kind": "csvtext", "zf": zf, "id_dtype": id_dtype, "ids": list(ids), "edges": [list(e) for e in edges],
                "nprops": list(nprops), "eprops": list(eprops), "block": "witness"}

    three = [1, 2, 3]
    mid = [False, True, False]
    yield g(three, [mk_prop("v", "int64", (3,), [2**53 + 1, 5, 7], mid)])
    yield g(three, [mk_prop("v", "int64", (3,), [2**53, 5, -(2**53)], mid)])                 # exact: round-trips as floats
    yield g(three, [mk_prop("v", "int64", (3,), [-(2**63), 5, 7], mid)])
    yield g(three, [mk_prop("v", "int64", (3,), [2**63 - 1, 5, -(2**63) + 1], mid)])
    yield g(three, [mk_prop("u", "uint64", (3,), [2**63, 5, 1], mid)])
    yield g(three, [mk_prop("u", "uint64", (3,), [2**64 - 1, 2**63, 0], None)])
    yield g(three, [mk_prop("u", "uint64", (3,), [2**64 - 1, 0, 2**53 + 1], [False, False, True])])
    yield g(three, [mk_prop("v", "int8", (3,), [-128, 0, 127], mid), mk_prop("w", "uint16", (3, 2), [1, 2, 3, 4, 65535, 6], [True, False, False])])
    # ids beyond 2^63
    yield g([2**64 - 1, 2**63, 5], [mk_prop("p", "int64", (3,), [1, 2, 3], None)], edges=[(2**64 - 1, 5), (2**63, 2**64 - 1)],
            eprops=[mk_prop("w", "float64", (2,), [0.5, 1.5], None)], id_dtype="uint64")
    yield g([2**63 - 1, 0], [], edges=[(0, 2**63 - 1)], id_dtype="uint64")
    # strings
    for vals in (["007", "1", "12"], ["NA", "a", "b"], ["", "a", "b"], ["1e3", "2", "1.5"], ["True", "False", "true"], ["a\rb", "k", "m"],
                 ["x,y", 'q"t', "l1\nl2"], ["a\r\nb", "x\ry,z", "k"], [" 5", "5 ", "+5"], ["inf", "-Infinity", "1"], ["None", "x", "y"],
                 ["nan", "1.5", "2"], ["true", "NA", "False"], ["1", "a", "True"], ["True", "1", "x"], ["na", "Nan", "NA "],
                 ["1e", "e3", "0x10"], ["ünï", "two words", "x\ty"], ["#c", "'", " "], ["1e 3", "1.", ".5"], ["-0", "00", "+0"],
                 ["9223372036854775807", "-9223372036854775808", "0"], ["n/a", "NULL", "<NA>"], ["a\x00b", "k", "m"]):
        yield g(three, [mk_prop("s", "str", (3,), vals, None)])
    yield g(three, [mk_prop("s", "str", (3,), ["007", "zz", "1"], mid)])                      # the non-numeric value is masked
    yield g(three, [mk_prop("s", "str", (3, 2), ["1", "a", "2", "b", "3", "c"], None)])       # component 0 is all numeric
    yield g(three, [mk_prop("s", "str", (3,), ["a", "b", "c"], [True, True, True])])
    # bool
    yield g(three, [mk_prop("b", "bool", (3,), [True, False, True], mid)])
    yield g(three, [mk_prop("b", "bool", (3,), [True, False, True], None)])
    yield g(three, [mk_prop("b", "bool", (3, 2), [True, False, False, False, True, True], [False, False, True])])
    # floats
    f32 = lambda x: float(np.float32(x))  # noqa: E731
    yield g(three, [mk_prop("f", "float32", (3,), [f32(0.1), f32(0.2), f32(0.3)], None)])
    yield g(three, [mk_prop("f", "float32", (3,), [f32(0.1), float(np.finfo("float32").max), f32(1e-40)], mid)])
    yield g(three, [mk_prop("f", "float64", (3,), [0.30000000000000004, 0.1, 0.5], None)])
    yield g(three, [mk_prop("f", "float64", (3,), [0.12345678901234568, 1.602176634e-19, 1 / 3], None)])
    yield g(three, [mk_prop("f", "float64", (3,), [float("inf"), -0.0, 1e300], None)])
    yield g(three, [mk_prop("f", "float64", (3,), [float("-inf"), 1e-320, 2.0**53 + 2], mid)])
    yield g(three, [mk_prop("f", "float64", (3,), [float("nan"), 0.5, 1.0], None)])           # a stored NaN is a missing cell
    yield g(three, [mk_prop("f", "float64", (3,), [1.0, 2.0, 1e16], None), mk_prop("h", "float64", (3,), [1e22, 1e21, 1.5e-7], None)])
    f16 = lambda x: float(np.float16(x))  # noqa: E731
    yield g(three, [mk_prop("h", "float16", (3,), [f16(0.1), f16(65504.0), f16(-1.5)], None)])
    yield g(three, [mk_prop("h", "float16", (3, 2), [f16(0.1), f16(0.5), f16(6e-8), f16(2.0), f16(1 / 3), f16(-0.0)], mid)])
    # a 2-D property twelve wide: two-digit component suffixes
    yield g([4, 5], [mk_prop("p", "int64", (2, 12), list(range(100, 124)), [False, True])],
            edges=[(4, 5)], eprops=[mk_prop("wide", "str", (1, 11), [f"s{i}" for i in range(11)], None)])
    # all-missing columns, empty and single-row graphs
    yield g(three, [mk_prop(dt[0] + "m", dt, (3,), v, [True, True, True])
                    for dt, v in (("int64", [1, 2, 3]), ("float64", [0.5, 1.5, 2.5]), ("bool", [True, False, True]), ("uint64", [2**64 - 1, 1, 2]))])
    yield g([], [mk_prop("p", "int64", (0,), [], None), mk_prop("s", "str", (0,), [], None)])
    yield g([7], [mk_prop("p", "int64", (1, 3), [1, 2, 3], None), mk_prop("s", "str", (1,), ["007"], None)], edges=[(7, 7)],
            eprops=[mk_prop("w", "float32", (1,), [f32(0.1)], [True])])
    yield g([7, 8], [mk_prop("x,y", "int64", (2,), [1, 2], None), mk_prop('q"t', "str", (2,), ["a", "b"], None),
                     mk_prop("a b", "bool", (2,), [True, False], None)])


CSV_STR_POOL = ["a", "bc", "x,y", 'q"t', " lead", "trail ", "ünï", "1", "007", "NA", "nan", "#", "'", "a;b", "None", "1.5", "True",
                "two words", "-", "x\ty", "l1\nl2", "", "1e3", "false", "inf", "a\rb", "a\r\nb", "k", "zz", "12", " 5"]
CSV_NAMES = ["p", "q", "pos", "score", "t", "x_y", "a b", "ü", "x,y", 'q"t', "0", "_", "P", "radius", "r.s", "#c"]
INT_DTYPES = ["int8", "int16", "int32", "int64", "uint8", "uint16", "uint32", "uint64"]


def rand_csvtext(rng, int_pool, float_pool):
    n = rng.choice([0, 1, 2, 2, 3, 4, 5])
    idt = rng.choice(["uint8", "int32", "int64", "uint64", "uint64"])
    pool = [v for v in int_pool(idt) if v >= 0]
    ids = rng.sample(pool, min(n, len(pool))) if rng.random() < 0.5 else [rng.choice([0, 10, 2**63 - 2 if idt == "uint64" else 3]) + i for i in range(n)]
    n = len(ids)
    e = 0 if n == 0 else rng.choice([0, 1, 2, 3])
    edges = [[rng.choice(ids), rng.choice(ids)] for _ in range(e)]
    names = list(CSV_NAMES)
    rng.shuffle(names)

    def props(cnt, rows):
        out = []
        for name in cnt:
            dt = rng.choice(INT_DTYPES + ["float32", "float64", "bool", "str", "str"])
            m = rng.choice([0, 0, 0, 1, 1, 2])
            sh = (rows,) + tuple(rng.choice([1, 2, 3]) for _ in range(m))
            cnt_vals = 1
            for d in sh:
                cnt_vals *= d
            if dt == "str":
                # whole columns of one lexical class now and then, so that the inference has something to infer
                sub = rng.choice([CSV_STR_POOL, CSV_STR_POOL, ["1", "007", "12", " 5"], ["1.5", "1e3", "inf", "1"], ["True", "false"],
                                  ["a", "k", "zz"]])
                vals = [rng.choice(sub) for _ in range(cnt_vals)]
            elif dt == "bool":
                vals = [rng.random() < 0.5 for _ in range(cnt_vals)]
            elif dt.startswith("float"):
                vals = [rng.choice(float_pool[dt] + ([0.30000000000000004, 0.7, 1 / 3] if dt == "float64" else [])) for _ in range(cnt_vals)]
            else:
                vals = [rng.choice(int_pool(dt)) for _ in range(cnt_vals)]
            r = rng.random()
            miss = None if r < 0.4 else [False] * rows if r < 0.5 else [rng.random() < 0.4 for _ in range(rows)]
            out.append(mk_prop(name, dt, sh, vals, miss))
        return out

    nn, ne = rng.randint(0, 4), rng.randint(0, 2)
    nprops, eprops = props(names[:nn], n), props(names[5:5 + ne], e)
    for ps in (nprops, eprops):
        # a bare carriage return shifts cells into other columns; a numeral beyond int64 landing in a mixed column is
        # outside the reader model (pandas' uint64 retry is order dependent): keep the two apart
        big = any(v > 2**63 - 1 for v in ids) or any(
            p["dtype"] not in ("str", "bool") and not p["dtype"].startswith("float") and any(v > 2**63 - 1 for v in p["values"]) for p in ps)
        if big:
            for p in ps:
                if p["dtype"] == "str":
                    p["values"] = ["k" if bare_cr(v) else v for v in p["values"]]
    return {"kind": "csvtext", "zf": rng.choice([2, 3]), "id_dtype": idt, "ids": ids, "edges": edges,
            "nprops": nprops, "eprops": eprops, "block": "csvtext-random"}


READ_ALPH = ["a", "1", ",", ",", '"', "\r", "\n", "\n", " ", "5", ".", "e", "-"]
LEX_ALPH = list("0123456789") + list("+-..eE") + [" ", "\t", " "] + list("infINFtyaTrueFALS") + ["\v", "\f", "N", "A", "n", "/", "#", "<", ">", "x", "_", "d"]
LEX_WORDS = ["inf", "Infinity", "-inf", "+INF", "nan", "NaN", "NA", "N/A", "True", "FALSE", "true", "1e5", "1.5", "-0", "007",
             "9223372036854775807", "9223372036854775808", "-9223372036854775808", "18446744073709551615", "1e400", "0x1", "1_0", "",
             " ", "None", "null", "a", "<NA>", "#N/A", "-nan", "1.#IND", "n/a", "NULL", "#NA", "-NaN", "1.#QNAN", "-1.#IND", "-1.#QNAN",
             "#N/A N/A"]


def read_cases(rng, count):
    """Texts for the reader model alone: raw character soup under a header, and one-column files of tricky cells."""
    import csv

    for k in range(count):
        if k % 2 == 0:
            hdr = rng.choice([",id,p\n", ",id,p,q\n", "x,y\n", ",a\n"])
            txt = hdr + "".join(rng.choice(READ_ALPH) for _ in range(rng.randint(0, 14)))
            if rng.random() < 0.7:
                txt += "\n"
        else:
            cells = []
            for _ in range(rng.choice([1, 1, 2, 3])):
                r = rng.random()
                if r < 0.3:
                    cell = rng.choice(LEX_WORDS)
                elif r < 0.5:
                    cell = rng.choice(LEX_WORDS) + rng.choice(LEX_ALPH)
                elif r < 0.6:
                    cell = rng.choice(LEX_ALPH) + rng.choice(LEX_WORDS)
                else:
                    cell = "".join(rng.choice(LEX_ALPH) for _ in range(rng.randint(1, 6)))
                cells.append(cell)
            buf = io.StringIO()
            w = csv.writer(buf, lineterminator="\n")
            w.writerow(["", "v"])
            for i, cell in enumerate(cells):
                w.writerow([str(i), cell])
            txt = buf.getvalue()
        yield {"kind": "read", "text": txt, "block": "read-soup" if k % 2 == 0 else "read-lex"}


def generate(rng, tier, int_pool, float_pool):
    yield {"kind": "consts", "block": "consts"}
    yield from witness_cases()
    for _ in range(160 if tier == "quick" else 2500):
        yield rand_csvtext(rng, int_pool, float_pool)
    yield from read_cases(rng, 400 if tier == "quick" else 6000)
