"""C05 -- a failed or interrupted write never leaves a wrong graph that looks valid."""
from __future__ import annotations

import copy
import random

import numpy as np

from harness import graphgen as gg
from harness.c01 import compare_graph, malform
from harness.common import Failure, HarnessError, cbool, clist, cstr, cz, exn_name
from harness.storelib import Interner, TracingStore, abstract_meta_obj, c_meta, c_otree, dump_tree, tree_printable

PROP = "C05"
PARALLEL = True
RULE = ("graphs N<=3 with <=2 properties per element kind (all property kinds) x pre-state {empty store, foreign group + attrs, existing "
        "geff with overwrite=True} x zarr 2/3 x structure_validation on/off: the write is run once fault-free under a tracing store, "
        "then once for EVERY store mutation k (set / set_if_not_exists / delete / delete_dir in program order) with an OSError injected at k; "
        "the surviving store is dumped and judged by validate_structure + read_to_memory; plus structurally invalid inputs (wrong lengths, "
        "stale metadata, mixed var-length) without faults; entry points write_arrays (tied to the Coq model), write_dicts and geff.write "
        "for networkx (tied to api_write through the captured arrays); dictionary-level block (tied to Dicts.write_dicts / Backends.nx_write "
        "behind the wrapper's guard: IDictsCrash / INxCrash): N<=3 nodes, <=3 properties out of {float, int, bool, str, int beyond int64, "
        "fixed list, ragged list} present on subsets, a property on the last node only, property-name lists with an absent / omitted name, "
        "ids incl. 2^63+5 / 2^64-1, 30% dictionaries that cannot be converted (ragged inside a value, negative id, the LAST property of the "
        "last table) x pre-state {fresh, foreign, geff} x write_dicts (no overwrite parameter) / geff.write(networkx, overwrite on a geff) "
        "x directed / undirected; crash points inside a directory deletion (delete_dir carried out key by key in four orders); "
        "non-trivial = trace of >= 10 mutations; distinct by structural input; "
        "entry points on a directory target (harness/c05_entries.py, tied to Entry.v): from_ctc_to_geff (label volume none / inside), "
        "from_trackmate_xml_to_geff, write_dicts, Nx/Rx/Sg backend writers called directly, the spatial-graph writer through geff.write, on "
        "fresh / foreign / geff / geff-beside-foreign directories: failures injected below the path (every mutation of a LocalStore rooted in "
        "the target incl. directory creation, and delete_geff's rmtree)")
EXHAUSTIVE_BLOCKS = ["per case: every mutation index of the write (fault_enumeration is exhaustive for the case)"]
ASSUMPTIONS = ["granularity = zarr Store API calls (set, set_if_not_exists, delete, delete_dir as one call) on a MemoryStore; torn single-key writes, "
               "the per-file order inside delete_dir / shutil.rmtree and multi-chunk arrays are below the model",
               "directory targets: mutations are serialised and storage stays broken from mutation k on (zarr issues some writes concurrently); "
               "TrackMate writes its property columns in Python-set order: its trace obligation is checked on the arrays in the order handed over",
               "the Coq model's states are tree-level (one per zarr operation geff issues); every model state must occur among the real crash "
               "states, and every real crash state that the library recognises must be the new or the previous graph"]


def small_graph(rng):
    g = gg.rand_graph(rng, max_n=3, max_e=2, max_props=2)
    return g


def generate(rng: random.Random, tier: str):
    n = 36 if tier == "quick" else 300
    for i in range(n):
        g = small_graph(rng)
        pre = rng.choice(["fresh", "fresh", "foreign", "geff"])
        yield {"kind": "crash", "entry": "write_arrays", "fmt": rng.choice([2, 3]), "pre": pre, "overwrite": pre == "geff" or rng.random() < 0.1,
               "validate": rng.random() < 0.85, "old": small_graph(rng) if pre == "geff" else None, **g}
    for i in range(40 if tier == "quick" else 400):
        g = gg.rand_graph(rng, max_n=3, max_e=2, max_props=2)
        pre = rng.choice(["fresh", "foreign", "geff"])
        yield {"kind": "invalid", "entry": "write_arrays", "fmt": rng.choice([2, 3]), "pre": pre, "overwrite": pre == "geff",
               "validate": True, "old": small_graph(rng) if pre == "geff" else None, **malform(rng, g)}
    # overwrite of a geff of the SAME SHAPE (same numbers of nodes and edges, same property names, other ids and values): a failure
    # that is swallowed somewhere inside the deletion would let old metadata / old property arrays pair up with new id arrays into a
    # store that validates -- the one combination a crash state needs in order to be recognised as a wrong graph
    for i in range(8 if tier == "quick" else 60):
        g = rich_old(rng)
        yield {"kind": "crash", "entry": "write_arrays", "fmt": rng.choice([2, 3]), "pre": "geff", "overwrite": True, "validate": True,
               "old": same_shape_other_values(rng, g), **g}
    for i in range(14 if tier == "quick" else 120):
        yield dicts_case(rng)
    for i in range(40 if tier == "quick" else 400):
        yield dicts_model_case(rng)
    # crash points INSIDE a directory deletion: delete_dir carried out key by key (in several orders), each key deletion a point of
    # failure -- the deletion of the previous geff under overwrite=True and the clean-up of a rejected write
    for i in range(10 if tier == "quick" else 80):
        g = small_graph(rng)
        yield {"kind": "crash", "entry": "write_arrays", "fmt": rng.choice([2, 3]), "pre": "geff", "overwrite": True, "validate": True,
               "old": rich_old(rng), "expand": rng.choice(["listing", "reversed", "chunks-first", "meta-first"]), **g}
    for i in range(6 if tier == "quick" else 60):
        g = gg.rand_graph(rng, max_n=3, max_e=2, max_props=2)
        yield {"kind": "invalid", "entry": "write_arrays", "fmt": rng.choice([2, 3]), "pre": rng.choice(["fresh", "foreign"]), "overwrite": False,
               "validate": True, "old": None, "expand": rng.choice(["listing", "reversed", "chunks-first", "meta-first"]), **malform(rng, g)}

    # every other writing entry point on a directory target (converters, write_dicts / backend writers called directly, the
    # spatial-graph writer): harness/c05_entries.py, tied to Entry.v
    from harness import c05_entries

    yield from c05_entries.generate(rng, tier)


def same_shape_other_values(rng, g):
    """a graph with the node / edge counts, dtypes and property names of g, and other ids and property values"""
    import copy

    h = copy.deepcopy(g)
    n = h["nids"]["shape"][0]
    perm = list(h["nids"]["data"])
    rng.shuffle(perm)
    remap = dict(zip(h["nids"]["data"], perm))
    if perm == h["nids"]["data"] and n >= 2:
        perm = perm[1:] + perm[:1]
        remap = dict(zip(h["nids"]["data"], perm))
    h["nids"]["data"] = perm
    h["eids"]["data"] = [remap.get(x, x) for x in h["eids"]["data"]]
    for ps in (h["nprops"], h["eprops"]):
        for p in (ps or {}).values():
            v = p["values"]
            if "vlen" in v:
                for e in v["vlen"]:
                    e["data"] = list(reversed(e["data"]))
            else:
                v["data"] = list(reversed(v["data"]))
    return h


def rich_old(rng):
    """a previous graph with at least two nodes, a masked property and non-zero ids (so that a half-deleted copy is a DIFFERENT graph)"""
    while True:
        g = gg.rand_graph(rng, max_n=4, max_e=3, max_props=3)
        if g["nids"]["shape"][0] >= 2 and any(v for v in g["nids"]["data"]) and g["nprops"]:
            return g


def dicts_case(rng):
    n = rng.randint(1, 3)
    ids = rng.sample(range(1, 50), n)
    nodes = [[i, {"t": float(rng.randint(0, 5)), **({"s": rng.randint(0, 9)} if rng.random() < 0.6 else {})}] for i in ids]
    edges = [[[ids[0], ids[-1]], {"w": 0.5}]] if n >= 2 else []
    entry = rng.choice(["write_dicts", "nx", "nx"])
    pre = rng.choice(["fresh", "foreign", "geff"]) if entry == "nx" else "fresh"
    return {"kind": "crash", "entry": entry, "fmt": rng.choice([2, 3]), "pre": pre, "overwrite": pre == "geff",
            "validate": True, "nodes": nodes, "edges": edges, "directed": True, "old": small_graph(rng) if pre == "geff" else None}


DICT_VALUES = {
    "float": lambda rng: rng.randint(-8, 8) / 4, "int": lambda rng: rng.randint(-5, 9), "bool": lambda rng: rng.random() < 0.5,
    "str": lambda rng: rng.choice(["a", "", "bc"]), "big": lambda rng: 2 ** 63 + rng.randint(0, 3),
    "list": lambda rng: [rng.randint(0, 4), rng.randint(0, 4)], "ragged": lambda rng: [rng.randint(0, 4)] * rng.randint(1, 3),
}


def dicts_model_case(rng):
    """write_dicts / geff.write(networkx) on dictionaries of every value class of Dicts.v (tied to the Dicts model: IDictsCrash / INxCrash),
    on every pre-state -- incl. dictionaries that cannot be converted (raise before any mutation; under geff.write(overwrite=True) after
    the old geff was deleted) and write_dicts meeting an existing geff (it has no overwrite parameter: refusal without mutation)."""
    n = rng.randint(1, 3)
    ids = rng.sample(range(0, 50), n)
    if rng.random() < 0.15:
        ids[rng.randrange(n)] = rng.choice([2 ** 63 + 5, 2 ** 64 - 1])
    kinds = rng.sample(sorted(DICT_VALUES), rng.randint(1, 3))
    nodes = []
    for j, i in enumerate(ids):
        d = {}
        for kd in kinds:
            # ints beyond int64 next to a fill value become float64 of magnitude 2^63 (C03 finding): beyond what the tree dump encodes exactly
            if kd == "big" or rng.random() < 0.75 or (j == n - 1 and rng.random() < 0.5):
                d["p_" + kd] = DICT_VALUES[kd](rng)
        nodes.append([i, d])
    if rng.random() < 0.3 and n >= 2:                       # a property present on the last node only
        nodes[-1][1]["last"] = rng.randint(0, 9)
    edges = []
    if n >= 2:
        edges.append([[ids[0], ids[-1]], {"w": 0.5} if rng.random() < 0.7 else {}])
        if n >= 3 and rng.random() < 0.5:
            edges.append([[ids[1], ids[0]], {"w": 1.5, "lab": "x"} if rng.random() < 0.5 else {"lab": "y"}])
    bad = rng.random() < 0.3
    if bad:
        how = rng.choice(["ragged-inside", "negative-id", "late"])
        if how == "ragged-inside":
            nodes[0][1]["bad"] = [[1], 2]
        elif how == "negative-id":
            nodes[0][0] = -3
            edges = []
        else:                                               # the LAST property of the LAST table is the one that cannot be converted
            if edges:
                edges[-1][1]["zz_bad"] = [[1], 2]
            else:
                nodes[-1][1]["zz_bad"] = [[1], 2]
    entry = rng.choice(["write_dicts", "nx_dicts", "nx_dicts"])
    pre = rng.choice(["fresh", "foreign", "geff", "geff"])
    nnames = sorted({k for _, d in nodes for k in d})
    enames = sorted({k for _, d in edges for k in d})
    if entry == "write_dicts" and rng.random() < 0.3 and nnames:
        nnames = nnames + ["absent"] if rng.random() < 0.5 else nnames[:-1]     # a name no node carries / a property left out
    return {"kind": "crash", "entry": entry, "fmt": rng.choice([2, 3]), "pre": pre, "overwrite": entry == "nx_dicts" and pre == "geff" and rng.random() < 0.8,
            "validate": True, "nodes": nodes, "edges": edges, "nnames": nnames, "enames": enames, "directed": rng.random() < 0.7,
            "bad": bad, "old": small_graph(rng) if pre == "geff" else None}


def make_pre(c, it):
    """A fresh inner MemoryStore in the case's pre-state."""
    import zarr
    from zarr.storage import MemoryStore

    from geff.core_io import write_arrays

    st = MemoryStore()
    if c["pre"] in ("foreign", "geff"):
        g = zarr.open_group(st, mode="a", zarr_format=c["fmt"])
        if c["pre"] == "foreign" or c.get("old") is not None:
            g.attrs["foo"] = {"bar": 1}
            o = g.create_group("other")
            o["arr"] = np.arange(3, dtype="int16")
    if c["pre"] == "geff":
        o = c["old"]
        write_arrays(st, gg.to_np(o["nids"]), gg.props_to_np(o["nprops"]), gg.to_np(o["eids"]), gg.props_to_np(o["eprops"]),
                     gg.make_metadata(o["md"]), zarr_format=c["fmt"])
    return st


def call_entry(c, store):
    if c["entry"] == "write_arrays":
        from geff.core_io import write_arrays

        write_arrays(store, gg.to_np(c["nids"]), gg.props_to_np(c["nprops"]), gg.to_np(c["eids"]), gg.props_to_np(c["eprops"]),
                     gg.make_metadata(c["md"]), zarr_format=c["fmt"], **({} if c["validate"] else {"structure_validation": False}), **({"overwrite": True} if c["overwrite"] else {}))
    elif c["entry"] == "write_dicts":
        from geff.core_io import write_dicts
        from geff_spec import GeffMetadata

        write_dicts(store, [(i, d) for i, d in c["nodes"]], [(tuple(e), d) for e, d in c["edges"]], c.get("nnames", ["t", "s"]), c.get("enames", ["w"]),
                    GeffMetadata(directed=c["directed"], node_props_metadata={}, edge_props_metadata={}), zarr_format=c["fmt"])
    else:
        import networkx as nx

        import geff

        G = nx.DiGraph() if c["directed"] else nx.Graph()
        for i, d in c["nodes"]:
            G.add_node(i, **d)
        for (a, b), d in c["edges"]:
            G.add_edge(a, b, **d)
        geff.write(G, store, zarr_format=c["fmt"], **({"overwrite": True} if c["overwrite"] else {}))


def expected_graphs(c):
    """(new, old) as (nids, eids, nprops, eprops) numpy tuples for the oracle; None when not applicable."""
    def tup(g):
        nprops = gg.props_to_np(g["nprops"])
        if g["nids"]["shape"][0] == 0 and nprops is not None:
            # documented behaviour of write_arrays: an empty graph gets an empty float64 property for every declared axis
            for ax in g["md"].get("axes") or []:
                nprops.setdefault(ax["name"], {"values": np.empty(0, dtype="float64"), "missing": None})
        return (gg.to_np(g["nids"]), gg.to_np(g["eids"]), nprops or {}, gg.props_to_np(g["eprops"]) or {})
    new = tup(c) if c["entry"] == "write_arrays" else None
    old = tup(c["old"]) if c.get("old") else None
    return new, old


def judge(inner, new, old, newref):
    """rejected | new | old | WRONG: what the library makes of the surviving store."""
    from geff import validate_structure
    from geff.core_io import read_to_memory

    try:
        validate_structure(inner)
        back = read_to_memory(inner)
    except Exception:
        return "rejected"
    if new is not None and compare_graph(*new, back) is None:
        return "new"
    if newref is not None and same_mem(newref, back):
        return "new"
    if old is not None and compare_graph(*old, back) is None:
        return "old"
    return "WRONG"


def same_mem(a, b):
    try:
        return compare_graph(a["node_ids"], a["edge_ids"], a["node_props"], a["edge_props"], b) is None
    except Exception:
        return False


def run_impl(c):
    from geff.core_io import read_to_memory

    if c["kind"] == "ecrash":
        from harness import c05_entries

        return c05_entries.run_impl(c)
    it = Interner()
    if c["entry"] in ("write_dicts", "nx_dicts"):
        from harness.c03 import It

        it = It()                                          # the empty string is token 0 (the fill value of Dicts.v)
    obs = {}
    new, old = expected_graphs(c)
    # fault-free run
    inner = make_pre(c, it)
    pre_tree = dump_tree(inner, it)
    ts = TracingStore(inner, expand=c.get("expand"))
    captured = []
    try:
        from harness.c06 import capture_write_arrays

        with capture_write_arrays(captured):
            call_entry(c, ts)
        obs["res"] = ["ok"]
    except Exception as e:
        obs["res"] = ["err", exn_name(e), str(e)[:100]]
    n = len(ts.log)
    obs["mutations"] = n
    final_tree = dump_tree(inner, it)
    newref = None
    if obs["res"][0] == "ok" and new is None:
        newref = read_to_memory(inner)
    obs["final_judged"] = judge(inner, new, old, newref)
    # rejected input: what is left
    if c["kind"] == "invalid":
        obs["left"] = leftovers(pre_tree, final_tree)
    survivors = []
    outcomes = []
    for k in range(n):
        inner_k = make_pre(c, it)
        tk = TracingStore(inner_k, fail_at=k, expand=c.get("expand"))
        try:
            call_entry(c, tk)
            outcomes.append("completed")  # only when the library swallowed the failure
        except OSError:
            outcomes.append("OSError")
        except Exception as e:
            outcomes.append(type(e).__name__)
        verdict = judge(inner_k, new, old, newref)
        tree_k = dump_tree(inner_k, it)
        survivors.append((tree_k, verdict))
    obs["outcomes"] = sorted(set(outcomes))
    obs["verdicts"] = [v for _, v in survivors]
    if c["entry"] == "nx" and captured and tree_printable(pre_tree) and tree_printable(final_tree):
        # the graph-library writer, tied to api_write on the arrays the backend handed to write_arrays
        try:
            a = captured[0]
            if all(gg.printable_np(p["values"]) for ps in (a["node_props"], a["edge_props"]) if ps for p in ps.values()):
                inp = (f"IApiCrash KObj {c_otree(pre_tree)} {gg.c_wgraph(a['node_ids'], a['edge_ids'], a['node_props'], a['edge_props'], it)} "
                       f"{c_meta(abstract_meta_obj(a['metadata'], it))} {cbool(a['structure_validation'])} {cbool(c['overwrite'])}")
                surv = clist(survivors + [(final_tree, obs["final_judged"])],
                             lambda tv: f"({'Some ' + c_otree(tv[0]) if tree_printable(tv[0]) else 'None'}, {cbool(tv[1] != 'rejected')})")
                r = "(Ok tt)" if obs["res"][0] == "ok" else f"(Err {obs['res'][1]})"
                obs["coq"] = f"({inp}, OCrash {r} {c_otree(final_tree)} {surv})"
        except HarnessError:
            pass
    if c["entry"] in ("write_dicts", "nx_dicts") and tree_printable(pre_tree) and tree_printable(final_tree):
        # tied to the Dicts model: the node / edge dictionaries themselves are the input (no captured arrays)
        try:
            from harness import c03

            if c["entry"] == "write_dicts":
                from geff_spec import GeffMetadata

                md = GeffMetadata(directed=c["directed"], node_props_metadata={}, edge_props_metadata={})
                dg = c03.c_dgraph([(i, d) for i, d in c["nodes"]], [(tuple(e), d) for e, d in c["edges"]], it)
                dg = dg.replace("(PInt ", "(Dicts.PInt ").replace("(PStr ", "(Dicts.PStr ")  # TrackMate.v has constructors of the same names
                inp = (f"IDictsCrash KObj {c_otree(pre_tree)} {dg} {clist(c.get('nnames', ['t', 's']), cstr)} {clist(c.get('enames', ['w']), cstr)} "
                       f"{c_meta(abstract_meta_obj(md, it))}")
            else:
                import networkx as nx

                G = nx.DiGraph() if c["directed"] else nx.Graph()
                for i, d in c["nodes"]:
                    G.add_node(i, **copy.deepcopy(d))
                for (a, b), d in c["edges"]:
                    G.add_edge(a, b, **copy.deepcopy(d))
                mdtok, axtok = c03.default_tokens(it)
                dg = c03.c_dgraph([(n_, d) for n_, d in G.nodes(data=True)], [((u, v), d) for u, v, d in G.edges(data=True)], it)
                # the order of the Python sets NxBackend.write builds (same strings, same insertion order, same process: same order)
                nn = list({k for _, data in G.nodes(data=True) for k in data})
                en = list({k for _, _, data in G.edges(data=True) for k in data})
                dg = dg.replace("(PInt ", "(Dicts.PInt ").replace("(PStr ", "(Dicts.PStr ")
                inp = (f"INxCrash KObj {c_otree(pre_tree)} {cbool(c['directed'])} {dg} {clist(nn, cstr)} {clist(en, cstr)} None "
                       f"{cz(mdtok)} {cz(axtok)} {cbool(c['overwrite'])}")
            surv = clist(survivors + [(final_tree, obs["final_judged"])],
                         lambda tv: f"({'Some ' + c_otree(tv[0]) if tree_printable(tv[0]) else 'None'}, {cbool(tv[1] != 'rejected')})")
            r = "(Ok tt)" if obs["res"][0] == "ok" else f"(Err {obs['res'][1]})"
            obs["coq"] = f"({inp}, OCrash {r} {c_otree(final_tree)} {surv})"
        except HarnessError:
            pass
    if c["entry"] == "write_arrays" and tree_printable(pre_tree) and tree_printable(final_tree):
        try:
            nids, eids = gg.to_np(c["nids"]), gg.to_np(c["eids"])
            nprops, eprops = gg.props_to_np(c["nprops"]), gg.props_to_np(c["eprops"])
            ok_in = all(gg.printable_np(p["values"]) for ps in (nprops, eprops) if ps for p in ps.values()) and \
                all("/" not in kk for ps in (nprops, eprops) if ps for kk in ps)
            if ok_in:
                inp = (f"ICrash KObj {c_otree(pre_tree)} {gg.c_wgraph(nids, eids, nprops, eprops, it)} "
                       f"{c_meta(abstract_meta_obj(gg.make_metadata(c['md']), it))} {cbool(c['validate'])} {cbool(c['overwrite'])}")
                surv = clist(survivors + [(final_tree, obs["final_judged"])],
                             lambda tv: f"({'Some ' + c_otree(tv[0]) if tree_printable(tv[0]) else 'None'}, {cbool(tv[1] != 'rejected')})")
                r = "(Ok tt)" if obs["res"][0] == "ok" else f"(Err {obs['res'][1]})"
                obs["coq"] = f"({inp}, OCrash {r} {c_otree(final_tree)} {surv})"
        except HarnessError:
            pass
    return obs


def leftovers(pre_tree, final_tree):
    """After a rejected write: are nodes/edges/geff gone and the foreign members/attributes of the pre-state still there?"""
    def members(t):
        return {} if t is None else dict(t["ch"])

    def attrs(t):
        return {} if t is None else {k: v for k, v in t["attrs"]}
    pre_m, fin_m = members(pre_tree), members(final_tree)
    pre_a, fin_a = attrs(pre_tree), attrs(final_tree)
    out = {"nodes_left": "nodes" in fin_m, "edges_left": "edges" in fin_m, "geff_left": "geff" in fin_a,
           "foreign_members_kept": all(k in fin_m and fin_m[k] == v for k, v in pre_m.items() if k not in ("nodes", "edges")),
           "foreign_attrs_kept": all(k in fin_a and fin_a[k] == v for k, v in pre_a.items() if k != "geff")}
    return out


def coq_case(c, o):
    return o.get("coq")


def oracle(c, o):
    if c["kind"] == "ecrash":
        from harness import c05_entries

        return c05_entries.oracle(c, o)
    bad = [i for i, v in enumerate(o["verdicts"]) if v == "WRONG"]
    if bad:
        return Failure(c, slim(o), f"storage failure at mutation {bad[0]} of {o['mutations']} leaves a store that validates and reads as a graph "
                       "that is neither the one being written nor the previous one", {"why": "wrong-graph-looks-valid", "entry": c["entry"]})
    if o["final_judged"] == "WRONG":
        return Failure(c, slim(o), "the completed (or rejected) write leaves a recognised store that is neither the new nor the previous graph",
                       {"why": "final-wrong", "entry": c["entry"]})
    if c["kind"] == "invalid" and o["res"][0] == "err":
        if o["final_judged"] not in ("rejected", "old"):
            return Failure(c, slim(o), f"rejected write ({o['res'][1]}) leaves a store judged {o['final_judged']}", {"why": "rejected-but-recognised"})
        left = o["left"]
        if o["res"][1] == "ValueError" and "Cannot write invalid geff" in o["res"][2] or (o["res"][1] == "ValueError" and c.get("malform") in ("len", "misslen", "stale_md")):
            if left["nodes_left"] or left["edges_left"] or left["geff_left"]:
                return Failure(c, slim(o), f"structural validation rejected the result but it was not removed: {left}", {"why": "not-cleaned"})
        if not left["foreign_members_kept"] or not left["foreign_attrs_kept"]:
            if not (c["pre"] == "geff"):
                return Failure(c, slim(o), f"unrelated members of the container were not preserved: {left}", {"why": "foreign-lost"})
    return None


def slim(o):
    return {k: v for k, v in o.items() if k not in ("coq",)}


def nontrivial(c, o):
    return o["mutations"] >= 10


def describe(c, o):
    from collections import Counter
    if c["kind"] == "ecrash":
        from harness import c05_entries

        return c05_entries.describe(c, o)
    cnt = Counter(o["verdicts"])
    return f"{c['entry']}:{c['kind']}{':keys=' + c['expand'] if c.get('expand') else ''}:v{c['fmt']}:{c['pre']}:ov={int(c['overwrite'])}:{o['res'][0] if o['res'][0]=='ok' else o['res'][1]}:muts~{o['mutations']//10*10}:{'+'.join(sorted(cnt))}"


def extra_coverage():
    return {}
