"""C06 -- entry-point histories: every writing entry point of the library on one location.

A history is a list of calls on the directory <scratch>/h.geff (or on one MemoryStore); each call is one `ecall` of
coq/theories/Entry.v:
  arrays  write_arrays(store, ...)                                   EArrays
  dicts   write_dicts(store, ...)            (no overwrite parameter) EDicts
  nxb / rxb / sgb   NxBackend / RxBackend / SgBackend .write called directly (no overwrite parameter)   EDicts
  nx / sg geff.write(graph, store, overwrite=...)                    EApi
  ctc     from_ctc_to_geff / `geff convert-ctc`  (dataset, label volume outside / inside the geff directory)   ECtc
  tm      from_trackmate_xml_to_geff / `geff convert-trackmate-xml`   ETm
For the writers that build arrays (dicts, backends, geff.write) the model takes the arguments the library hands to write_arrays
(harness.c06.capture_write_arrays); for the converters it takes the dataset / the document (printers of harness.c15 / harness.c16)
and, for CTC, the label volume stacked from the generated frames.  After every call: exception class and the abstract dump of the
directory (a directory that is not a zarr group: its entries) are compared with the model's step inside Coq.
"""
from __future__ import annotations

import copy
import os
import random
import shutil
from pathlib import Path

import numpy as np

from harness import graphgen as gg
from harness.common import Failure, HarnessError, cbool, clist, cstr, exn_name

SG_SIG = dict(ndims=2, node_dtype="uint64", node_attr_dtypes={"pos": "float64[2]", "score": "float32"},
              edge_attr_dtypes={"w": "float64"}, position_attr="pos", directed=True)


# ---------------------------------------------------------------------------------------------------------- call builders
def ctc_call(k, ov, seg="none", via="api", pre_seg=False, spell=None):
    """dataset k: labels 1..k, each present in both of two frames: 2k nodes, k edges.
    spell: how the caller writes the target -- None: as it is stored (`<stem>.geff`); "stem": without the suffix; "zarr": with another
    suffix.  from_ctc_to_geff normalises the suffix to .geff, so all three name the SAME location and every guard must look there."""
    return {"ep": "ctc", "k": k, "ov": ov, "seg": seg, "via": via, "pre_seg": pre_seg, "spell": spell}


def spelled(store, call):
    sp = call.get("spell")
    if sp is None or not isinstance(store, (str, Path)) or Path(store).suffix != ".geff":
        return store
    q = Path(store).with_suffix("" if sp == "stem" else ".zarr")
    return str(q) if isinstance(store, str) else q


def tm_call(k, ov, ds=False, dt=False, via="api"):
    """document k: a chain of k+1 spots (ids 10k+1 ..), one track"""
    return {"ep": "tm", "k": k, "ov": ov, "ds": ds, "dt": dt, "via": via}


def graph_call(ep, rng, ov, kind="path"):
    """ep in dicts / nxb / rxb / nx: a small attribute graph (property names vary from call to call)"""
    from harness.c06 import nx_graph

    return dict(nx_graph(rng, ov), ep=ep, skind=kind)


def sg_call(ep, rng, ov, kind="path"):
    n = rng.randint(0, 3)
    ids = sorted(rng.sample(range(1, 30), n))
    return {"ep": ep, "ov": ov, "skind": kind, "ids": ids, "pos": [[float(rng.randint(0, 8)), float(rng.randint(0, 8))] for _ in ids],
            "score": [rng.randint(0, 6) / 2 for _ in ids], "edges": [[ids[0], ids[-1]]] if n >= 2 else [], "w": [rng.randint(0, 9) / 4] if n >= 2 else []}


def arrays_call(rng, ov, kind="path", validate=True):
    g = gg.rand_graph(rng, max_n=3, max_e=2, max_props=2)
    return dict(g, ep="arrays", ov=ov, validate=validate, skind=kind)


def hist(calls, fmt=2, pre="fresh", target="dir", block=""):
    return {"kind": "ehist", "fmt": fmt, "pre": pre, "target": target, "calls": calls, "block": block}


def generate(rng: random.Random, tier: str):
    thorough = tier != "quick"
    for fmt in (2, 3):
        # the two converters: fresh, refused, overwritten
        for o1, o2 in ((False, True), (True, False)):
            yield hist([ctc_call(1, False), ctc_call(2, o1), ctc_call(3, o2)], fmt, block="ctc")
            yield hist([tm_call(1, False), tm_call(2, o1), tm_call(3, o2)], fmt, block="tm")
        yield hist([ctc_call(2, False, via="cli"), ctc_call(1, False, via="cli"), ctc_call(3, True, via="cli")], fmt, block="ctc-cli")
        # the target spelled without / with another suffix (normalised to .geff by the converter): the guards must look at the
        # normalised location -- refusal leaves everything (a not yet existing label volume included) untouched, overwrite replaces
        yield hist([ctc_call(1, False), ctc_call(2, False, spell="stem", seg="outside"), ctc_call(3, True, spell="stem"),
                    ctc_call(1, False, spell="zarr")], fmt, block="ctc-spelling")
        yield hist([ctc_call(2, False, spell="zarr"), ctc_call(1, True, spell="stem", seg="outside"), ctc_call(3, False, spell="zarr", via="cli")],
                   fmt, block="ctc-spelling")
        yield hist([tm_call(2, False, via="cli"), tm_call(1, False, via="cli"), tm_call(3, True, via="cli")], fmt, block="tm-cli")
        # the label volume: outside (fresh / occupied target), inside the geff directory (fresh; over a geff)
        yield hist([ctc_call(1, False, seg="outside"), ctc_call(2, True, seg="outside", pre_seg=True), ctc_call(1, False, seg="outside", pre_seg=True)],
                   fmt, block="ctc-seg-outside")
        yield hist([ctc_call(1, False, seg="inside"), ctc_call(2, True, seg="inside"), ctc_call(1, False)], fmt, block="ctc-seg-inside")
        yield hist([ctc_call(1, False), ctc_call(2, True, seg="inside"), ctc_call(3, False)], fmt, block="ctc-seg-inside")
        # a geff that shares its directory with foreign members (laid down through a store object), then every entry point by path
        for ep in ("ctc", "tm", "sg", "nx", "dicts", "arrays"):
            first = arrays_call(random.Random(31 + fmt), False, kind="obj")
            if ep == "ctc":
                rest = [ctc_call(2, True), ctc_call(1, False)]
            elif ep == "tm":
                rest = [tm_call(2, True), tm_call(1, False)]
            elif ep == "sg":
                rest = [sg_call("sg", rng, True), sg_call("sg", rng, False)]
            elif ep == "nx":
                rest = [graph_call("nx", rng, True), graph_call("nx", rng, False)]
            elif ep == "dicts":
                rest = [graph_call("dicts", rng, False), graph_call("nxb", rng, False)]
            else:
                rest = [arrays_call(rng, True), arrays_call(rng, False)]
            yield hist([first] + rest, fmt, pre="foreign", block="beside-" + ep)
        # writers without an overwrite parameter, called directly
        for ep in ("dicts", "nxb", "rxb", "sgb"):
            mk = sg_call if ep == "sgb" else graph_call
            kinds = (("path", "dir"), ("obj", "dir"), ("obj", "mem"))
            for kind, target in (kinds if thorough else (kinds[:1] + kinds[2:] if fmt == 2 else kinds[1:2])):
                yield hist([mk(ep, rng, False, kind), mk(ep, rng, False, kind)], fmt, pre=rng.choice(["fresh", "foreign"]), target=target,
                           block="direct-" + ep)
        # the spatial-graph writer through geff.write
        kinds = (("path", "dir"), ("obj", "mem"), ("str", "dir"), ("obj", "dir"))
        for kind, target in (kinds if thorough else (kinds[:2] if fmt == 2 else kinds[2:])):
            yield hist([sg_call("sg", rng, False, kind), sg_call("sg", rng, False, kind), sg_call("sg", rng, True, kind)], fmt,
                       pre=rng.choice(["fresh", "foreign"]) if kind == "obj" else "fresh", target=target, block="sg")
    # mixed histories: entry points take turns on one directory
    for i in range(8 if not thorough else 120):
        fmt = rng.choice([2, 3])
        calls = []
        for j in range(rng.randint(3, 5)):
            ov = j > 0 and rng.random() < 0.55
            ep = rng.choice(["ctc", "tm", "arrays", "dicts", "nxb", "rxb", "sgb", "sg", "nx"])
            kind = rng.choice(["path", "str", "obj"])
            if ep == "ctc":
                calls.append(ctc_call(rng.randint(1, 3), ov, seg=rng.choice(["none", "none", "outside", "inside"]), via=rng.choice(["api", "api", "cli"]),
                                      spell=rng.choice([None, None, "stem", "zarr"])))
            elif ep == "tm":
                calls.append(tm_call(rng.randint(1, 3), ov, ds=rng.random() < 0.3, dt=rng.random() < 0.3, via=rng.choice(["api", "api", "cli"])))
            elif ep == "arrays":
                calls.append(arrays_call(rng, ov, kind if kind != "str" else "path", validate=rng.random() < 0.9))
            elif ep in ("sgb", "sg"):
                calls.append(sg_call(ep, rng, ov if ep == "sg" else False, kind))
            else:
                calls.append(graph_call(ep, rng, ov if ep == "nx" else False, kind))
        yield hist(calls, fmt, pre=rng.choice(["fresh", "fresh", "foreign"]), block="mixed")


# ---------------------------------------------------------------------------------------------------------- running a call
class ShortStok:
    """harness.c16.StokInterner (the token of a string is computable inside the TrackMate model) for strings up to 64 bytes; longer
    strings (whole metadata documents, whose tokens the comparison blanks or only tests for equality) get a 160-bit digest instead of
    a numeral with thousands of digits"""

    def tok(self, s) -> int:
        import hashlib

        from harness.c16 import stok

        s = s if isinstance(s, str) else str(s)
        if len(s.encode("utf-8")) <= 64:
            return stok(s)
        return (2 << 600) + int.from_bytes(hashlib.sha1(s.encode("utf-8")).digest(), "big")


class capture_all:
    """harness.c06.capture_write_arrays, extended to the name the spatial-graph backend binds at import time
    (`from geff.core_io import write_arrays` in _spatial_graph.py); a nested call is recorded once"""

    def __init__(self, sink):
        self.sink = sink

    def __enter__(self):
        import inspect

        import geff._graph_libs._spatial_graph as sgm
        import geff.core_io._base_write as bw

        self.mods, self.orig = (bw, sgm), bw.write_arrays
        if sgm.write_arrays is not self.orig:
            raise HarnessError("the spatial-graph backend no longer calls geff.core_io.write_arrays")
        sig = inspect.signature(self.orig)

        def spy(*a, **kw):
            b = sig.bind(*a, **kw)
            b.apply_defaults()
            self.sink.append(dict(b.arguments))
            return self.orig(*a, **kw)

        for m in self.mods:
            m.write_arrays = spy
        return self

    def __exit__(self, *exc):
        for m in self.mods:
            m.write_arrays = self.orig
        return False


def ctc_case(call, fmt):
    from harness import c15

    r = random.Random(call["k"])
    labs = list(range(1, call["k"] + 1))
    seg, seg_rel = {"none": ("none", "seg.zarr"), "outside": ("path", "seg.zarr"), "inside": ("path", "h.geff/seg")}[call["seg"]]
    return c15.base_case(**c15.dataset_from_presence(r, 2, {l: [0, 1] for l in labs}, {}), geff_rel="h.geff", seg=seg, seg_rel=seg_rel,
                         fmt=fmt, overwrite=call["ov"], pre_seg=2 if call["pre_seg"] else None)


def tm_case(call, fmt):
    from harness import c16

    k = call["k"]
    ids = [10 * k + 1 + i for i in range(k + 1)]
    c, _ = c16.doc_from_links(ids, list(range(k + 1)), [(ids[i], ids[i + 1]) for i in range(k)], [k], feat=(k % 2 == 0))
    c.update(ds=call["ds"], dt=call["dt"], overwrite=call["ov"], fmt=fmt)
    return c


def strip_iconv(term: str) -> str:
    """`(IConv <args> @PRE@)` of the C15 / C16 printers -> `<args>`"""
    if not (term.startswith("(IConv ") and term.endswith(" @PRE@)")):
        raise HarnessError("unexpected converter term")
    return term[len("(IConv "):-len(" @PRE@)")]


def sg_graph(call):
    import spatial_graph as sg

    create = getattr(sg, "create_graph", sg.SpatialGraph)
    g = create(**SG_SIG)
    if call["ids"]:
        g.add_nodes(np.array(call["ids"], dtype="uint64"), pos=np.array(call["pos"], dtype="float64").reshape(-1, 2),
                    score=np.array(call["score"], dtype="float32"))
    if call["edges"]:
        g.add_edges(np.array(call["edges"], dtype="uint64").reshape(-1, 2), w=np.array(call["w"], dtype="float64"))
    return g


def build_nx(call):
    import networkx as nx

    G = nx.DiGraph()
    for i, d in call["nx_nodes"]:
        G.add_node(i, **d)
    for a, b, d in call["nx_edges"]:
        G.add_edge(a, b, **d)
    return G


def do_call(call, store, fmt, root: Path):
    """runs one call of the library; returns the Coq term of the converter input when the call is a converter (else None)"""
    ov = {"overwrite": True} if call["ov"] else {}
    ep = call["ep"]
    if ep == "arrays":
        from geff.core_io import write_arrays

        write_arrays(store, gg.to_np(call["nids"]), gg.props_to_np(call["nprops"]), gg.to_np(call["eids"]), gg.props_to_np(call["eprops"]),
                     gg.make_metadata(call["md"]), zarr_format=fmt, **({} if call["validate"] else {"structure_validation": False}), **ov)
    elif ep == "dicts":
        from geff.core_io import write_dicts
        from geff_spec import GeffMetadata

        names = sorted({k for _, d in call["nx_nodes"] for k in d})
        enames = sorted({k for _, _, d in call["nx_edges"] for k in d})
        write_dicts(store, [(i, d) for i, d in call["nx_nodes"]], [((a, b), d) for a, b, d in call["nx_edges"]], names, enames,
                    GeffMetadata(directed=True, node_props_metadata={}, edge_props_metadata={}), zarr_format=fmt)
    elif ep == "nxb":
        from geff._graph_libs._networkx import NxBackend

        NxBackend.write(build_nx(call), store, zarr_format=fmt)
    elif ep == "rxb":
        import rustworkx as rx

        from geff._graph_libs._rustworkx import RxBackend

        G = rx.PyDiGraph()
        idx = {}
        for i, d in call["nx_nodes"]:
            idx[i] = G.add_node(dict(d))
        for a, b, d in call["nx_edges"]:
            G.add_edge(idx[a], idx[b], dict(d))
        RxBackend.write(G, store, zarr_format=fmt, node_id_dict={v: k for k, v in idx.items()})
    elif ep == "nx":
        import geff

        geff.write(build_nx(call), store, zarr_format=fmt, **ov)
    elif ep == "sgb":
        from geff._graph_libs._spatial_graph import SgBackend

        SgBackend.write(sg_graph(call), store, axis_names=["y", "x"], zarr_format=fmt)
    elif ep == "sg":
        import geff

        geff.write(sg_graph(call), store, axis_names=["y", "x"], zarr_format=fmt, **ov)
    elif ep == "ctc":
        from harness import c15

        case = ctc_case(call, fmt)
        ds_root = root / "ctc_in"
        shutil.rmtree(ds_root, ignore_errors=True)
        ds_root.mkdir()
        ctc = c15.write_dataset(case, ds_root)
        seg_path = root / case["seg_rel"]
        if case["seg"] != "none" and call["seg"] == "outside":
            shutil.rmtree(seg_path, ignore_errors=True)
            if call["pre_seg"]:
                import zarr

                a = zarr.open_array(str(seg_path), mode="w", shape=(1, 2, 2), dtype="uint8", zarr_format=2)
                a[...] = 7
        seg_arg = None if case["seg"] == "none" else seg_path
        if call["via"] == "cli":
            from typer.testing import CliRunner

            from geff._cli import app

            args = ["convert-ctc", str(ctc), str(spelled(store, call)), "--zarr-format", str(fmt)]
            if seg_arg is not None:
                args += ["--segm-path", str(seg_arg)]
            if call["ov"]:
                args.append("--overwrite")
            r = CliRunner().invoke(app, args)
            if r.exception is not None and not isinstance(r.exception, SystemExit):
                raise r.exception
            if r.exit_code != 0:
                raise HarnessError(f"geff convert-ctc exit code {r.exit_code}: {r.output[:300]}")
        else:
            from geff.convert import from_ctc_to_geff

            from_ctc_to_geff(ctc, spelled(store, call), segmentation_store=seg_arg, zarr_format=fmt, **ov)
    elif ep == "tm":
        from harness import c16

        case = tm_case(call, fmt)
        xml = root / "tm_in.xml"
        xml.write_text(c16.xml_of(case), encoding="utf-8")
        if call["via"] == "cli":
            from typer.testing import CliRunner

            from geff._cli import app

            args = ["convert-trackmate-xml", str(xml), str(store), "--zarr-format", str(fmt)]
            if call["ds"]:
                args.append("--discard-filtered-spots")
            if call["dt"]:
                args.append("--discard-filtered-tracks")
            if call["ov"]:
                args.append("--overwrite")
            r = CliRunner().invoke(app, args)
            if r.exception is not None and not isinstance(r.exception, SystemExit):
                raise r.exception
            if r.exit_code != 0:
                raise HarnessError(f"geff convert-trackmate-xml exit code {r.exit_code}: {r.output[:300]}")
        else:
            from geff.convert import from_trackmate_xml_to_geff

            from_trackmate_xml_to_geff(xml, store, discard_filtered_spots=call["ds"], discard_filtered_tracks=call["dt"], zarr_format=fmt, **ov)
    else:
        raise HarnessError(f"unknown entry point {ep}")


def coq_ecall(call, fmt, captured, it) -> str:
    """the Entry.ecall of one call (raises HarnessError when the input is outside what the model can print)"""
    from harness.storelib import abstract_meta_obj, c_meta

    ep = call["ep"]
    K = "KObj" if call.get("skind") == "obj" else "KPath"
    if ep == "ctc":
        from harness import c15

        case = ctc_case(call, fmt)
        term = c15.coq_input(case, "@PRE@")
        if term is None:
            raise HarnessError("centroid outside the model")
        vol = np.stack([c15.frame_array(case, t) for t in range(len(case["frames"]))])
        return f"(ECtc {strip_iconv(term)} {gg.c_np_arr(vol, it)})"
    if ep == "tm":
        from harness import c16

        case = tm_case(call, fmt)
        if not c16.in_model(case):
            raise HarnessError("document outside the model")
        return f"(ETm {strip_iconv(c16.coq_input(case, '@PRE@'))})"
    if ep == "arrays":
        nids, eids = gg.to_np(call["nids"]), gg.to_np(call["eids"])
        nprops, eprops = gg.props_to_np(call["nprops"]), gg.props_to_np(call["eprops"])
        if not all(gg.printable_np(p["values"]) for ps in (nprops, eprops) if ps for p in ps.values()) or \
                any("/" in k for ps in (nprops, eprops) if ps for k in ps):
            raise HarnessError("unprintable")
        return (f"(EArrays {K} {gg.c_wgraph(nids, eids, nprops, eprops, it)} {c_meta(abstract_meta_obj(gg.make_metadata(call['md']), it))} "
                f"{cbool(call['validate'])} {cbool(call['ov'])})")
    # the writers that build arrays: what they handed to write_arrays
    if captured:
        a = captured[0]
        if not all(gg.printable_np(p["values"]) for ps in (a["node_props"], a["edge_props"]) if ps for p in ps.values()):
            raise HarnessError("unprintable")
        g = gg.c_wgraph(a["node_ids"], a["edge_ids"], a["node_props"], a["edge_props"], it)
        md = c_meta(abstract_meta_obj(a["metadata"], it))
        v = cbool(a["structure_validation"])
    else:  # refused by the wrapper's own guard before any array was built: the graph is irrelevant to the model
        g = gg.c_wgraph(np.empty(0, "uint8"), np.empty((0, 2), "uint8"), {}, {}, it)
        md = c_meta(abstract_meta_obj(gg.make_metadata({"directed": True}), it))
        v = "true"
    if ep in ("nx", "sg"):
        return f"(EApi {K} {g} {md} {v} {cbool(call['ov'])})"
    if not captured:
        raise HarnessError("a writer without a guard of its own did not reach write_arrays")
    return f"(EDicts {K} {g} {md} {v})"


def observe(real, it):
    """ETree / EDir term of the target, or None when it cannot be printed"""
    from harness.storelib import c_otree, dump_tree, tree_printable

    t = dump_tree(real, it)
    if t is None and isinstance(real, Path) and real.is_dir():
        names = sorted(p.name for p in real.iterdir())
        return t, f"(EDir {clist(names, cstr)})"
    if not tree_printable(t):
        return t, None
    return t, f"(ETree {c_otree(t)})"


def run_impl(c):
    from zarr.storage import LocalStore, MemoryStore

    from geff.core_io import read_to_memory
    from harness.c01 import prepare, scratch_dir
    from harness.c06 import foreign, has_geff
    from harness.storelib import c_otree, dump_tree, snapshot, tree_printable

    it = ShortStok()
    root = scratch_dir() / "eh"
    shutil.rmtree(root, ignore_errors=True)
    root.mkdir(parents=True)
    path = root / "h.geff"
    mem = MemoryStore() if c["target"] == "mem" else None
    real = mem if mem is not None else path
    obs = {"steps": []}
    try:
        if c["pre"] == "foreign":
            prepare(real if mem is not None else LocalStore(str(path)), "foreign", c["fmt"])
        pre_tree = dump_tree(real, it)
        ecalls, esteps = [], []
        modelled = tree_printable(pre_tree)
        for call in c["calls"]:
            kind = call.get("skind", "path")
            store = mem if mem is not None else (LocalStore(str(path)) if kind == "obj" else (str(path) if kind == "str" else path))
            before_snap = snapshot(real)
            before_tree = dump_tree(real, it)
            step = {"existed": has_geff(real), "ov": call["ov"], "ep": call["ep"], "beside": bool(foreign(before_tree)["ch"])}
            captured = []
            try:
                with capture_all(captured):
                    do_call(call, store, c["fmt"], root)
                step["res"] = ["ok"]
            except HarnessError:
                raise
            except Exception as e:
                step["res"] = ["err", exn_name(e), str(e)[:100]]
            after_tree, state_term = observe(real, it)
            step["bytes_identical"] = snapshot(real) == before_snap
            step["foreign_kept"] = foreign(after_tree) == foreign(before_tree)
            step["has_geff_after"] = has_geff(real)
            if step["res"][0] == "ok":
                try:
                    back = read_to_memory(real)
                    step["back"] = {"ids": sorted(int(x) for x in back["node_ids"]),
                                    "edges": sorted([int(a), int(b)] for a, b in back["edge_ids"]),
                                    "nprops": sorted(back["node_props"]), "eprops": sorted(back["edge_props"]),
                                    "md_nprops": sorted(back["metadata"].node_props_metadata),
                                    "md_eprops": sorted(back["metadata"].edge_props_metadata)}
                except Exception as e:
                    step["back"] = f"read raised {type(e).__name__}: {e}"[:120]
            obs["steps"].append(step)
            if modelled:
                try:
                    ecalls.append(coq_ecall(call, c["fmt"], captured, it))
                    if state_term is None:
                        raise HarnessError("unprintable state")
                    r = "(Ok tt)" if step["res"][0] == "ok" else f"(Err {step['res'][1]})"
                    esteps.append(f"({r}, {state_term})")
                except HarnessError as e:
                    modelled = False
                    obs["unmodelled"] = str(e)
        if modelled:
            obs["coq"] = f"(IEntryHist {c_otree(pre_tree)} {clist(ecalls)}, OEntry {clist(esteps)})"
    finally:
        shutil.rmtree(root, ignore_errors=True)
    return obs


# ---------------------------------------------------------------------------------------------------------- oracle
def expected_back(call):
    """the graph a successful call must leave, from the call's description alone (None: not checked here)"""
    ep = call["ep"]
    if ep == "ctc":
        k = call["k"]
        return {"ids": list(range(2 * k)), "n_edges": k}
    if ep == "tm":
        k = call["k"]
        ids = [10 * k + 1 + i for i in range(k + 1)]
        if call["dt"] or call["ds"]:
            return None  # FilteredTracks is empty in these documents: C16 territory
        return {"ids": ids, "edges": sorted([ids[i], ids[i + 1]] for i in range(k))}
    if ep in ("sg", "sgb"):
        return {"ids": sorted(call["ids"]), "edges": sorted(call["edges"]), "nprops": ["score", "x", "y"], "eprops": ["w"]}
    if ep in ("nx", "nxb", "rxb", "dicts"):
        return {"ids": sorted(i for i, _ in call["nx_nodes"]), "edges": sorted([a, b] for a, b, _ in call["nx_edges"]),
                "nprops": sorted({k for _, d in call["nx_nodes"] for k in d}), "eprops": sorted({k for _, _, d in call["nx_edges"] for k in d})}
    return None


def oracle(c, o):
    from harness.c06 import slim

    beside = c["pre"] == "foreign"
    seen_inside = False
    for i, (call, st) in enumerate(zip(c["calls"], o["steps"])):
        ep = call["ep"]
        family = "converter" if ep in ("ctc", "tm") else ("graph-writer" if ep in ("nx", "sg") else "plain")
        inside = ep == "ctc" and call["seg"] == "inside"
        store = "object" if call.get("skind") == "obj" else ("seg-inside" if inside else ("beside" if (beside or seen_inside) else "path"))
        # beside: the directory holds (or, with the label volume inside it, is about to hold) members that are not the geff's
        tags = {"step": i, "entry": ep, "family": family, "store": store, "pre": c["pre"], "kind": "ehist",
                "beside": bool(st.get("beside") or inside)}
        if family == "graph-writer" and store == "beside":
            tags["store"] = "mixed"   # the open finding of geff.write (graph-writer-overwrite-path-beside-foreign-members)
        if st["existed"] and not call["ov"]:
            if st["res"][0] == "ok" or st["res"][1] != "FileExistsError":
                return Failure(c, slim(o), f"call {i} ({ep}): a geff exists and overwrite was not requested, but the call {st['res'][:2]}",
                               dict(tags, why="no-refusal"))
            if not st["bytes_identical"]:
                return Failure(c, slim(o), f"call {i} ({ep}): refused call changed stored bytes", dict(tags, why="refusal-mutates"))
        if st["existed"] and call["ov"]:
            if st["res"][0] != "ok":
                return Failure(c, slim(o), f"call {i} ({ep}): overwrite of an existing geff raised {st['res'][1]}: {st['res'][2]}"
                               + ("" if st["has_geff_after"] else " and the old geff is gone"), dict(tags, why="overwrite-raises", exc=st["res"][1]))
            exp = expected_back(call)
            back = st.get("back")
            if exp is not None:
                got = back if not isinstance(back, dict) else {k: (len(back["edges"]) if k == "n_edges" else back[k]) for k in exp}
                if got != exp:
                    return Failure(c, slim(o), f"call {i} ({ep}): after overwrite the store reads as {back}, expected {exp} "
                                   "(something of the previous graph survives or the new one is incomplete)", dict(tags, why="overwrite-differs"))
                if isinstance(back, dict) and "nprops" in exp and (back["md_nprops"] != exp["nprops"] or back["md_eprops"] != exp["eprops"]):
                    return Failure(c, slim(o), f"call {i} ({ep}): metadata of the previous graph survives: {back}", dict(tags, why="overwrite-differs"))
            if not st["foreign_kept"]:
                return Failure(c, slim(o), f"call {i} ({ep}): overwrite changed members or attributes that do not belong to the geff", dict(tags, why="foreign-lost"))
        if inside:
            seen_inside = True   # the label volume now shares the directory
    return None


def nontrivial(c, o):
    return any(s["existed"] for s in o["steps"])


def describe(c, o):
    return (f"ehist:{c['block']}:v{c['fmt']}:{c['pre']}:{c['target']}:" +
            ",".join(call["ep"] + ("+" if call["ov"] else "") + "=" + (s["res"][0] if s["res"][0] == "ok" else s["res"][1])
                     for call, s in zip(c["calls"], o["steps"])))
