"""C19 -- segmentation consistency checks report exactly their documented condition.

Correspondence: the (bool, errors) pairs of the five functions of geff.validate.segmentation
(messages reduced to their kind and the values they name) against Seg.v evaluated in Coq.
Oracle: plain-Python restatement of the property text over exact rationals; it never calls geff
and never lets numpy interpret an index that may be out of range.
"""
from __future__ import annotations

import itertools
import random
import re
from fractions import Fraction

import numpy as np

from harness.common import DTYPE_COQ, Failure, HarnessError, cbool, clist, cnat, copt, cstr, cz, dtype_name, exn_name

PROP = "C19"
UNIT = 1024  # Seg.U: coordinates, scales and axis maxima are multiples of 1/1024

RULE = ("bounded-exhaustive blocks (see exhaustive_blocks) + random label volumes of rank 1..5 (mostly 3 and 4, sizes 0..3 per axis, every "
        "integer dtype with labels at the dtype limits) with coordinate / time-point / label lists drawn inside, on the border, outside "
        "(-1, size, +-2^31, 2^53+-1, 2^63+-1, 2^64-1), dyadic scale vectors incl. 0 and negative, axes lists with max in {None, 0, on the "
        "extent, just inside/outside}, 0..2 time axes at any position, more/fewer axes than dimensions, list/coordinate length mismatches; "
        "NaN / +inf / -inf as coordinate components, scale factors (also scale 0 under an infinite coordinate, an infinite scale on an "
        "axis of size 0), axis maxima and axis minima (the minimum is irrelevant), and as oracle-only time points; "
        "non-trivial = the call reaches its main loop with a non-empty list (or any has_valid_seg_id / axes_match_seg_dims call); "
        "distinct by structural input")
EXHAUSTIVE_BLOCKS = [
    "has_valid_seg_id: 16 dtypes x 8 missing arrays x 4 (stored key, looked-up key) layouts",
    "axes_match_seg_dims: axes in {None, [], 1..5 axes} x segmentation rank 1..5",
    "graph_is_in_seg_bounds: shape (1,2,3) x all axis-max triples over {None,-1,0,0.5,1,1.5,2,3,6} x 3 (quick) / 5 (thorough) scale vectors; "
    "axes lists of length 0..5 or None x scale of right/wrong length on rank 3 and 4",
    "has_seg_ids_at_time_points: all volumes of shape (2,1,2) over labels {0,1} x all (time,label) lists of length<=2 over {-1,0,1,2}x{0,1,2} "
    "x time axis first (no metadata) / last (metadata); all axis-type lists of length 1..4 "
    "over {time,space} and metadata None/without axes; all unequal-length list pairs of length<=2; 5 shapes with an empty axis x 8 time-point lists x 3 label lists x time axis first/last",
    "has_seg_ids_at_coords: shape (2,1,2), distinct labels, all single coordinates over {-1,-0.5,0,0.5,1,1.5,2}^3 x 5 scale vectors "
    "x {right label, wrong label}; all coordinates of 0..5 values over {0,1}",
    "non-finite, graph_is_in_seg_bounds: shapes (1,2,3) and (0,2,3) x all axis-max triples over {0,1,6,nan,inf,-inf} x 7 scale vectors "
    "holding nan / inf / -inf / 0 with inf; axis minimum nan / -inf under every maximum",
    "non-finite, has_seg_ids_at_coords: shape (2,1,2), all single coordinates over {-1,0,0.5,1,nan,inf,-inf}^3 x 7 scale vectors "
    "(None, ones, nan, inf, 0, -inf with 0, dyadic); a non-finite coordinate in second position; non-finite time points (oracle-only)",
]
ASSUMPTIONS = [
    "finite coordinates, scales and axis maxima are exactly representable multiples of 1/1024 (NaN, +inf and -inf are generated and "
    "modelled as tokens with IEEE multiplication and comparisons); "
    "products |c*s| >= 2^53 may round in float arithmetic but are out of range for every volume either way",
    "time points are integers in the model; NaN / infinite time points are oracle-only cases",
    "label volumes are integer arrays; np.take / np.unique / integer indexing are modelled by their meaning (hyperplane, set of values, "
    "element), incl. numpy's negative-index wrap-around which the repaired code must not reach",
    "numpy raises OverflowError instead of IndexError for indices beyond a C long; both are caught by the same handlers and the model "
    "identifies them",
    "axis names in a GeffMetadata are unique (validated by the schema), so axes.index(ax) is the position of ax",
]

INT_DTYPES = ["int8", "int16", "int32", "int64", "uint8", "uint16", "uint32", "uint64"]
SEGID_DTYPES = INT_DTYPES + ["float16", "float32", "float64", "bool", "U3", "S2", "O", "complex64"]
BIG = [2**31 - 1, 2**31, 2**32, 2**53 - 1, 2**53, 2**53 + 1, 2**63 - 1, 2**63, 2**63 + 1, 2**64 - 1, 2**64]
# non-finite numbers travel through cases as these strings (JSON has no NaN); pyval turns them into floats for the call
NONFINITE = ["nan", "inf", "-inf"]


def is_tok(x):
    return isinstance(x, str)


def pyval(x):
    return float(x) if isinstance(x, str) else x


def pyvals(l):
    return [pyval(x) for x in l]


def has_tok(c):
    """Does the case hold a NaN / infinite number anywhere?"""
    def walk(x):
        if isinstance(x, str):
            return x in NONFINITE
        if isinstance(x, (list, tuple)):
            return any(walk(y) for y in x)
        return False
    return any(walk(c.get(k)) for k in ("scale", "coords", "tps")) or (
        isinstance(c.get("axes"), list) and any(walk(a[1:]) for a in c["axes"]))


# ---------------------------------------------------------------- generation
def vol_case(shape, data, dtype="int64"):
    return {"shape": list(shape), "data": list(data), "dtype": dtype}


def npix(shape):
    n = 1
    for d in shape:
        n *= d
    return n


def gen_segid():
    missings = [None, [], [False, False, False], [True, False, False], [False, False, True], [False, True, False],
                [True, True, True], [False]]
    for dt in SEGID_DTYPES:
        for miss in missings:
            yield {"kind": "segid", "props": [["seg_id", dt, miss]], "key": None, "n": 3}
            yield {"kind": "segid", "props": [["label", dt, miss]], "key": None, "n": 3}
            yield {"kind": "segid", "props": [["label", dt, miss]], "key": "label", "n": 3}
            yield {"kind": "segid", "props": [["seg_id", "float32", [True, False, False]], ["label", dt, miss]], "key": "label", "n": 3}
    yield {"kind": "segid", "props": [], "key": None, "n": 0}
    yield {"kind": "segid", "props": [["seg_id", "int64", []]], "key": None, "n": 0}
    yield {"kind": "segid", "props": [["seg_id", "float64", None]], "key": "seg_id", "n": 0}


def mk_axes(types, maxes=None):
    maxes = maxes if maxes is not None else [1] * len(types)
    return [[t, m] for t, m in zip(types, maxes)]


def gen_axes_match():
    for rank in range(1, 6):
        shape = [2, 1, 2, 1, 2][:rank]
        yield {"kind": "axes", "axes": None, "shape": shape, "as_list": False}
        for n in range(0, 6):
            types = ["time", "space", "space", None, "channel"][:n]
            yield {"kind": "axes", "axes": mk_axes(types, [None if i % 2 else 0 for i in range(n)]), "shape": shape, "as_list": rank == 3}


def gen_bounds(rng, tier):
    M = [None, -1, 0, 0.5, 1, 1.5, 2, 3, 6]
    scales = [None, [1, 1, 1], [2.0, 1.0, 0.5]] + ([[0.5, 0.5, 2.0], [1.0, 1.5, 1.0]] if tier == "thorough" else [])
    for maxes in itertools.product(M, repeat=3):
        for sc in scales:
            yield {"kind": "bounds", "axes": mk_axes(["time", "space", "space"], list(maxes)), "shape": [1, 2, 3], "scale": sc}
    # number of axes / length of the scale vector against the rank
    for shape in ([2, 3, 2], [2, 1, 3, 2]):
        rank = len(shape)
        for n in [None, 0, 1, 2, 3, 4, 5]:
            for sl in [None, rank, rank - 1, rank + 1, 0]:
                for mx in (0, 1, None, 7):
                    axes = None if n is None else mk_axes([None] * n, [mx] * n)
                    sc = None if sl is None else [1.0] * sl
                    yield {"kind": "bounds", "axes": axes, "shape": shape, "scale": sc}
    # NaN / +inf / -inf as axis maximum, scale factor (inf * 0 = NaN on the empty axis) and axis minimum
    NF = [0, 1, 6] + NONFINITE
    nf_scales = [None, [1, 1, 1], ["nan", 1, 1], [1, "inf", 1], [1, 1, "-inf"], ["inf", "inf", "inf"], [0, "inf", 2.0]]
    for shape in ([1, 2, 3], [0, 2, 3]):
        for maxes in itertools.product(NF, repeat=3):
            for sc in nf_scales:
                yield {"kind": "bounds", "axes": mk_axes(["time", "space", "space"], list(maxes)), "shape": shape, "scale": sc}
    for m in [0, 0.5, 1, 6] + NONFINITE:
        for mn in ("nan", "-inf"):
            for sc in (None, [1, 1, 1], [1, "nan", 1]):
                yield {"kind": "bounds", "axes": [["time", 0, mn], ["space", m, mn], [None, 1]], "shape": [1, 2, 3], "scale": sc}
    for _ in range(1500 if tier == "quick" else 12000):
        rank = rng.choice([3, 3, 3, 4, 4, 4, 1, 2, 5])
        shape = [rng.choice([1, 2, 3, 3, 0, 5]) for _ in range(rank)]
        r = rng.random()
        if r < 0.2:
            sc = None
        else:
            sl = rank if r < 0.9 else rng.choice([rank - 1, rank + 1])
            sc = [rng.choice([1, 1.0, 2.0, 0.5, 0.25, 1.5, 3, 0, 0.0, -1.0, -0.5]) if rng.random() < 0.8 else rng.choice([1, 2.0])
                  for _ in range(max(0, sl))]
            if rng.random() < 0.12:
                for _ in range(rng.choice([1, 1, 2])):
                    if sc:
                        sc[rng.randrange(len(sc))] = rng.choice(NONFINITE)
        n = rank if rng.random() < 0.85 else rng.choice([0, rank - 1, rank + 1, rank + 2])
        n = max(0, n)
        maxes = []
        for i in range(n):
            si = sc[i] if sc is not None and i < len(sc) else 1
            ext = Fraction(shape[i] if i < rank else 1) * Fraction(1 if is_tok(si) else si)
            q = rng.random()
            if rng.random() < 0.07:
                maxes.append(rng.choice(NONFINITE))
                continue
            if q < 0.08:
                m = None
            elif q < 0.2:
                m = 0
            elif q < 0.4:
                m = ext  # exactly on the extent: outside
            elif q < 0.6:
                m = ext - Fraction(1, rng.choice([1, 2, 4, 1024]))  # just inside
            elif q < 0.7:
                m = ext + Fraction(1, rng.choice([1, 2, 1024]))
            elif q < 0.8:
                m = rng.choice([-1, -0.5, -3])
            elif q < 0.85:
                m = rng.choice(BIG + [-b for b in BIG])
            else:
                m = Fraction(rng.randint(-2, 12), rng.choice([1, 2, 4]))
            if m is not None:
                m = int(m) if Fraction(m).denominator == 1 and rng.random() < 0.5 else (float(m) if abs(m) < 2**52 else int(m))
            maxes.append(m)
        axes = None if rng.random() < 0.03 else mk_axes([rng.choice(["time", "space", None]) for _ in range(n)], maxes)
        if axes is not None and rng.random() < 0.08:
            for a in axes:
                if a[1] is not None and rng.random() < 0.5:
                    a.append(rng.choice(["nan", "-inf"]))  # explicit axis minimum (not examined by the function)
        yield {"kind": "bounds", "axes": axes, "shape": shape, "scale": sc}


ALL_TYPE_LISTS = [list(ts) for n in range(1, 5) for ts in itertools.product(["time", "space"], repeat=n)]


def gen_time_points(rng, tier):
    T, L = [-1, 0, 1, 2], [0, 1, 2]
    vols = list(itertools.product([0, 1], repeat=4))
    pairs = [(t, l) for t in T for l in L]
    for data in vols:
        lists = [[]] + [[p] for p in pairs]
        lists += [[p, q] for p in pairs for q in pairs]
        for lst in lists:
            tps, ids = [p[0] for p in lst], [p[1] for p in lst]
            # time axis first (no metadata) on shape (2,1,2); time axis last (metadata) on the same data
            yield {"kind": "tp", **vol_case([2, 1, 2], data), "tps": tps, "ids": ids, "md": "none"}
            yield {"kind": "tp", **vol_case([2, 1, 2], data), "tps": tps, "ids": ids, "md": mk_axes(["space", "space", "time"])}
    # unequal lengths (zip is not strict)
    for data in ([0, 1, 1, 0], [1, 2, 3, 4]):
        for tps in itertools.chain(itertools.product(T, repeat=2), itertools.product(T, repeat=1), [()]):
            for ids in itertools.chain(itertools.product(L, repeat=2), itertools.product(L, repeat=1), [()]):
                if len(tps) != len(ids):
                    yield {"kind": "tp", **vol_case([2, 1, 2], data), "tps": list(tps), "ids": list(ids), "md": "none"}
    # volumes with an empty axis: np.take does not range-check there, the explicit test has to
    for shape in ([2, 0, 2], [0, 2, 2], [2, 2, 0], [2, 2, 0, 2], [1, 0, 1, 1]):
        for md in ("none", mk_axes(["space"] * (len(shape) - 1) + ["time"])):
            for tps in ([], [0], [1], [2], [3], [-1], [1, 2], [2, 0]):
                for ids in ([], [0], [0, 0]):
                    yield {"kind": "tp", **vol_case(shape, []), "tps": tps, "ids": ids, "md": md}
    # NaN / infinite time points (outside the model: oracle-only) -- not a frame of the volume
    for tok in NONFINITE:
        for md in ("none", mk_axes(["space", "space", "time"])):
            yield {"kind": "tp", **vol_case([2, 1, 2], [1, 2, 3, 4]), "tps": [tok], "ids": [1], "md": md}
            yield {"kind": "tp", **vol_case([2, 1, 2], [1, 2, 3, 4]), "tps": [0, tok], "ids": [1, 1], "md": md}
            yield {"kind": "tp", **vol_case([2, 1, 2], [1, 2, 3, 4]), "tps": [tok, 5], "ids": [], "md": md}
    # where the time axis is looked up
    for md in ["none", "noaxes", []] + [mk_axes(ts) for ts in ALL_TYPE_LISTS] + [mk_axes(["space", None, "time"]), mk_axes(["channel", "time", None])]:
        for shape, data in (([2, 2, 3], [1, 2, 3, 4, 5, 6, 7, 8, 9, 10, 11, 12]), ([2, 3, 2, 2], list(range(1, 25)))):
            for tps, ids in (([0], [1]), ([1], [12]), ([2], [3]), ([1, 0], [4, 2]), ([], []), ([1, 2], [9, 9])):
                yield {"kind": "tp", **vol_case(shape, data), "tps": tps, "ids": ids, "md": md}
    # random
    for _ in range(2500 if tier == "quick" else 20000):
        v, rank = rand_volume(rng)
        shape = v["shape"]
        mdk = rng.random()
        if mdk < 0.25:
            md = "none"
        elif mdk < 0.3:
            md = rng.choice(["noaxes", []])
        else:
            n = rank if rng.random() < 0.8 else max(1, rank + rng.choice([-1, 1, 2]))
            types = [rng.choice(["space", "space", None, "channel"]) for _ in range(n)]
            for _ in range(rng.choice([0, 1, 1, 1, 1, 2])):
                types[rng.randrange(n)] = "time"
            md = mk_axes(types)
        k = time_axis_of(md)
        size = shape[k] if k < rank else 1
        present = sorted(set(v["data"])) or [0]
        lst = []
        for _ in range(rng.choice([0, 1, 1, 2, 3, 4, 6])):
            q = rng.random()
            if q < 0.7:
                t = rng.randrange(size) if size else 0
            elif q < 0.8:
                t = size
            elif q < 0.9:
                t = rng.choice([-1, -2, -size, -size - 1])
            elif q < 0.95:
                t = rng.choice(BIG)
            else:
                t = -rng.choice(BIG)
            if rng.random() < 0.6 and 0 <= t < size and k < rank:
                inside = labels_at(shape, v["data"], k, t)
                l = rng.choice(inside) if inside else 0
            else:
                l = rng.choice(present + [0, 1, 7, -1, 2**63, 2**64 - 1])
            lst.append((t, l))
        tps, ids = [p[0] for p in lst], [p[1] for p in lst]
        if rng.random() < 0.1:
            tps = tps + [rng.choice([0, size, -1])] if rng.random() < 0.5 else tps
            ids = ids + [rng.choice(present)] if rng.random() < 0.5 else ids[:-1]
        c = {"kind": "tp", **v, "tps": tps, "ids": ids, "md": md}
        if rng.random() < 0.15 and listable(v):
            c["as_list"] = True
        if rng.random() < 0.15 and all(-2**63 <= x < 2**63 for x in tps + ids):
            c["np_lists"] = True
        yield c


def rand_volume(rng):
    rank = rng.choice([3, 3, 3, 4, 4, 4, 1, 2, 5])
    shape = [rng.choice([1, 2, 2, 3, 3] if rank <= 4 else [1, 2]) for _ in range(rank)]
    if rng.random() < 0.05:
        shape[rng.randrange(rank)] = 0
    dt = rng.choice(INT_DTYPES + ["int64", "uint16"])
    info = np.iinfo(dt)
    pool = [0, 0, 1, 2, 3, 4]
    if rng.random() < 0.2:
        pool = pool + [info.max, info.min, info.max - 1]
    if rng.random() < 0.3:
        data = rng.sample(range(1, npix(shape) + 1), npix(shape)) if npix(shape) < info.max else [rng.choice(pool) for _ in range(npix(shape))]
    else:
        data = [rng.choice(pool) for _ in range(npix(shape))]
    return vol_case(shape, data, dt), rank


def listable(v):
    """The volume can be handed over as nested lists (ArrayLike) and numpy rebuilds the same integer array."""
    return npix(v["shape"]) > 0 and all(-2**63 <= x < 2**63 for x in v["data"])


def gen_coords(rng, tier):
    C = [-1, -0.5, 0, 0.5, 1, 1.5, 2]
    scales = [None, [1, 1, 1], [2.0, 2.0, 2.0], [0.5, 0.5, 0.5], [2.0, 1.0, 0.5]]
    shape, data = [2, 1, 2], [1, 2, 3, 4]
    for coord in itertools.product(C, repeat=3):
        for sc in scales:
            px = pixel_of(shape, coord, sc if sc is not None else [1, 1, 1])
            right = data[px[0] * 2 + px[2]] if px is not None else 0
            for l in (right, 9):
                yield {"kind": "coords", **vol_case(shape, data), "coords": [list(coord)], "ids": [l], "scale": sc}
    # NaN / +inf / -inf coordinate components and scale factors (inf * 0 and 0 * inf are NaN)
    NFC = [-1, 0, 0.5, 1] + NONFINITE
    nf_scales = [None, [1, 1, 1], ["nan", 1, 1], [1, "inf", 1], [0, 1, 1], ["-inf", 0.5, 0], [2.0, 1.0, 0.5]]
    for coord in itertools.product(NFC, repeat=3):
        for sc in nf_scales:
            px = pixel_of(shape, coord, sc if sc is not None else [1, 1, 1])
            for l in ((data[px[0] * 2 + px[2]], 9) if px is not None else (1,)):
                yield {"kind": "coords", **vol_case(shape, data), "coords": [list(coord)], "ids": [l], "scale": sc}
    for tok in NONFINITE:
        for pos in range(3):
            bad = [0, 0, 0]
            bad[pos] = tok
            for first, l in (([0, 0, 0], 1), ([1, 0, 1], 4), ([1, 0, 1], 9), ([2, 0, 0], 1)):
                yield {"kind": "coords", **vol_case(shape, data), "coords": [first, bad], "ids": [l, 1], "scale": None}
                yield {"kind": "coords", **vol_case(shape, data), "coords": [first, bad, [0, 0]], "ids": [l, 1, 1], "scale": [1, 1, 1]}
    # coordinates with the wrong number of values
    for n in range(0, 6):
        for coord in itertools.product([0, 1], repeat=n):
            yield {"kind": "coords", **vol_case(shape, data), "coords": [list(coord)], "ids": [1], "scale": None}
            if n <= 4:
                yield {"kind": "coords", **vol_case([2, 1, 2, 1], data), "coords": [[0, 0, 0, 0], list(coord)], "ids": [1, 1], "scale": [1, 1, 1, 1]}
    # length of the lists / of the scale vector
    for nc in range(0, 3):
        for ni in range(0, 3):
            for sc in (None, [1, 1, 1], [1, 1], [1, 1, 1, 1], []):
                yield {"kind": "coords", **vol_case(shape, data), "coords": [[0, 0, 0], [1, 0, 1]][:nc], "ids": [1, 4][:ni], "scale": sc}
    # random
    for _ in range(3000 if tier == "quick" else 25000):
        v, rank = rand_volume(rng)
        shape = v["shape"]
        r = rng.random()
        if r < 0.25:
            sc = None
        else:
            sl = rank if r < 0.95 else max(0, rank + rng.choice([-1, 1]))
            sc = [rng.choice([1, 1.0, 1.0, 2.0, 0.5, 0.25, 1.5, 3]) if rng.random() < 0.9 else rng.choice([0, 0.0, -1.0, -0.5, -1])
                  for _ in range(sl)]
            if sc and rng.random() < 0.06:
                sc[rng.randrange(len(sc))] = rng.choice(NONFINITE)
        eff = sc if sc is not None and len(sc) == rank else [1] * rank
        coords, ids = [], []
        for _ in range(rng.choice([0, 1, 1, 2, 3, 5])):
            coord = []
            mode = rng.random()
            for i in range(rank):
                s = Fraction(1 if is_tok(eff[i]) else eff[i])
                n = shape[i]
                q = rng.random()
                if mode < 0.6 or q < 0.7:  # a pixel inside, taken back through the scale
                    p = Fraction(rng.randrange(n) if n else 0) + rng.choice([0, 0, Fraction(1, 2), Fraction(1023, 1024), Fraction(1, 4)])
                    c = p / s if s > 0 else Fraction(rng.choice([0, 1, -1]))
                    if (c * UNIT).denominator != 1:
                        c = Fraction(int(c * 4), 4)
                elif q < 0.8:
                    c = Fraction(n) / s if s > 0 else Fraction(n)  # first value outside
                    if (c * UNIT).denominator != 1:
                        c = Fraction(int(c) + 1)
                elif q < 0.9:
                    c = Fraction(rng.choice([-1, -2, -n, -n - 1]), rng.choice([1, 1, 2, 1024]))
                elif q < 0.95:
                    c = Fraction(rng.choice(BIG))
                else:
                    c = Fraction(-rng.choice(BIG))
                coord.append(int(c) if c.denominator == 1 and (rng.random() < 0.6 or abs(c) >= 2**52) else float(c))
            if coord and rng.random() < 0.08:
                coord[rng.randrange(len(coord))] = rng.choice(NONFINITE)
            if rng.random() < 0.04:
                coord = coord[:-1] if rng.random() < 0.5 else coord + [0]
            px = pixel_of(shape, coord, eff) if len(coord) == rank else None
            if px is not None and rng.random() < 0.75:
                l = v["data"][flat(shape, px)]
            else:
                l = rng.choice([0, 1, 2, 7, -1, 2**64 - 1])
            coords.append(coord)
            ids.append(l)
        if rng.random() < 0.05:
            ids = ids + [0] if rng.random() < 0.5 else ids[:-1]
        c = {"kind": "coords", **v, "coords": coords, "ids": ids, "scale": sc}
        if rng.random() < 0.15 and listable(v):
            c["as_list"] = True
        if rng.random() < 0.1:
            c["tuples"] = True
        yield c


def generate(rng: random.Random, tier: str):
    yield from gen_segid()
    yield from gen_axes_match()
    yield from gen_bounds(rng, tier)
    yield from gen_time_points(rng, tier)
    yield from gen_coords(rng, tier)


# ---------------------------------------------------------------- small exact helpers (shared by generators and oracle)
def flat(shape, idx):
    off = 0
    for n, i in zip(shape, idx):
        off = off * n + i
    return off


def labels_at(shape, data, k, t):
    """Labels of the pixels whose k-th index is t (k < rank, 0 <= t < shape[k])."""
    return [data[flat(shape, idx)] for idx in itertools.product(*[range(n) for n in shape]) if idx[k] == t]


def pixel_of(shape, coord, scale):
    """The pixel holding the scaled coordinate, or None when it lies outside the volume.
    Pixel i of an axis covers [i, i+1); arithmetic over exact rationals.  A NaN or infinite coordinate is
    not a position inside the volume, and a NaN or infinite scale factor maps no coordinate to one."""
    if len(coord) != len(shape) or len(scale) != len(shape):
        return None
    px = []
    for n, c, s in zip(shape, coord, scale):
        if is_tok(c) or is_tok(s):
            return None
        x = Fraction(c) * Fraction(s)
        if x < 0 or x >= n:
            return None
        px.append(x.numerator // x.denominator)
    return px


def scaled_extent(n, s):
    """size n (an integer >= 0) times the scale factor s: an exact rational, or "nan" / "inf" / "-inf"
    (a NaN factor gives NaN, an infinite factor gives that infinity, except that 0 times infinity is NaN)"""
    if s == "nan":
        return "nan"
    if s in ("inf", "-inf"):
        return "nan" if n == 0 else s
    return n * Fraction(s)


def strictly_below(m, e):
    """m < e for rationals extended by "nan" / "inf" / "-inf": nothing is below or above NaN"""
    if "nan" in (m, e):
        return False
    if m == "inf" or e == "-inf":
        return False
    if m == "-inf" or e == "inf":
        return True
    return Fraction(m) < Fraction(e)


def time_axis_of(md):
    """Documented rule: the axis of type 'time' if the metadata names exactly one, else axis 0."""
    if md in ("none", "noaxes") or not md:
        return 0
    pos = [i for i, a in enumerate(md) if a[0] == "time"]
    return pos[0] if len(pos) == 1 else 0


# ---------------------------------------------------------------- implementation
def build_axes(axes):
    from geff_spec import Axis

    out = []
    for i, a in enumerate(axes):
        t, m = a[0], pyval(a[1])
        if m is None:
            out.append(Axis(name=f"a{i}", type=t))
        else:
            # the minimum is not examined by the checks; min(0, nan) is 0, which the schema accepts under a NaN max
            out.append(Axis(name=f"a{i}", type=t, min=pyval(a[2]) if len(a) > 2 else min(0, m), max=m))
    return out


def build_metadata(axes):
    from geff_spec import GeffMetadata

    return GeffMetadata(directed=True, node_props_metadata={}, edge_props_metadata={},
                        axes=None if axes is None else build_axes(axes))


def build_geff(axes, node_props=None, n=0):
    return {"metadata": build_metadata(axes), "node_ids": np.arange(n, dtype="uint64"),
            "edge_ids": np.empty((0, 2), dtype="uint64"), "node_props": node_props or {}, "edge_props": {}}


def build_seg(c):
    shape = c["shape"]
    seg = np.array(c.get("data", [0] * npix(shape)), dtype=c.get("dtype", "int64")).reshape(shape)
    return seg.tolist() if c.get("as_list") else seg


def segid_values(dt, n):
    if dt == "O":
        a = np.empty(n, dtype=object)
        a[:] = list(range(n))
        return a
    return np.arange(n).astype(dt)


MSG_PATTERNS = [
    (re.compile(r"^Missing seg_id property"), "MMissingProp"),
    (re.compile(r"array has non-integer dtype"), "MNonInteger"),
    (re.compile(r"^Mismatch in number of node IDs and seg_ids"), "MMissingEntries"),
    (re.compile(r"^No axes metadata found"), "MNoAxes"),
    (re.compile(r"^Length of scale factor list"), "MScaleLen"),
    (re.compile(r"^Number of axes in the geff metadata"), "MAxesDims"),
    (re.compile(r"^No axis 'max' value found"), "MNoMax"),
    (re.compile(r"^Graph axis (\d+) is out of bounds"), "MAxisOob"),
    (re.compile(r"^Time point (-?\d+) is out of bounds"), "MTimeOob"),
    (re.compile(r"^Time point (nan|inf|-inf) is out of bounds"), "MTimeOobNonFinite"),
    (re.compile(r"^Missing seg_id (-?\d+) at time (-?\d+)$"), "MMissingLabel"),
    (re.compile(r"^Coordinate list must have the same length"), "MCoordLen"),
    (re.compile(r"^Coords (.*) do not have one value for each", re.S), "MCoordArity"),
    (re.compile(r"^Coords (.*) are out of bounds for segmentation", re.S), "MCoordOob"),
]


def parse_message(s, coords_passed):
    for rx, kind in MSG_PATTERNS:
        m = rx.search(s)
        if not m:
            continue
        if kind == "MAxisOob":
            return [kind, int(m.group(1))]
        if kind == "MTimeOob":
            return [kind, int(m.group(1))]
        if kind == "MMissingLabel":
            return [kind, int(m.group(1)), int(m.group(2))]
        if kind in ("MCoordArity", "MCoordOob"):
            for k, co in enumerate(coords_passed or []):
                if str(co) == m.group(1):
                    return [kind, k]
            return ["MUnknown"]
        return [kind]
    return ["MUnknown"]


def run_impl(c):
    from geff.validate import segmentation as S

    k = c["kind"]
    coords_passed = None
    try:
        if k == "segid":
            props = {}
            for name, dt, miss in c["props"]:
                props[name] = {"values": segid_values(dt, c["n"]), "missing": None if miss is None else np.array(miss, dtype=bool)}
            g = build_geff(mk_axes(["time", "space"]), props, c["n"])
            r = S.has_valid_seg_id(g) if c["key"] is None else S.has_valid_seg_id(g, seg_id=c["key"])
        elif k == "axes":
            r = S.axes_match_seg_dims(build_geff(c["axes"]), build_seg(c))
        elif k == "bounds":
            g = build_geff(c["axes"])
            r = S.graph_is_in_seg_bounds(g, build_seg(c)) if c["scale"] is None else S.graph_is_in_seg_bounds(g, build_seg(c), scale=tuple(pyvals(c["scale"])))
        elif k == "tp":
            tps, ids = pyvals(c["tps"]), c["ids"]
            if c.get("np_lists"):
                tps, ids = np.array(tps, dtype="int64"), np.array(ids, dtype="int64")
            if c["md"] == "none":
                r = S.has_seg_ids_at_time_points(build_seg(c), tps, ids)
            else:
                md = build_metadata(None if c["md"] == "noaxes" else c["md"])
                r = S.has_seg_ids_at_time_points(build_seg(c), tps, ids, metadata=md)
        elif k == "coords":
            coords_passed = [tuple(pyvals(co)) for co in c["coords"]] if c.get("tuples") else [pyvals(co) for co in c["coords"]]
            r = S.has_seg_ids_at_coords(build_seg(c), coords_passed, c["ids"], scale=None if c["scale"] is None else pyvals(c["scale"]))
        else:
            raise HarnessError(f"unknown case kind {k}")
    except HarnessError:
        raise
    except Exception as ex:  # the observation: which exception class escaped
        return ["err", exn_name(ex), type(ex).__name__]
    if not (isinstance(r, tuple) and len(r) == 2 and isinstance(r[0], (bool, np.bool_)) and isinstance(r[1], list)
            and all(isinstance(m, str) for m in r[1])):
        return ["shape", repr(r)[:200]]
    return ["ok", bool(r[0]), [parse_message(m, coords_passed) for m in r[1]], [m[:160] for m in r[1][:3]]]


# ---------------------------------------------------------------- Coq terms
def enc(x) -> int:
    """numerator over Seg.U (exact, or the case is outside the encoding)"""
    f = Fraction(x) * UNIT
    if f.denominator != 1:
        raise HarnessError(f"{x!r} is not a multiple of 1/{UNIT}")
    return int(f)


XTOK = {"nan": "XNaN", "inf": "XPInf", "-inf": "XNInf"}


def cq(x):
    """Seg.xnum: a finite multiple of 1/1024, or one of the IEEE tokens"""
    if is_tok(x):
        return XTOK[x]
    return f"(XFin {cz(enc(x))})"


def caxis(a):
    return f"{{| ax_time := {cbool(a[0] == 'time')}; ax_max := {copt(a[1], cq)} |}}"


def caxes(axes):
    return copt(axes, lambda l: clist(l, caxis))


def cmsg(m):
    k = m[0]
    if k in ("MAxisOob", "MCoordArity", "MCoordOob"):
        return f"({k} {cnat(m[1])})"
    if k == "MTimeOob":
        return f"({k} {cz(m[1])})"
    if k == "MMissingLabel":
        return f"({k} {cz(m[1])} {cz(m[2])})"
    return k


def cobs(o):
    if o[0] == "err":
        return f"ORes (Err {o[1]})"
    return f"ORes (Ok ({cbool(o[1])}, {clist(o[2], cmsg)}))"


def coq_case(c, o):
    if o[0] == "shape":
        return None  # not a (bool, list[str]) pair: the oracle reports it
    k = c["kind"]
    if k == "segid":
        if any(dtype_name(np.dtype(dt)) not in DTYPE_COQ for _, dt, _ in c["props"]):
            return None  # complex: outside Dtype.v, oracle-only
        props = clist(c["props"], lambda p: f"({cstr(p[0])}, ({DTYPE_COQ[dtype_name(np.dtype(p[1]))]}, {copt(p[2], lambda m: clist(m, cbool))}))")
        inp = f"ISegId {props} {cstr(c['key'] or 'seg_id')}"
    elif k == "axes":
        inp = f"IAxesMatch {caxes(c['axes'])} {clist(c['shape'], cnat)}"
    elif k == "bounds":
        inp = f"IBounds {caxes(c['axes'])} {clist(c['shape'], cnat)} {copt(c['scale'], lambda s: clist(s, cq))}"
    elif k == "tp":
        if any(is_tok(t) for t in c["tps"]):
            return None  # NaN / infinite time point: time points are integers in Seg.v, oracle-only
        md = "None" if c["md"] == "none" else ("(Some None)" if c["md"] == "noaxes" else f"(Some {caxes(c['md'])})")
        inp = f"ITimePoints {clist(c['shape'], cnat)} {clist(c['data'], cz)} {clist(c['tps'], cz)} {clist(c['ids'], cz)} {md}"
    else:
        inp = (f"ICoords {clist(c['shape'], cnat)} {clist(c['data'], cz)} {clist(c['coords'], lambda co: clist(co, cq))} "
               f"{clist(c['ids'], cz)} {copt(c['scale'], lambda s: clist(s, cq))}")
    return f"({inp}, {cobs(o)})"


# ---------------------------------------------------------------- oracle (from the property text)
def expected(c):
    """(documented condition holds, an out-of-range coordinate / time point is present)"""
    k = c["kind"]
    if k == "segid":
        key = c["key"] or "seg_id"
        found = [p for p in c["props"] if p[0] == key]
        if not found:
            return False, False
        _, dt, miss = found[0]
        return np.dtype(dt).kind in "iu" and not (miss is not None and any(miss)), False
    shape = c["shape"]
    rank = len(shape)
    if k == "axes":
        return bool(c["axes"]) and len(c["axes"]) == rank, False
    if k == "bounds":
        sc = c["scale"] if c["scale"] is not None else [1] * rank
        if not c["axes"] or len(c["axes"]) != rank or len(sc) != rank:
            return False, False
        # every axis has a maximum and it lies below size * scale; a NaN maximum, a NaN scale factor or 0 * inf is below nothing
        return all(a[1] is not None and strictly_below(a[1], scaled_extent(n, s)) for a, n, s in zip(c["axes"], shape, sc)), False
    if k == "tp":
        ax = time_axis_of(c["md"])
        inrange = [ax < rank and not is_tok(t) and 0 <= t < shape[ax] for t in c["tps"]]  # NaN / inf is no frame
        if not all(inrange):
            return False, True
        return all(l in labels_at(shape, c["data"], ax, t) for t, l in zip(c["tps"], c["ids"])), False
    if k == "coords":
        sc = c["scale"] if c["scale"] is not None else [1] * rank
        if len(c["coords"]) != len(c["ids"]) or len(sc) != rank:
            return False, False
        pxs = [pixel_of(shape, co, sc) for co in c["coords"]]
        if any(p is None for p in pxs):
            return False, True
        return all(c["data"][flat(shape, p)] == l for p, l in zip(pxs, c["ids"])), False
    raise HarnessError(k)


def oracle(c, o):
    k = c["kind"]
    if o[0] == "err":
        return Failure(c, o, f"{k}: raised {o[2]} instead of returning (bool, messages)", {"fn": k, "why": "raises"})
    if o[0] == "shape":
        return Failure(c, o, f"{k}: result is not a (bool, list[str]) pair: {o[1]}", {"fn": k, "why": "result-shape"})
    want, oob = expected(c)
    if o[1] != want:
        why = "accepts-invalid" if o[1] else "rejects-valid"
        return Failure(c, o, f"{k}: returned {o[1]} but the documented condition is {want} (messages {o[3]})", {"fn": k, "why": why})
    if oob and not o[2]:
        return Failure(c, o, f"{k}: out-of-range input gives False without an explanatory message", {"fn": k, "why": "no-message"})
    return None


# ---------------------------------------------------------------- evidence helpers
def nontrivial(c, o):
    k = c["kind"]
    if k in ("segid", "axes"):
        return True
    if k == "bounds":
        return bool(c["axes"])
    if k == "tp":
        return bool(c["tps"])
    return bool(c["coords"]) and len(c["coords"]) == len(c["ids"])


def describe(c, o):
    k = c["kind"]
    if o[0] != "ok":
        return f"{k}:{o[0]}:{o[1]}"
    first = o[2][0][0] if o[2] else "-"
    extra = ""
    if k in ("tp", "coords", "bounds", "axes"):
        extra = f":rank={len(c['shape'])}"
    if k == "tp":
        extra += f":taxis={time_axis_of(c['md'])}:n={len(c['tps'])}"
    if k == "coords":
        extra += f":n={len(c['coords'])}:scale={'y' if c['scale'] is not None else 'n'}"
    if has_tok(c):
        extra += ":nonfinite"
    return f"{k}{extra}:{o[1]}:{first}"


def _still_fails(c):
    try:
        return oracle(c, run_impl(c)) is not None
    except Exception:
        return False


def shrink(c):
    """Greedy: drop list entries / axes while the oracle still fails."""
    c = dict(c)
    changed = True
    while changed:
        changed = False
        if c["kind"] == "tp":
            for i in range(len(c["tps"])):
                d = dict(c, tps=c["tps"][:i] + c["tps"][i + 1:], ids=c["ids"][:i] + c["ids"][i + 1:])
                if _still_fails(d):
                    c, changed = d, True
                    break
        elif c["kind"] == "coords":
            for i in range(len(c["coords"])):
                d = dict(c, coords=c["coords"][:i] + c["coords"][i + 1:], ids=c["ids"][:i] + c["ids"][i + 1:])
                if _still_fails(d):
                    c, changed = d, True
                    break
        elif c["kind"] == "segid" and len(c["props"]) > 1:
            for i in range(len(c["props"])):
                d = dict(c, props=c["props"][:i] + c["props"][i + 1:])
                if _still_fails(d):
                    c, changed = d, True
                    break
    return c


def load_case(d):
    return d


def search(rng, budget):
    yield from generate(rng, "thorough")
