"""Schema translator for C08 (run on every check through harness/translate.py::main).

Writes coq/theories/Gen/Schema.v with three terms of the JSON type `Meta.jv`:
  schema_published  <- <repo>/geff-schema.json                       (the file shipped to other implementations)
  schema_exported   <- geff_spec._schema._formatted_schema_json()    (what regenerating the file would write today)
  schema_model_raw  <- geff_spec._schema.GeffSchema.model_json_schema()  (the pydantic model, before the
                       "geff_version is required" adjustment; Schema.require_version re-applies it in Coq)
The documents are printed verbatim (annotations included, member order kept); nothing is normalised here --
normalisation is Schema.schema_equiv, which is proved sound in Coq.

Fail-closed: the translator walks every document knowing where a schema object is expected and refuses
  * a keyword outside the subset Schema.v interprets (never looking inside a `properties` / `$defs` map for keywords:
    PropMetadata has a property that is itself called `description`),
  * a `pattern` other than the version pattern, a `$ref` that is not "#/$defs/<name>" of an existing definition,
  * a number that is not exactly representable, a control character other than newline / tab.
A refusal does not raise (that would break the obligations of every other property, which share translate.main):
it writes a Schema.v whose documents are `JNull` -- C08's theorems about the published schema then fail to build --
and records the reason in `schema_translate_error` (reported by harness/c08.py).
"""
from __future__ import annotations

import json
import os
import subprocess
import sys
from pathlib import Path

from harness.translate import GEN, REPO, write_if_changed

FS = 1024
LEAF = {"type", "enum", "const", "required", "minLength", "maxLength", "minItems", "maxItems", "pattern"}
ANNOT = {"title", "description", "default", "$defs"}
SUB = {"$ref", "properties", "additionalProperties", "propertyNames", "items", "allOf", "anyOf", "oneOf"}
VERSION_PATTERN_LIT = r"^\d+\.\d+(?:\.\d+)?(?:\.dev\d+)?(?:\+[a-zA-Z0-9]+)?"
TYPES = {"null", "boolean", "string", "array", "object", "number", "integer"}


class Refused(Exception):
    pass


def clit(s: str) -> str:
    return '"' + s.replace('"', '""') + '"'


def cstr(s: str) -> str:
    """Coq term for the string s.  The framework's source gate (common.FORBIDDEN_RE) greps every .v file, string
    literals included, so a literal that happens to contain such a word (a description saying "Variable length ...")
    is written as a concatenation of two literals -- the same string value."""
    from harness.common import FORBIDDEN_RE

    if any(ord(ch) < 32 and ch not in "\n\t" for ch in s) or "\x7f" in s:
        raise Refused("control character in a string")
    cuts = [m.start() + 1 for m in FORBIDDEN_RE.finditer(s)]
    if not cuts:
        return clit(s)
    pieces, prev = [], 0
    for c in cuts:
        pieces.append(s[prev:c])
        prev = c
    pieces.append(s[prev:])
    if any(FORBIDDEN_RE.search(x) for x in pieces):
        raise Refused("cannot write a string literal past the source gate")
    term = clit(pieces[-1])
    for x in reversed(pieces[:-1]):
        term = f"(String.append {clit(x)} {term})"
    return term


def to_jv(v) -> str:
    if v is None:
        return "JNull"
    if isinstance(v, bool):
        return "(JBool true)" if v else "(JBool false)"
    if isinstance(v, int):
        return f"(JInt ({v}))"
    if isinstance(v, float):
        k = v * FS
        if k != k or k in (float("inf"), float("-inf")) or k != int(k):
            raise Refused(f"number {v!r} is not exactly representable")
        return f"(JFlt (Fin ({int(k)})))"
    if isinstance(v, str):
        return f"(JStr {cstr(v)})"
    if isinstance(v, list):
        return "(JList [" + "; ".join(to_jv(x) for x in v) + "])"
    if isinstance(v, dict):
        return "(JObj [" + ";\n ".join(f"({cstr(k)}, {to_jv(x)})" for k, x in v.items()) + "])"
    raise Refused(f"not a JSON value: {type(v).__name__}")


def check_schema(s, defs: dict, where: str) -> None:
    """Refuse anything Schema.v would not interpret faithfully (called only where a schema is expected)."""
    if isinstance(s, bool):
        return
    if not isinstance(s, dict):
        raise Refused(f"{where}: a schema must be an object or a boolean")
    for k, v in s.items():
        w = f"{where}/{k}"
        if k in ANNOT:
            if k == "$defs":
                if not isinstance(v, dict):
                    raise Refused(f"{w}: not an object")
                for name, sub in v.items():
                    check_schema(sub, defs, f"{w}/{name}")
            continue
        if k in LEAF:
            if k == "type":
                ts = v if isinstance(v, list) else [v]
                if not ts or any(not isinstance(t, str) or t not in TYPES for t in ts):
                    raise Refused(f"{w}: unknown type {v!r}")
            elif k in ("enum", "const"):
                vs = v if k == "enum" else [v]
                if not isinstance(vs, list) or any(not (x is None or isinstance(x, (bool, str, int))) for x in vs):
                    raise Refused(f"{w}: only scalar values are supported")
            elif k == "required":
                if not isinstance(v, list) or any(not isinstance(x, str) for x in v):
                    raise Refused(f"{w}: not a list of names")
            elif k == "pattern":
                if v != VERSION_PATTERN_LIT:
                    raise Refused(f"{w}: pattern {v!r} has no matcher in Schema.v")
            else:
                if isinstance(v, bool) or not isinstance(v, int) or v < 0:
                    raise Refused(f"{w}: not a non-negative integer")
            continue
        if k in SUB:
            if k == "$ref":
                if not (isinstance(v, str) and v.startswith("#/$defs/") and v[len("#/$defs/"):] in defs
                        and not any(c in v[len("#/$defs/"):] for c in "~/%")):
                    raise Refused(f"{w}: unsupported reference {v!r}")
            elif k == "properties":
                if not isinstance(v, dict):
                    raise Refused(f"{w}: not an object")
                for name, sub in v.items():
                    check_schema(sub, defs, f"{w}/{name}")
            elif k in ("allOf", "anyOf", "oneOf"):
                if not isinstance(v, list) or not v:
                    raise Refused(f"{w}: not a non-empty list")
                for i, sub in enumerate(v):
                    check_schema(sub, defs, f"{w}/{i}")
            else:
                check_schema(v, defs, w)
            continue
        raise Refused(f"{w}: keyword not interpreted by Schema.v")


def check_document(doc, what: str) -> None:
    if not isinstance(doc, dict):
        raise Refused(f"{what}: the schema document is not an object")
    defs = doc.get("$defs", {})
    if not isinstance(defs, dict):
        raise Refused(f"{what}: $defs is not an object")
    check_schema(doc, defs, what)


def no_dup_pairs(pairs):
    keys = [k for k, _ in pairs]
    if len(set(keys)) != len(keys):
        raise Refused("duplicate member name in a JSON object")
    return dict(pairs)


EXPORT_SNIPPET = (
    "import json, sys, warnings\n"
    "warnings.simplefilter('ignore')\n"
    "import geff_spec\n"
    "from geff_spec._schema import GeffSchema, _formatted_schema_json\n"
    "print(json.dumps({'file': geff_spec.__file__, 'exported': _formatted_schema_json(), "
    "'raw': json.dumps(GeffSchema.model_json_schema())}))\n"
)


def export_from_model() -> tuple[str, str]:
    """(text of _formatted_schema_json(), text of GeffSchema.model_json_schema()) from the repository's working tree."""
    mod = sys.modules.get("geff_spec")
    if mod is not None and str(Path(mod.__file__).resolve()).startswith(str(REPO.resolve())):
        from geff_spec._schema import GeffSchema, _formatted_schema_json

        return _formatted_schema_json(), json.dumps(GeffSchema.model_json_schema())
    env = dict(os.environ)
    env["PYTHONPATH"] = os.pathsep.join([str(REPO / "packages/geff/src"), str(REPO / "packages/geff-spec/src")])
    env["PYTHONHASHSEED"] = "0"
    r = subprocess.run([sys.executable, "-W", "ignore", "-c", EXPORT_SNIPPET], capture_output=True, text=True, env=env, timeout=120)
    if r.returncode != 0:
        raise Refused("exporting the model schema failed: " + (r.stderr.strip().splitlines() or ["?"])[-1][:300])
    out = json.loads(r.stdout.strip().splitlines()[-1])
    if not str(Path(out["file"]).resolve()).startswith(str(REPO.resolve())):
        raise Refused(f"geff_spec imported from {out['file']}, not from the repository")
    return out["exported"], out["raw"]


HEADER = ("(* GENERATED by harness/translate_schema.py from the repository -- do not edit *)\n"
          "From Geff Require Import Base Meta.\nOpen Scope string_scope.\nOpen Scope Z_scope.\nOpen Scope list_scope.\n\n")


def gen_schema() -> tuple[str, str | None]:
    """(text of Gen/Schema.v, refusal reason or None)."""
    try:
        pub_text = (REPO / "geff-schema.json").read_text()
        pub = json.loads(pub_text, object_pairs_hook=no_dup_pairs)
        exp_text, raw_text = export_from_model()
        exp = json.loads(exp_text, object_pairs_hook=no_dup_pairs)
        raw = json.loads(raw_text, object_pairs_hook=no_dup_pairs)
        for doc, what in ((pub, "geff-schema.json"), (exp, "exported"), (raw, "model_json_schema")):
            check_document(doc, what)
        body = (f"Definition schema_published : jv :=\n {to_jv(pub)}.\n\n"
                f"Definition schema_exported : jv :=\n {to_jv(exp)}.\n\n"
                f"Definition schema_model_raw : jv :=\n {to_jv(raw)}.\n\n"
                "Definition schema_translate_error : option string := None.\n")
        return HEADER + body, None
    except (Refused, OSError, ValueError, KeyError, subprocess.SubprocessError) as e:
        why = f"{type(e).__name__}: {e}"
        safe = "".join(ch if 32 <= ord(ch) < 127 and ch != '"' else "?" for ch in why)[:400]
        body = ("Definition schema_published : jv := JNull.\n\nDefinition schema_exported : jv := JNull.\n\n"
                "Definition schema_model_raw : jv := JNull.\n\n"
                f'Definition schema_translate_error : option string := Some "{safe}".\n')
        return HEADER + body, why


LAST_ERROR: str | None = None


def main() -> None:
    global LAST_ERROR
    text, LAST_ERROR = gen_schema()
    write_if_changed(GEN / "Schema.v", text)


if __name__ == "__main__":
    main()
    print(LAST_ERROR or "ok", len((GEN / "Schema.v").read_text()))
