"""Debug aid: ./check-style env; python -m harness.debug Cxx [n] [tier] -- print the first n correspondence mismatches with the
model's output (uses `diag` of the Corr module when it has one)."""
import importlib, random, sys, json
from harness import common

def main():
    prop = sys.argv[1]; n = int(sys.argv[2]) if len(sys.argv) > 2 else 3; tier = sys.argv[3] if len(sys.argv) > 3 else "quick"
    limit = int(sys.argv[4]) if len(sys.argv) > 4 else 400
    common.pin_environment()
    mod = importlib.import_module(f"harness.{prop.lower()}")
    rng = random.Random(0)
    cases = []
    for c in mod.generate(rng, tier):
        cases.append(c)
        if len(cases) >= limit: break
    obs = [mod.run_impl(c) for c in cases]
    terms, idx = [], []
    for i, (c, o) in enumerate(zip(cases, obs)):
        t = mod.coq_case(c, o)
        if t is not None: terms.append(t); idx.append(i)
    mism, errs = common.coq_eval_cases(prop, terms)
    print("cases", len(cases), "terms", len(terms), "mismatches", len(mism), "errors", errs[:2])
    for j in mism[:n]:
        i = idx[j]
        c = cases[i]; o = {k: v for k, v in obs[i].items() if k != "coq"}
        print("=" * 100); print("CASE", json.dumps(common.jsonable(c))[:1500]); print("OBS", json.dumps(common.jsonable(o))[:600])
        d = common.WORK / "dbg"; d.mkdir(parents=True, exist_ok=True)
        (d / "Dbg.v").write_text(f"From Geff Require Import Base Dtype.\nFrom Geff.Corr Require Import {prop}.\nOpen Scope list_scope.\n"
                                 f"Definition c : input * obs := {terms[j]}.\nEval vm_compute in (diag c).\nEval vm_compute in (model (fst c)).\nEval vm_compute in (snd c).\n")
        r = common.run(["coqc", "-Q", str(common.COQ / "theories"), "Geff", "Dbg.v"], cwd=d)
        print(" ".join((r.stdout + r.stderr).split())[:int(sys.argv[5]) if len(sys.argv) > 5 else 300])

main()
