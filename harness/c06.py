"""C06 -- existing geffs are never clobbered implicitly; overwrite replaces completely."""
from __future__ import annotations

import copy
import os
import random
import shutil
from pathlib import Path

import numpy as np

from harness import graphgen as gg
from harness.c01 import compare_graph, open_store, prepare
from harness.common import Failure, HarnessError, cbool, clist, exn_name
from harness.storelib import Interner, abstract_meta_obj, c_meta, c_otree, dump_tree, snapshot, tree_printable

PROP = "C06"
PARALLEL = True
RULE = ("histories write(A); write(B, overwrite=o1); write(C, overwrite=o2) (length 2..4) over graphs whose property sets, id dtypes and sizes "
        "differ x store kind {MemoryStore, LocalStore, Path, str} x pre-state {absent, sibling group + foreign attrs} x zarr format; "
        "entry points write_arrays (tied to the Coq model step by step) and geff.write for networkx and rustworkx over every store kind x pre-state x format (oracle only: refusal, complete replacement, foreign members kept); a block of "
        "format-changing overwrites (oracle only); after each call: exception class, key->bytes snapshot, abstract dump, read-back; "
        "non-trivial = at least one call hits an existing geff; distinct by structural input; "
        "entry-point histories (harness/c06_entries.py, tied to Entry.v): on one directory (or MemoryStore) the entry points take turns -- "
        "from_ctc_to_geff and from_trackmate_xml_to_geff through API and CLI (label volume outside / inside the geff directory), write_dicts and "
        "the Nx/Rx/Sg backend writers called directly, geff.write for networkx and spatial-graph, write_arrays; fixed blocks per zarr format "
        "(fresh/refused/overwritten, geff beside foreign members then every entry point by path, store kinds) + random mixed histories")
EXHAUSTIVE_BLOCKS = ["store kind x zarr format x (o1, o2) in {F,T}^2 for one fixed triple of graphs"]
ASSUMPTIONS = ["consolidated metadata (.zmetadata) is not part of the tree model: histories that consolidate the metadata of a store OBJECT are oracle-only",
               "equality after an overwrite is on the decoded hierarchy (abstract dump) and the read-back graph, not on bytes",
               "the Coq model has one zarr format per history; format-changing overwrites are checked by the oracle only",
               "entry-point histories: trees are compared with the opaque metadata tokens (axis type/unit, version, related objects, extra) blanked; "
               "the spatial-graph writer is modelled behind write_props_arrays' in-place unsquish of the position column; the label volume inside "
               "the geff directory is generated at depth 1 (out.geff/seg) only; one compiled spatial_graph signature"]


def three_graphs(rng):
    A = gg.rand_graph(rng, max_n=4, max_e=3, max_props=3)
    B = gg.rand_graph(rng, max_n=3, max_e=2, max_props=2)
    C = gg.rand_graph(rng, max_n=5, max_e=3, max_props=1)
    return A, B, C


def generate(rng: random.Random, tier: str):
    r0 = random.Random(7)
    A, B, C = three_graphs(r0)
    for store in ("mem", "local", "path", "str"):
        for fmt in (2, 3):
            for o1 in (False, True):
                for o2 in (False, True):
                    yield {"kind": "history", "store": store, "fmt": [fmt, fmt, fmt], "pre": "fresh", "entry": "arrays",
                           "calls": [dict(A, ov=False, validate=True), dict(B, ov=o1, validate=True), dict(C, ov=o2, validate=True)]}
    for i in range(60 if tier == "quick" else 700):
        gs = three_graphs(rng)
        n = rng.randint(2, 4)
        fmt = rng.choice([2, 3])
        calls = []
        for j in range(n):
            g = copy.deepcopy(gs[j % 3])
            calls.append(dict(g, ov=(j > 0 and rng.random() < 0.6), validate=rng.random() < 0.9))
        yield {"kind": "history", "store": rng.choice(["mem", "local", "path", "str"]), "fmt": [fmt] * n,
               "pre": rng.choice(["fresh", "fresh", "foreign"]), "entry": "arrays", "calls": calls}
    # format-changing overwrites and the networkx writer: oracle only
    for store in ("mem", "local", "path"):
        for f1, f2 in ((2, 3), (3, 2)):
            yield {"kind": "history", "store": store, "fmt": [f1, f2], "pre": "fresh", "entry": "arrays",
                   "calls": [dict(A, ov=False, validate=True), dict(B, ov=True, validate=True)]}
            yield {"kind": "history", "store": store, "fmt": [f1, f2], "pre": "fresh", "entry": "arrays",
                   "calls": [dict(A, ov=False, validate=True), dict(B, ov=False, validate=True)]}
    # graph-library writers (their own overwrite guard in front of write_arrays' guard): every store kind x pre-state x format once,
    # then random histories
    k = 0
    for store in ("mem", "local", "path", "str"):
        for pre in ("fresh", "foreign"):
            for fmt in (2, 3):
                k += 1
                yield {"kind": "history", "store": store, "fmt": [fmt, fmt, fmt], "pre": pre, "entry": ("nx", "rx")[k % 2],
                       "calls": [nx_graph(rng, False), nx_graph(rng, True), nx_graph(rng, k % 3 == 0)]}
    # the CTC converter (its own guard in front of write_arrays' guard) and targets spelled with "~"
    for store in ("path", "str", "tilde"):
        for fmt in (2, 3):
            for o1, o2 in ((False, True), (True, False)):
                yield {"kind": "history", "store": store, "fmt": [fmt, fmt, fmt], "pre": "fresh", "entry": "ctc",
                       "calls": [{"ctc": 1, "ov": False, "validate": True}, {"ctc": 2, "ov": o1, "validate": True},
                                 {"ctc": 3, "ov": o2, "validate": True}]}
    for fmt in (2, 3):
        for entry in ("nx", "rx"):
            yield {"kind": "history", "store": "tilde", "fmt": [fmt, fmt, fmt], "pre": "fresh", "entry": entry,
                   "calls": [nx_graph(rng, False), nx_graph(rng, False), nx_graph(rng, True)]}
        A, B, C = three_graphs(random.Random(11 + fmt))
        for o1 in (False, True):
            yield {"kind": "history", "store": "tilde", "fmt": [fmt, fmt, fmt], "pre": "fresh", "entry": "arrays",
                   "calls": [dict(A, ov=False, validate=True), dict(B, ov=o1, validate=True), dict(C, ov=not o1, validate=True)]}
    # a geff whose metadata was consolidated (zarr.consolidate_metadata adds .zmetadata to a zarr-2 root, resp. a consolidated_metadata
    # section to zarr.json) before the next call: refusal and complete replacement must be as without it
    for store in ("path", "str", "local"):
        for fmt in (2, 3):
            for entry in ("arrays", "nx"):
                A, B, C = three_graphs(random.Random(41 + fmt))
                calls = ([nx_graph(rng, False), nx_graph(rng, False), nx_graph(rng, True)] if entry == "nx" else
                         [dict(A, ov=False, validate=True), dict(B, ov=False, validate=True), dict(C, ov=True, validate=True)])
                yield {"kind": "history", "store": store, "fmt": [fmt, fmt, fmt], "pre": "fresh", "entry": entry, "calls": calls,
                       "consolidate": True}
    # an existing directory that is not a zarr group (for a path: "occupied"): refusal without overwrite, and what overwrite=True does
    for store in ("path", "str"):
        for fmt in (2, 3):
            A, B, C = three_graphs(random.Random(31 + fmt))
            for o1 in (False, True):
                yield {"kind": "history", "store": store, "fmt": [fmt, fmt], "pre": "emptydir", "entry": "arrays",
                       "calls": [dict(A, ov=o1, validate=True), dict(B, ov=not o1, validate=True)]}
    # a geff that shares its directory with foreign members (laid down through a store object), then addressed by path
    for fmt in (2, 3):
        for entry in ("nx", "rx", "arrays"):
            for pre in ("fresh", "foreign"):
                A, B, C = three_graphs(random.Random(23 + fmt))
                calls = ([nx_graph(rng, False), nx_graph(rng, True), nx_graph(rng, False)] if entry != "arrays" else
                         [dict(A, ov=False, validate=True), dict(B, ov=True, validate=True), dict(C, ov=False, validate=True)])
                yield {"kind": "history", "store": "mixed", "fmt": [fmt, fmt, fmt], "pre": pre, "entry": entry, "calls": calls}
    for i in range(16 if tier == "quick" else 200):
        fmt = rng.choice([2, 3])
        yield {"kind": "history", "store": rng.choice(["mem", "local", "path", "str"]), "fmt": [fmt, fmt, fmt],
               "pre": rng.choice(["fresh", "foreign"]), "entry": rng.choice(["nx", "rx"]),
               "calls": [nx_graph(rng, False), nx_graph(rng, rng.random() < 0.5), nx_graph(rng, rng.random() < 0.5)]}
    # every other writing entry point (converters with their label volume, write_dicts and the backend writers called directly,
    # the spatial-graph writer): harness/c06_entries.py, tied to Entry.v
    yield from generate_entries(rng, tier)


def generate_entries(rng, tier):
    from harness import c06_entries

    yield from c06_entries.generate(rng, tier)


def nx_graph(rng, ov):
    """a small attribute graph whose property NAMES vary from call to call (a stale property of the previous graph must not survive)"""
    n = rng.randint(1, 4)
    ids = sorted(rng.sample(range(0, 40), n))
    extra = rng.choice(["lab", "score", "kind", None])
    ename = rng.choice(["w", "len"])
    return {"nx_nodes": [[i, {"t": float(rng.randint(0, 9)), **({extra: rng.randint(0, 5)} if extra else {})}] for i in ids],
            "nx_edges": [[ids[0], ids[-1], {ename: rng.randint(0, 9) / 2}]] if n >= 2 else [], "ov": ov, "validate": True}


class capture_write_arrays:
    """records the arguments the backend writers hand to write_arrays (write_dicts looks the name up in its module)"""

    def __init__(self, sink):
        self.sink = sink

    def __enter__(self):
        import inspect

        import geff.core_io._base_write as bw

        self.bw, self.orig = bw, bw.write_arrays
        sig = inspect.signature(self.orig)

        def spy(*a, **kw):
            b = sig.bind(*a, **kw)
            b.apply_defaults()
            self.sink.append(dict(b.arguments))
            return self.orig(*a, **kw)

        bw.write_arrays = spy
        return self

    def __exit__(self, *exc):
        self.bw.write_arrays = self.orig
        return False


def ovkw(call):
    """overwrite is passed only when it is requested: a call that does not ask for it relies on the documented default (no overwrite),
    and structural validation on relies on its default too -- a flipped default is a silent clobber"""
    return {"overwrite": True} if call["ov"] else {}


def do_call(c, call, store, fmt):
    if c["entry"] == "arrays":
        from geff.core_io import write_arrays

        write_arrays(store, gg.to_np(call["nids"]), gg.props_to_np(call["nprops"]), gg.to_np(call["eids"]), gg.props_to_np(call["eprops"]),
                     gg.make_metadata(call["md"]), zarr_format=fmt, **({"structure_validation": False} if not call["validate"] else {}), **ovkw(call))
    elif c["entry"] == "ctc":
        from geff.convert import from_ctc_to_geff
        from harness import c15

        r = random.Random(call["ctc"])
        labs = list(range(1, call["ctc"] + 1))
        case = c15.base_case(**c15.dataset_from_presence(r, 2, {l: [0, 1] for l in labs}, {}))
        root = c15.scratch_dir()
        try:
            from_ctc_to_geff(c15.write_dataset(case, root), store, zarr_format=fmt, **ovkw(call))
        finally:
            shutil.rmtree(root, ignore_errors=True)
    elif c["entry"] == "nx":
        import networkx as nx

        import geff

        G = nx.DiGraph()
        for i, d in call["nx_nodes"]:
            G.add_node(i, **d)
        for a, b, d in call["nx_edges"]:
            G.add_edge(a, b, **d)
        geff.write(G, store, zarr_format=fmt, **ovkw(call))
    else:
        import rustworkx as rx

        import geff

        G = rx.PyDiGraph()
        idx = {}
        for i, d in call["nx_nodes"]:
            idx[i] = G.add_node(dict(d))
        for a, b, d in call["nx_edges"]:
            G.add_edge(idx[a], idx[b], dict(d))
        geff.write(G, store, zarr_format=fmt, **ovkw(call), node_id_dict={v: k for k, v in idx.items()})


def has_geff(store):
    import zarr

    try:
        return "geff" in zarr.open_group(store, mode="r").attrs
    except Exception:
        return False


def strip(tree):
    """the geff-controlled part of a dump: nodes, edges, attrs['geff']"""
    if tree is None:
        return None
    return {"attrs": [kv for kv in tree["attrs"] if kv[0] == "geff"], "ch": [kv for kv in tree["ch"] if kv[0] in ("nodes", "edges")]}


def foreign(tree):
    if tree is None:
        return {"attrs": [], "ch": []}
    return {"attrs": [kv for kv in tree["attrs"] if kv[0] != "geff"], "ch": [kv for kv in tree["ch"] if kv[0] not in ("nodes", "edges")]}


def open_target(c):
    """(argument handed to the library, handle used to observe the location, directory to remove afterwards)"""
    from harness.c01 import scratch_dir

    kind = c["store"]
    name = "h.geff" if c["entry"] == "ctc" else "h.zarr"
    if kind == "tilde":  # "~/h.zarr" with HOME pointing into the scratch area
        home = scratch_dir() / "home"
        shutil.rmtree(home, ignore_errors=True)
        home.mkdir(parents=True)
        os.environ["HOME"] = str(home)
        return f"~/{name}", home / name, home
    if c["entry"] == "ctc":
        p = scratch_dir() / name
        shutil.rmtree(p, ignore_errors=True)
        return (p if kind == "path" else str(p)), p, p
    store, path = open_store("local" if kind == "mixed" else kind, "h")
    return store, store, path


def run_impl(c):
    from geff.core_io import read_to_memory

    if c["kind"] == "ehist":
        from harness import c06_entries

        return c06_entries.run_impl(c)
    it = Interner()
    old_home = os.environ.get("HOME")
    store, real, path = open_target(c)
    obs = {"steps": []}
    try:
        prepare(real, c["pre"], c["fmt"][0])
        pre_tree = dump_tree(real, it)
        coq_calls, coq_steps = [], []
        modelled = c["entry"] == "arrays" and len(set(c["fmt"])) == 1 and c["store"] != "mixed"
        api_modelled = c["entry"] in ("nx", "rx") and len(set(c["fmt"])) == 1 and c["store"] != "mixed"
        if c.get("consolidate") and c["store"] in ("mem", "local"):
            # consolidated metadata of a store object is outside the tree model (it has no .zmetadata): oracle only (open finding)
            modelled = api_modelled = False
        first_store = store
        for ci, (call, fmt) in enumerate(zip(c["calls"], c["fmt"])):
            # "mixed": the first graph is written through a LocalStore object (so it may sit beside foreign members), the later calls
            # address the same directory by its path
            store = first_store if (c["store"] != "mixed" or ci == 0) else str(path)
            before_snap = snapshot(real)
            before_tree = dump_tree(real, it)
            existed = has_geff(real)
            step = {"existed": existed, "ov": call["ov"]}
            if modelled:
                try:
                    nids, eids = gg.to_np(call["nids"]), gg.to_np(call["eids"])
                    nprops, eprops = gg.props_to_np(call["nprops"]), gg.props_to_np(call["eprops"])
                    if not all(gg.printable_np(p["values"]) for ps in (nprops, eprops) if ps for p in ps.values()) or \
                            any("/" in k for ps in (nprops, eprops) if ps for k in ps):
                        raise HarnessError("unprintable")
                    coq_calls.append(f"(mkcall {gg.c_wgraph(nids, eids, nprops, eprops, it)} {c_meta(abstract_meta_obj(gg.make_metadata(call['md']), it))} "
                                     f"{cbool(call['validate'])} {cbool(call['ov'])})")
                except HarnessError:
                    modelled = False
            captured = []
            try:
                with capture_write_arrays(captured):
                    do_call(c, call, store, fmt)
                step["res"] = ["ok"]
            except Exception as e:
                step["res"] = ["err", exn_name(e), str(e)[:100]]
            if c.get("consolidate") and step["res"][0] == "ok":
                import zarr

                try:
                    zarr.consolidate_metadata(real)
                except Exception:
                    pass
            if api_modelled:
                try:
                    if captured:
                        a = captured[0]
                        if not all(gg.printable_np(p["values"]) for ps in (a["node_props"], a["edge_props"]) if ps for p in ps.values()):
                            raise HarnessError("unprintable")
                        coq_calls.append(f"(mkcall {gg.c_wgraph(a['node_ids'], a['edge_ids'], a['node_props'], a['edge_props'], it)} "
                                         f"{c_meta(abstract_meta_obj(a['metadata'], it))} {cbool(a['structure_validation'])} {cbool(call['ov'])})")
                    else:  # the wrapper's guard refused before any array was built: the graph is irrelevant to the model
                        coq_calls.append(f"(mkcall {gg.c_wgraph(np.empty(0, 'uint8'), np.empty((0, 2), 'uint8'), {}, {}, it)} "
                                         f"{c_meta(abstract_meta_obj(gg.make_metadata({'directed': True}), it))} true {cbool(call['ov'])})")
                except HarnessError:
                    api_modelled = False
            after_tree = dump_tree(real, it)
            step["bytes_identical"] = snapshot(real) == before_snap
            # what a write of the same graph to an EMPTY location gives
            if step["res"][0] == "ok" and c["entry"] == "arrays":
                from zarr.storage import MemoryStore

                ref = MemoryStore()
                call2 = dict(call, ov=False)
                do_call(c, call2, ref, fmt)
                ref_tree = dump_tree(ref, it)
                step["same_as_fresh"] = strip(after_tree) == strip(ref_tree)
                step["foreign_kept"] = foreign(after_tree) == foreign(before_tree) or (not existed and foreign(after_tree) == foreign(before_tree))
                try:
                    back = read_to_memory(real)
                    exp_n = gg.props_to_np(call["nprops"]) or {}
                    if call["nids"]["shape"][0] == 0 and call["nprops"] is not None:
                        for ax in call["md"].get("axes") or []:
                            exp_n.setdefault(ax["name"], {"values": np.empty(0, dtype="float64"), "missing": None})
                    step["diff"] = compare_graph(gg.to_np(call["nids"]), gg.to_np(call["eids"]), exp_n, gg.props_to_np(call["eprops"]) or {}, back)
                except Exception as e:
                    step["diff"] = f"read raised {type(e).__name__}: {e}"[:120]
            if step["res"][0] == "ok" and c["entry"] == "ctc":
                try:
                    back = read_to_memory(real)
                    step["lib_back"] = {"ids": sorted(int(x) for x in back["node_ids"]), "n_edges": int(len(back["edge_ids"]))}
                except Exception as e:
                    step["lib_back"] = f"read raised {type(e).__name__}: {e}"[:120]
            elif step["res"][0] == "ok" and c["entry"] != "arrays":
                step["foreign_kept"] = foreign(after_tree) == foreign(before_tree)
                try:
                    back = read_to_memory(real)
                    step["lib_back"] = {"ids": sorted(int(x) for x in back["node_ids"]),
                                        "edges": sorted([int(a), int(b)] for a, b in back["edge_ids"]),
                                        "nprops": sorted(back["node_props"]), "eprops": sorted(back["edge_props"]),
                                        "md_nprops": sorted(back["metadata"].node_props_metadata),
                                        "md_eprops": sorted(back["metadata"].edge_props_metadata)}
                except Exception as e:
                    step["lib_back"] = f"read raised {type(e).__name__}: {e}"[:120]
            obs["steps"].append(step)
            if api_modelled and tree_printable(after_tree):
                r = "(Ok tt)" if step["res"][0] == "ok" else f"(Err {step['res'][1]})"
                coq_steps.append(f"({r}, {c_otree(after_tree)})")
            elif api_modelled:
                api_modelled = False
            if api_modelled:
                pass
            elif modelled and tree_printable(after_tree):
                r = "(Ok tt)" if step["res"][0] == "ok" else f"(Err {step['res'][1]})"
                coq_steps.append(f"({r}, {c_otree(after_tree)})")
            else:
                modelled = False
        if (modelled or api_modelled) and tree_printable(pre_tree):
            kind = "KPath" if c["store"] in ("path", "str", "tilde") else "KObj"
            obs["coq"] = f"({'IApiHist' if api_modelled else 'IHist'} {kind} {c_otree(pre_tree)} {clist(coq_calls)}, OHist {clist(coq_steps)})"
    finally:
        if path is not None:
            shutil.rmtree(path, ignore_errors=True)
        if old_home is not None:
            os.environ["HOME"] = old_home
    return obs


def coq_case(c, o):
    return o.get("coq")


def oracle(c, o):
    if c["kind"] == "ehist":
        from harness import c06_entries

        return c06_entries.oracle(c, o)
    fmt_change = len(set(c["fmt"])) > 1
    for i, (call, st) in enumerate(zip(c["calls"], o["steps"])):
        tags = {"step": i, "store": "object" if c["store"] in ("mem", "local") else (c["store"] if c["store"] in ("tilde", "mixed") else "path"), "pre": c["pre"], "consolidated": bool(c.get("consolidate")), "entry": c["entry"], "fmt_change": fmt_change}
        if fmt_change:
            tags["formats"] = f"{c['fmt'][0]}->{c['fmt'][1]}"
        if st["existed"] and not call["ov"]:
            if st["res"][0] == "ok" or st["res"][1] != "FileExistsError":
                return Failure(c, slim(o), f"call {i}: a geff exists and overwrite was not requested, but the write {st['res'][:2]}",
                               dict(tags, why="no-refusal"))
            if not st["bytes_identical"]:
                return Failure(c, slim(o), f"call {i}: refused write changed stored bytes", dict(tags, why="refusal-mutates"))
        if st["existed"] and call["ov"] and c["entry"] == "arrays" and well_formed(call):
            if st["res"][0] != "ok":
                return Failure(c, slim(o), f"call {i}: overwrite of an existing geff raised {st['res'][1]}: {st['res'][2]}",
                               dict(tags, why="overwrite-raises", exc=st["res"][1]))
            if not st.get("same_as_fresh", True):
                return Failure(c, slim(o), f"call {i}: after overwrite the geff-controlled hierarchy differs from a write to an empty location "
                               "(something of the previous graph survives)", dict(tags, why="stale-survivor"))
            if st.get("diff"):
                return Failure(c, slim(o), f"call {i}: after overwrite the store reads as a different graph: {st['diff']}", dict(tags, why="overwrite-differs"))
        if st["existed"] and call["ov"] and c["entry"] == "ctc":
            if st["res"][0] != "ok":
                return Failure(c, slim(o), f"call {i}: CTC converter: overwrite of an existing geff raised {st['res'][1]}: {st['res'][2]}",
                               dict(tags, why="overwrite-raises", exc=st["res"][1]))
            if st.get("lib_back") != {"ids": list(range(2 * call["ctc"])), "n_edges": call["ctc"]}:
                return Failure(c, slim(o), f"call {i}: CTC converter: after overwrite the store reads as {st.get('lib_back')}, converted "
                               f"{2 * call['ctc']} nodes / {call['ctc']} edges", dict(tags, why="overwrite-differs"))
        elif st["existed"] and call["ov"] and c["entry"] != "arrays" and not fmt_change:
            if st["res"][0] != "ok":
                return Failure(c, slim(o), f"call {i}: {c['entry']} writer: overwrite of an existing geff raised {st['res'][1]}: {st['res'][2]}",
                               dict(tags, why="overwrite-raises", exc=st["res"][1]))
            exp = {"ids": sorted(i for i, _ in call["nx_nodes"]), "edges": sorted([a, b] for a, b, _ in call["nx_edges"]),
                   "nprops": sorted({k for _, d in call["nx_nodes"] for k in d}), "eprops": sorted({k for _, _, d in call["nx_edges"] for k in d})}
            exp["md_nprops"], exp["md_eprops"] = exp["nprops"], exp["eprops"]
            if st.get("lib_back") != exp:
                return Failure(c, slim(o), f"call {i}: {c['entry']} writer: after overwrite the store reads as {st.get('lib_back')}, written {exp} "
                               "(something of the previous graph survives or the new one is incomplete)", dict(tags, why="overwrite-differs"))
            if not st.get("foreign_kept", True):
                return Failure(c, slim(o), f"call {i}: overwrite changed members or attributes that do not belong to the geff", dict(tags, why="foreign-lost"))
    return None


def well_formed(call):
    return not any("vlen" in p["values"] and not p["values"]["vlen"] for ps in (call.get("nprops"), call.get("eprops")) if ps for p in ps.values())


def slim(o):
    return {k: v for k, v in o.items() if k != "coq"}


def nontrivial(c, o):
    return any(s["existed"] for s in o["steps"])


def describe(c, o):
    if c["kind"] == "ehist":
        from harness import c06_entries

        return c06_entries.describe(c, o)
    return (f"{c['entry']}:{c['store']}:v{'>'.join(map(str, c['fmt']))}:{c['pre']}:" +
            ",".join(("ov" if call["ov"] else "no") + "=" + (s["res"][0] if s["res"][0] == "ok" else s["res"][1]) for call, s in zip(c["calls"], o["steps"])))
