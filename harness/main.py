"""CLI of the /verif checks:  ./check <Cxx> [--tier quick|thorough] [--replay file] | --setup | --all"""
from __future__ import annotations

import argparse
import importlib
import os
import sys

from harness import common


def setup() -> int:
    errs = common.regenerate_gen()
    if errs:
        print("\n".join(errs))
        return 2
    ok, log = common.coq_make([])
    print(log[-3000:])
    return 0 if ok else 2


def audit() -> int:
    """coqchk -o over every property file (independent re-check of the compiled development; prints the axioms it relies on)."""
    import subprocess

    if setup() != 0:
        return 2
    mods = sorted(f"GeffProps.{p.stem}" for p in (common.COQ / "props").glob("C*.v"))
    r = subprocess.run(["timeout", "3000", "coqchk", "-silent", "-o", "-Q", "theories", "Geff", "-Q", "props", "GeffProps", *mods],
                       cwd=common.COQ, capture_output=True, text=True)
    out = r.stdout + r.stderr
    print(out[-1500:])
    return 0 if r.returncode == 0 and "* Axioms: <none>" in out else 1


def main() -> int:
    ap = argparse.ArgumentParser()
    ap.add_argument("prop", nargs="?")
    ap.add_argument("--tier", default=os.environ.get("VERIF_TIER", "quick"), choices=["quick", "thorough"])
    ap.add_argument("--replay")
    ap.add_argument("--setup", action="store_true")
    ap.add_argument("--audit", action="store_true")
    ap.add_argument("--harvest", action="store_true", help="replay the calls harvested from the repository's own test suite")
    ap.add_argument("--rerun", action="store_true", help="with --harvest: run the repository's suite again even if records exist")
    ap.add_argument("--props", help="with --harvest: comma-separated property ids")
    ap.add_argument("--table", help="with --harvest: write the per-function table (markdown) to this file")
    a = ap.parse_args()
    if a.setup:
        return setup()
    if a.audit:
        return audit()
    if a.harvest:
        from harness import harvest

        try:
            return harvest.main(rerun=a.rerun, props=a.props.split(",") if a.props else None, table=a.table)
        except common.HarnessError as e:
            print(f"HARNESS-ERROR: {e}", file=sys.stderr)
            return 2
    if not a.prop:
        ap.error("property id required")
    seed = int(os.environ.get("VERIF_SEED", "0") or 0)
    try:
        mod = importlib.import_module(f"harness.{a.prop.lower()}")
        if a.replay:
            return common.replay_property(mod, a.replay)
        if hasattr(mod, "main"):
            return mod.main(a.tier, seed)
        return common.run_property(mod, a.tier, seed)
    except common.HarnessError as e:
        print(f"HARNESS-ERROR: {e}", file=sys.stderr)
        return 2


if __name__ == "__main__":
    sys.exit(main())
