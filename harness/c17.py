"""C17 -- table export lists every node and edge with aligned property columns.

Correspondence: geff_to_dataframes(store) (cells, column order, warnings) and geff_to_csv / `geff
convert-to-csv` (exception class, state of the two output files, CSV parsed back) on real zarr
stores written with write_arrays, against Table.v evaluated in Coq.
Oracle: plain-Python restatement of the property text (no geff code, not the model).
"""
from __future__ import annotations

import itertools
import os
import random
import re
import shutil
import struct
import tempfile
import warnings
from pathlib import Path

import numpy as np

from harness import c17_csv
from harness.common import Failure, HarnessError, cbool, clist, cnat, copt, cstr, cz, exn_name

PROP = "C17"
RULE = ("bounded-exhaustive: every shape (N, d1..dm), N in 0..3, m in 0..3, d in {1,2,3} (+ zero-size trailing axes) x 4 mask "
        "modes, int64 on the node side and float64/str/bool/uint64 in rotation on the edge side (11 shapes per generated graph); "
        "all 12 dtypes x 4 mask modes x {1-D, 2-D} on 1 and 2 rows; all 8 masks for N=3; all 8 (nodes.csv exists, edges.csv exists, "
        "overwrite) combinations through the API and the 4 existence combinations through the CLI; random graphs (N,E<=6, every "
        "integer/float/bool/str dtype with values at the dtype limits and 2^53+-1, rank 1..4 with singleton axes, random masks, "
        "zarr format 2 and 3); boundary stream: colliding column names (id/source/target/p_0), odd names and strings, single-row "
        "graphs, zero-size axes; CSV: file-name suffix variants, pre-existing files; non-trivial = at least one property; distinct "
        "by structural input; fx2011 CSV text layer: 55 hand-made distinguishing graphs (2^53+1 / -2^63 / uint64 2^63 beside a missing "
        "entry, strings 007 NA '' 1e3 True inf None ..., comma/quote/LF/CR/CR+LF/NUL strings, bool with missing, float32 0.1, float16, "
        "0.30000000000000004, uint64 ids beyond 2^63, a 12-wide 2-D property, all-missing columns, empty graph) + random typed graphs "
        "(160 quick / 2500 thorough) exported with the real geff_to_csv below a dotted directory: file bytes and default pd.read_csv frames "
        "compared in Coq; pd.read_csv on raw texts (character soup under a header, one-column files of tricky cells: 400 / 6000); NA-token "
        "constant")
EXHAUSTIVE_BLOCKS = [
    "geff_to_dataframes: all shapes (N,d1..dm) with N<=3, m<=3, d in {1,2,3} (plus (0,),(2,0),(0,2),(1,0) trailing) x mask in "
    "{none, all-false, first, last}, node side (int64) and edge side (E = 0,2,3,1 rows; dtype rotating)",
    "geff_to_dataframes: all 12 stored dtypes x 4 mask modes x shapes (N,),(N,2) for N in {1,2}, values at the dtype limits",
    "geff_to_dataframes: all 2^3 missing masks for N=3 x shapes (3,),(3,2),(3,1,2),(3,2,2) x {int64,float64,str,bool}",
    "geff_to_csv: all (nodes.csv exists, edges.csv exists, overwrite) in {0,1}^3 via the API and all {0,1}^2 via the CLI",
]
ASSUMPTIONS = [
    "stored graphs are produced with geff.core_io.write_arrays (MemoryStore, or a directory store for the CLI); the model starts "
    "from the in-memory arrays; property order = zarr group listing order (read independently with zarr)",
    "pandas (Series/DataFrame construction, Series.mask, nullable dtypes) is runtime: modelled by its meaning and tied by the "
    "correspondence only; the old csv cases also compare the cells after parsing the text back with the column's dtype (the text is "
    "lossless); fx2011: DataFrame.to_csv / csv.writer and pandas.read_csv with default arguments (tokenizer, header, type inference) are "
    "MODELLED (Csv.v) and tied byte for byte / frame for frame; numpy float printing and pandas' float parser are value functions "
    "outside the model (a float cell is its literal; the parser is sampled per text)",
    "the oracle reads both files back with plain pandas.read_csv(path): the row labels appear as the column 'Unnamed: 0' and are ignored; "
    "'same value' = equal integers (an integer may come back as the float of the same value), equal floats (float32/float16 at the stored "
    "precision), identical strings, bools as bools, NaN where flagged missing; a stored NaN is a missing cell",
    "an empty string and a NaN float stored as a present value are indistinguishable from a missing cell in CSV/pandas: the frames and "
    "old csv generators do not emit them in compared positions; the csvtext cases do (a stored NaN counts as a missing cell, the empty "
    "string is part of the open finding csv-default-read-string-na-or-numeric)",
    "variable-length properties are outside the property's quantifier (numeric and string dtypes) and are not generated",
    "readings fixed in DESIGN.md 6/C17: an (N,1) column may be called name or name_0; a rank>=3 property whose non-singleton "
    "trailing axes number at most one may be exported like its squeezed shape or left out with a warning",
]

INT_DTYPES = ["int8", "int16", "int32", "int64", "uint8", "uint16", "uint32", "uint64"]
FLOAT_DTYPES = ["float32", "float64"]
ALL_DTYPES = INT_DTYPES + FLOAT_DTYPES + ["bool", "str"]
OLD_BYTES = b"old\n"

STR_POOL = ["a", "bc", "x,y", 'q"t', " lead", "trail ", "ünï", "1", "007", "NA", "nan", "#", "'", "a;b", "None",
            "1.5", "True", "two words", "-", "x\ty", "l1\nl2"]
NAME_POOL = ["p", "q", "pos", "score", "t", "x_y", "a b", "ü", "x,y", 'q"t', "0", "_", "P", "radius", "p_2", "r.s", "#c"]
COLLIDE_NODE = ["id", "p_0", "p_1"]
COLLIDE_EDGE = ["source", "target", "p_0", "p_1"]


# ---------------------------------------------------------------- values
def int_pool(dt):
    info = np.iinfo(dt)
    pool = {info.min, info.max, info.max - 1, 0, 1, 2, 5, 100}
    if info.min < 0:
        pool |= {-1, info.min + 1}
    for v in (2**53 - 1, 2**53, 2**53 + 1, 2**63 - 1, 2**63, 2**63 + 1, 2**64 - 1, -(2**53) - 1):
        if info.min <= v <= info.max:
            pool.add(v)
    return sorted(pool)


FLOAT_POOL = {
    "float64": [0.0, -0.0, 0.5, -1.25, 1.0, 3.0, 0.1, 1e300, -1e-300, 1e-320, 2.0**53 + 2, 123456.789, float("inf"), float("-inf")],
    "float32": [0.0, -0.0, 0.5, -1.25, 1.0, 3.0, float(np.float32(0.1)), float(np.finfo("float32").max), float(np.float32(1e-40)),
                float("inf")],
}


def rand_value(rng, dt):
    if dt == "bool":
        return rng.random() < 0.5
    if dt == "str":
        return rng.choice(STR_POOL)
    if dt in FLOAT_POOL:
        return rng.choice(FLOAT_POOL[dt])
    return rng.choice(int_pool(dt))


def seq_values(dt, count, start=0):
    """Deterministic, pairwise distinct values (exhaustive blocks): position-revealing."""
    if dt == "bool":
        return [(start + i) % 3 == 0 for i in range(count)]
    if dt == "str":
        return [f"s{start + i}" for i in range(count)]
    if dt.startswith("float"):
        return [(start + i) + 0.5 for i in range(count)]
    return [2**53 + 1 + start + i if dt == "int64" else start + i for i in range(count)]


def mk_prop(name, dt, shape, values, missing):
    return {"name": name, "dtype": dt, "shape": list(shape), "values": list(values), "missing": None if missing is None else list(missing)}


def count_of(shape):
    n = 1
    for d in shape:
        n *= d
    return n


# ---------------------------------------------------------------- generation
def mask_mode(mode, n):
    if mode == "none":
        return None
    if mode == "allfalse":
        return [False] * n
    if mode == "first":
        return [i == 0 for i in range(n)]
    return [i == n - 1 for i in range(n)]


def edges_for(n, e):
    if n == 0:
        return []
    return [[10 + (i % n), 10 + ((i * 2 + 1) % n)] for i in range(e)]


TRAILINGS = [t for m in range(4) for t in itertools.product((1, 2, 3), repeat=m)] + [(0,), (2, 0), (0, 2), (1, 0)]
PACK = 11   # shapes per generated graph (one property per shape and side)


def gen_exhaustive_frames():
    rot = ["float64", "str", "bool", "uint64"]
    idx = 0
    for n in range(4):
        e = {0: 0, 1: 2, 2: 3, 3: 1}[n]
        for mode in ("none", "allfalse", "first", "last"):
            for start in range(0, len(TRAILINGS), PACK):
                nprops, eprops = [], []
                for tr in TRAILINGS[start:start + PACK]:
                    tag = "x".join(map(str, tr)) or "s"
                    sh = (n,) + tr
                    nprops.append(mk_prop(f"n{tag}", "int64", sh, seq_values("int64", count_of(sh), idx), mask_mode(mode, n)))
                    dt = rot[idx % 4]
                    sh = (e,) + tr
                    eprops.append(mk_prop(f"e{tag}", dt, sh, seq_values(dt, count_of(sh), idx), mask_mode(mode, e)))
                    idx += 1
                yield {"kind": "frames", "zf": 2, "id_dtype": "uint8", "ids": [10 + i for i in range(n)], "edges": edges_for(n, e),
                       "nprops": nprops, "eprops": eprops, "block": "shapes"}
    # every dtype x mask mode x {1-D, 2-D} on one and on two rows
    for n in (1, 2):
        for mode in ("none", "allfalse", "first", "last"):
            nprops = []
            for k, dt in enumerate(ALL_DTYPES):
                for sh in ((n,), (n, 2)):
                    vals = ([rand_free_value(dt, k + i) for i in range(count_of(sh))])
                    nprops.append(mk_prop(f"{dt}_{len(sh)}d", dt, sh, vals, mask_mode(mode, n)))
            yield {"kind": "frames", "zf": 3, "id_dtype": "uint64", "ids": [2**64 - 1, 0][:n], "edges": [],
                   "nprops": nprops, "eprops": [], "block": "dtypes"}
    dts = ["int64", "float64", "str", "bool"]
    for bits in itertools.product((False, True), repeat=3):
        nprops = []
        for k, dt in enumerate(dts):
            for sh in ((3,), (3, 2), (3, 1, 2), (3, 2, 2)):
                nprops.append(mk_prop(f"{dt[0]}{len(sh)}{sh[-1]}", dt, sh, seq_values(dt, count_of(sh), k), list(bits)))
        yield {"kind": "frames", "zf": 3, "id_dtype": "int64", "ids": [5, 3, 4], "edges": [[5, 3], [3, 4], [4, 5]],
               "nprops": nprops, "eprops": [mk_prop("w", "int64", (3, 2), seq_values("int64", 6), list(bits))], "block": "masks"}


def rand_free_value(dt, i):
    """Boundary values of a dtype, cycled deterministically (dtype block)."""
    if dt == "bool":
        return i % 2 == 0
    if dt == "str":
        return STR_POOL[i % len(STR_POOL)]
    if dt in FLOAT_POOL:
        return FLOAT_POOL[dt][i % len(FLOAT_POOL[dt])]
    pool = int_pool(dt)
    return pool[-1 - (i % len(pool))]


def rand_shape(rng, n):
    m = rng.choice([0, 0, 0, 1, 1, 1, 2, 2, 3])
    return (n,) + tuple(rng.choice([1, 1, 2, 2, 3, 4]) for _ in range(m))


def rand_mask(rng, n):
    r = rng.random()
    if r < 0.35:
        return None
    if r < 0.45:
        return [False] * n
    if r < 0.5:
        return [True] * n
    return [rng.random() < 0.4 for _ in range(n)]


def rand_props(rng, n, names, csv_safe):
    props = []
    for name in names:
        dt = rng.choice(ALL_DTYPES)
        sh = rand_shape(rng, n)
        vals = [rand_value(rng, dt) for _ in range(count_of(sh))]
        if csv_safe and dt == "str":
            vals = [v if v != "" else "e" for v in vals]
        props.append(mk_prop(name, dt, sh, vals, rand_mask(rng, n)))
    return props


def rand_ids(rng, dt, n):
    info = np.iinfo(dt)
    if rng.random() < 0.5:
        base = rng.choice([0, 1, 10, max(0, info.max - 40)])
        ids = [base + i for i in range(n)]
    else:
        pool = int_pool(dt)
        pool = [v for v in pool if v >= 0] if rng.random() < 0.7 else pool
        ids = rng.sample(pool, min(n, len(pool)))
    rng.shuffle(ids)
    return ids


def rand_graph(rng, csv_safe=False, collide=0.0, maxn=6):
    n = rng.choice([0, 1, 1, 2, 2, 3, 4, maxn])
    dt = rng.choice(["uint8", "uint16", "int32", "int64", "uint64", "uint64"])
    ids = rand_ids(rng, dt, n)
    n = len(ids)
    e = 0 if n == 0 else rng.choice([0, 1, 1, 2, 3, maxn])
    edges = [[rng.choice(ids), rng.choice(ids)] for _ in range(e)]
    pool = [n for n in NAME_POOL if not (csv_safe and n == "p_2")]   # p_2 collides with a 2-D "p" of width >= 3
    rng.shuffle(pool)
    nn, ne = rng.randint(0, 4), rng.randint(0, 3)
    nnames, enames = pool[:nn], pool[4:4 + ne]
    if rng.random() < collide:
        nnames = nnames[:2] + ["p"] + rng.sample(COLLIDE_NODE, rng.randint(1, 2))
    if rng.random() < collide:
        enames = enames[:1] + ["p"] + rng.sample(COLLIDE_EDGE, rng.randint(1, 2))
    nprops = rand_props(rng, n, list(dict.fromkeys(nnames)), csv_safe)
    eprops = rand_props(rng, e, list(dict.fromkeys(enames)), csv_safe)
    if collide:
        for ps, cnt in ((nprops, n), (eprops, e)):
            for p in ps:
                if p["name"] == "p" and rng.random() < 0.8:   # make "p" 2-D so that p_0/p_1 exist twice
                    p["shape"] = [cnt, 2]
                    p["values"] = [rand_value(rng, p["dtype"]) for _ in range(2 * cnt)]
    return {"zf": rng.choice([2, 3]), "id_dtype": dt, "ids": ids, "edges": edges, "nprops": nprops, "eprops": eprops}


def gen_csv_exhaustive(rng):
    for via in ("api", "cli"):
        for pn, pe, ov in itertools.product((False, True), repeat=3):
            if via == "cli" and ov:
                continue
            g = rand_graph(rng, csv_safe=True, maxn=4)
            g.update({"kind": "csv", "pre_nodes": pn, "pre_edges": pe, "overwrite": ov, "via": via, "suffix": ".csv", "block": "csv-modes"})
            yield g


def _generate(rng: random.Random, tier: str):
    yield from gen_exhaustive_frames()
    yield from gen_csv_exhaustive(rng)
    nrand = 500 if tier == "quick" else 14000
    for _ in range(nrand):
        g = rand_graph(rng)
        g.update({"kind": "frames", "block": "random"})
        yield g
    for _ in range(150 if tier == "quick" else 3000):      # boundary stream: colliding / odd names, single rows
        g = rand_graph(rng, collide=0.7, maxn=2)
        g.update({"kind": "frames", "block": "collide"})
        yield g
    for _ in range(130 if tier == "quick" else 3000):
        g = rand_graph(rng, csv_safe=True, maxn=5)
        via = "cli" if rng.random() < 0.15 else "api"
        g.update({"kind": "csv", "pre_nodes": rng.random() < 0.25, "pre_edges": rng.random() < 0.25,
                  "overwrite": via == "api" and rng.random() < 0.5, "via": via,
                  "suffix": rng.choice([".csv", ".csv", "", ".tar.gz", ".v1.csv", ".txt"]), "block": "csv-random"})
        yield g
    # fx2011: the CSV text layer and pandas.read_csv with default arguments (harness/c17_csv.py)
    yield from c17_csv.generate(rng, tier, int_pool, FLOAT_POOL)


# ---------------------------------------------------------------- implementation
def to_arrays(c):
    ids = np.array(c["ids"], dtype=c["id_dtype"])
    edges = np.array(c["edges"], dtype=c["id_dtype"]).reshape(-1, 2)

    def props(ps):
        out = {}
        for p in ps:
            if p["dtype"] == "str":
                vals = np.array(p["values"], dtype="U" if p["values"] else "U1").reshape(p["shape"])
            else:
                vals = np.array(p["values"], dtype=p["dtype"]).reshape(p["shape"])
            out[p["name"]] = {"values": vals, "missing": None if p["missing"] is None else np.array(p["missing"], dtype=bool)}
        return out

    return ids, props(c["nprops"]), edges, props(c["eprops"])


def write_store(c, target):
    from geff.core_io import write_arrays
    from geff_spec import GeffMetadata

    ids, nprops, edges, eprops = to_arrays(c)
    md = GeffMetadata(directed=True, node_props_metadata={}, edge_props_metadata={})
    write_arrays(target, ids, nprops, edges, eprops, md, zarr_format=c["zf"])


def listing_order(store, c):
    """Order in which the store lists the property groups (zarr API only): the order of props.items()."""
    import zarr

    out = {}
    for side, key in (("nodes", "nprops"), ("edges", "eprops")):
        names = [p["name"] for p in c[key]]
        try:
            keys = [*zarr.open_group(store, path=f"{side}/props", mode="r").group_keys()]
        except Exception:
            keys = []
        out[key] = [k for k in keys if k in names] + [n for n in names if n not in keys]
    return out


def cell_py(v):
    """A DataFrame cell as a plain python value; None for NaN / NA / None."""
    import pandas as pd

    if v is None or v is pd.NA:
        return None
    if isinstance(v, (float, np.floating)) and v != v:
        return None
    if isinstance(v, np.generic):
        return v.item()
    return v


def frame_obs(df):
    return {"columns": [[str(col), [cell_py(v) for v in df[col].tolist()]] for col in df.columns], "rows": int(len(df))}


WARN_RE = re.compile(r"^(node|edge) (.*) \((\d+)D\) will not be exported", re.S)


def run_frames(store):
    from geff.convert import geff_to_dataframes

    with warnings.catch_warnings(record=True) as rec:
        warnings.simplefilter("always")
        ndf, edf = geff_to_dataframes(store)
    wn, we, wother = [], [], []
    for w in rec:
        m = WARN_RE.match(str(w.message))
        if m and issubclass(w.category, UserWarning):
            (wn if m.group(1) == "node" else we).append(m.group(2))
        else:
            wother.append(str(w.message)[:80])
    return {"res": "ok", "nodes": frame_obs(ndf), "edges": frame_obs(edf), "warn_nodes": wn, "warn_edges": we, "warn_other": wother}


def parse_csv(path):
    """The CSV read back with pandas: raw cell text (exact) and the default typed parse of the id columns."""
    import pandas as pd

    raw = pd.read_csv(path, dtype=str, keep_default_na=False)
    cols = [col for k, col in enumerate(raw.columns) if not (k == 0 and str(col).startswith("Unnamed: 0"))]   # row labels
    out = {"columns": [[str(col), [str(v) for v in raw[col].tolist()]] for col in cols], "rows": int(len(raw))}
    typed = pd.read_csv(path)
    ids = {}
    for col in ("id", "source", "target"):
        if col in typed.columns:
            ids[col] = [cell_py(v) for v in typed[col].tolist()]
    out["typed_ids"] = ids
    out["default"] = c17_csv.read_default(path)       # fx2011: the whole table as default read_csv shows it
    return out


def run_one(c):
    from zarr.storage import MemoryStore

    if c["kind"] == "csvtext":
        return c17_csv.run_csvtext(c, write_store, listing_order)
    if c["kind"] == "read":
        return c17_csv.run_read(c)
    if c["kind"] == "consts":
        return c17_csv.run_consts()
    if c["kind"] == "frames":
        store = MemoryStore()
        write_store(c, store)
        order = listing_order(store, c)
        try:
            o = run_frames(store)
        except Exception as ex:
            o = {"res": "err", "exc": exn_name(ex), "msg": str(ex)[:120]}
        o["order"] = order
        return o
    d = Path(tempfile.mkdtemp(prefix="c17-"))
    try:
        if c["via"] == "cli":
            store = d / "g.geff"
            write_store(c, store)
        else:
            store = MemoryStore()
            write_store(c, store)
        order = listing_order(store, c)
        stem = "out"
        outpath = d / (stem + c["suffix"])
        # independent of Path.with_suffix: the text after the last dot of the file name is dropped
        base = stem + c["suffix"]
        expect_stem = base[:base.rindex(".")] if "." in base[1:] else base
        files = {"nodes": d / f"{expect_stem}-nodes.csv", "edges": d / f"{expect_stem}-edges.csv"}
        for k in ("nodes", "edges"):
            if c[f"pre_{k}"]:
                files[k].write_bytes(OLD_BYTES)
        before = sorted(p.name for p in d.iterdir())
        with warnings.catch_warnings():
            warnings.simplefilter("ignore")
            if c["via"] == "cli":
                from typer.testing import CliRunner

                from geff._cli import app

                r = CliRunner().invoke(app, ["convert-to-csv", str(store), str(outpath)])
                exc = r.exception if r.exit_code != 0 else None
                if exc is None and r.exit_code != 0:
                    exc = RuntimeError(f"exit {r.exit_code}")
            else:
                from geff.convert import geff_to_csv

                try:
                    geff_to_csv(store, outpath, overwrite=c["overwrite"])
                    exc = None
                except Exception as ex:  # noqa: BLE001
                    exc = ex
        o = {"res": "ok" if exc is None else "err", "order": order}
        if exc is not None:
            o["exc"] = exn_name(exc)
            o["msg"] = str(exc)[:120]
        after = sorted(p.name for p in d.iterdir())
        o["new_files"] = [f for f in after if f not in before]
        for k in ("nodes", "edges"):
            p = files[k]
            if not p.exists():
                o[k] = "absent"
            elif p.read_bytes() == OLD_BYTES:
                o[k] = "old"
            else:
                try:
                    o[k] = parse_csv(p)
                except Exception as ex:  # noqa: BLE001
                    o[k] = {"unparsable": f"{type(ex).__name__}: {str(ex)[:100]}"}
        return o
    finally:
        shutil.rmtree(d, ignore_errors=True)


# ---------------------------------------------------------------- parallel execution of the implementation
# zarr makes every store access cost milliseconds; the generated cases are independent, so their observations are
# computed in worker processes (spawned, never forked: zarr runs an event-loop thread) the first time run_impl is asked
# for one of them.  Replayed / shrunk / searched cases are run directly.
_CASES: list = []
_INDEX: dict = {}
_OBS: list | None = None


def generate(rng: random.Random, tier: str):
    global _OBS
    _CASES[:] = list(_generate(rng, tier))
    _INDEX.clear()
    _INDEX.update({id(c): i for i, c in enumerate(_CASES)})
    _OBS = None
    return list(_CASES)


def _worker_init():
    import warnings as w

    from harness import common

    common.pin_environment()
    w.simplefilter("ignore")


def _run_chunk(chunk):
    out = []
    for c in chunk:
        try:
            out.append(("ok", run_one(c)))
        except Exception:  # noqa: BLE001
            import traceback

            out.append(("crash", traceback.format_exc()))
    return out


def _run_all():
    import multiprocessing as mp
    from concurrent.futures import ProcessPoolExecutor

    nproc = int(os.environ.get("C17_WORKERS", "0") or 0) or max(1, min(12, (os.cpu_count() or 2) - 2))
    size = 12
    chunks = [_CASES[i:i + size] for i in range(0, len(_CASES), size)]
    if nproc <= 1 or len(_CASES) < 50:
        res = [_run_chunk(ch) for ch in chunks]
    else:
        with ProcessPoolExecutor(max_workers=nproc, mp_context=mp.get_context("spawn"), initializer=_worker_init) as ex:
            res = list(ex.map(_run_chunk, chunks))
    flat = [r for ch in res for r in ch]
    for (tag, val), c in zip(flat, _CASES):
        if tag == "crash":
            raise HarnessError(f"run_impl crashed on {c!r}: {val}")
    return [val for _, val in flat]


def run_impl(c):
    global _OBS
    i = _INDEX.get(id(c))
    if i is None or _CASES[i] is not c:
        return run_one(c)
    if _OBS is None:
        _OBS = _run_all()
    return _OBS[i]


# ---------------------------------------------------------------- value tokens (Coq payloads)
def enc_value(dt, v):
    """Opaque integer payload of a stored value: ints/bools as themselves, floats by the bits of the
    value as float64, strings by their UTF-8 bytes."""
    if dt == "str":
        return int.from_bytes(b"\x01" + str(v).encode("utf-8"), "big")
    if dt == "bool":
        return 1 if v else 0
    if dt.startswith("float"):
        return struct.unpack("<Q", struct.pack("<d", float(np.dtype(dt).type(v))))[0]
    return int(v)


def enc_cell(dt, v):
    """A DataFrame cell (python value or None) as a Coq cell, read at the dtype of its source."""
    if v is None:
        return "NaN"
    if dt == "str":
        return f"(Val {cz(enc_value('str', v))})" if isinstance(v, str) else None
    if dt == "bool":
        if isinstance(v, (bool, np.bool_)) or v in (0, 1):
            return f"(Val {cz(1 if v else 0)})"
        return None
    if dt.startswith("float"):
        if isinstance(v, (int, float)) and not isinstance(v, bool):
            return f"(Val {cz(struct.unpack('<Q', struct.pack('<d', float(v)))[0])})"
        return None
    if isinstance(v, bool):
        return None
    if isinstance(v, int):
        return f"(Val {cz(v)})"
    if isinstance(v, float) and abs(v) != float("inf") and v == int(v):
        return f"(Val {cz(int(v))})"      # 5.0 is the value 5; a rounded 2^53+1 is a different payload
    return None


def parse_text(dt, s):
    """CSV cell text -> python value at the column's dtype ('' = empty cell)."""
    if s == "":
        return None
    try:
        if dt == "str":
            return s
        if dt == "bool":
            return {"True": True, "False": False}[s]
        if dt.startswith("float"):
            return float(np.dtype(dt).type(s))
        if re.fullmatch(r"-?\d+", s):
            return int(s)
        f = float(s)
        return int(f) if f == int(f) and abs(f) < 2**53 else f
    except Exception:  # noqa: BLE001
        return ("unparsable", s)


def column_sources(c, key, idnames):
    """column name -> dtype of the source(s) that may produce it (id columns and exported properties)."""
    src = {n: [c["id_dtype"]] for n in idnames}
    for p in c[key]:
        for alt in alternatives(p):
            for name, _ in alt["columns"]:
                src.setdefault(name, [])
                if p["dtype"] not in src[name]:
                    src[name].append(p["dtype"])
    return src


def coq_prop(p):
    vals = clist([enc_value(p["dtype"], v) for v in p["values"]], cz)
    return (f"(mkProp {cstr(p['name'])} {clist(p['shape'], cnat)} {vals} "
            f"{copt(p['missing'], lambda m: clist(m, cbool))})")


def coq_graph(c, order):
    def ordered(key):
        byname = {p["name"]: p for p in c[key]}
        return [byname[n] for n in order[key]]

    edges = clist(c["edges"], lambda e: f"({cz(e[0])}, {cz(e[1])})")
    return (f"(mkGraph {clist(c['ids'], cz)} {clist(ordered('nprops'), coq_prop)} {edges} "
            f"{clist(ordered('eprops'), coq_prop)})")


def enc_typed_cell(v):
    """A DataFrame cell by its own python type (independent of any source property)."""
    if v is None:
        return "NaN"
    if isinstance(v, (bool, np.bool_)):
        return f"(Val {cz(1 if v else 0)})"
    if isinstance(v, int):
        return f"(Val {cz(v)})"
    if isinstance(v, float):
        return f"(Val {cz(struct.unpack('<Q', struct.pack('<d', v))[0])})"
    if isinstance(v, str):
        return f"(Val {cz(enc_value('str', v))})"
    return None


def coq_table(c, key, idnames, columns, from_text=False):
    """Observed columns -> Coq table.  DataFrame cells are encoded by their own type; CSV text is read at the dtype
    of the column's source.  None when a cell cannot be encoded."""
    src = column_sources(c, key, idnames)
    cols = []
    for name, cells in columns:
        enc = None
        if not from_text:
            enc = [enc_typed_cell(v) for v in cells]
            if any(x is None for x in enc):
                return None
        else:
            for dt in src.get(name, ["str"]):
                vals = [parse_text(dt, s) for s in cells]
                if any(isinstance(v, tuple) for v in vals):
                    continue
                e = [enc_cell(dt, v) for v in vals]
                if all(x is not None for x in e):
                    enc = e
                    break
            if enc is None:
                return None
        cols.append(f"({cstr(name)}, {clist(enc)})")
    return clist(cols)


def order_from_columns(c, key, listed, colnames):
    pos = {n: i for i, n in reversed(list(enumerate(colnames)))}
    byname = {p["name"]: p for p in c[key]}

    def first(name):
        cands = [pos[nm] for alt in alternatives(byname[name]) for nm, _ in alt["columns"] if nm in pos]
        return min(cands) if cands else len(colnames) + listed.index(name)

    return sorted(listed, key=first)


def names_ok(c):
    names = [p["name"] for p in c["nprops"] + c["eprops"]]
    return all(all(ord(ch) >= 32 for ch in n) for n in names)


def coq_case(c, o):
    if c["kind"] in ("csvtext", "read", "consts"):
        return c17_csv.coq_case(c, o)
    if not names_ok(c):
        return None
    g = coq_graph(c, o["order"])
    if c["kind"] == "frames":
        if o["res"] == "err":
            return f"(IFrames {g}, OFrames (Err {o['exc']}))"
        nt = coq_table(c, "nprops", ["id"], o["nodes"]["columns"])
        et = coq_table(c, "eprops", ["source", "target"], o["edges"]["columns"])
        if nt is None or et is None:
            # a cell that is not a value of its column's dtype: let the case fail in Coq (and in the oracle)
            return f"(IFrames {g}, OFrames (Err OtherExn))"
        wn, we = clist(o["warn_nodes"], cstr), clist(o["warn_edges"], cstr)
        return f"(IFrames {g}, OFrames (Ok (({nt}, {wn}), ({et}, {we}))))"
    # a directory store lists its groups in no fixed order (zarr gathers them concurrently): for the CSV cases the
    # property order is read off the columns that were written (column order is not part of the property)
    order = dict(o["order"])
    for k, key in (("nodes", "nprops"), ("edges", "eprops")):
        if isinstance(o[k], dict) and "columns" in o[k]:
            order[key] = order_from_columns(c, key, o["order"][key], [n for n, _ in o[k]["columns"]])
    g = coq_graph(c, order)
    fobs = []
    for k, key, idn in (("nodes", "nprops", ["id"]), ("edges", "eprops", ["source", "target"])):
        f = o[k]
        if f == "absent":
            fobs.append("FAbsent")
        elif f == "old":
            fobs.append("FOld")
        elif "unparsable" in f:
            fobs.append("(FNew [])")
        else:
            t = coq_table(c, key, idn, f["columns"], from_text=True)
            fobs.append("(FNew [])" if t is None else f"(FNew {t})")
    r = "(Ok tt)" if o["res"] == "ok" else f"(Err {o['exc']})"
    return (f"(ICsv {cbool(c['pre_nodes'])} {cbool(c['pre_edges'])} {cbool(c['overwrite'])} {cbool(c['via'] == 'cli')} {g}, "
            f"OCsv {r} {fobs[0]} {fobs[1]})")


# ---------------------------------------------------------------- oracle (from the property text)
def alternatives(p):
    """Acceptable outcomes for one property: list of {"columns": [(name, component index j)], "k": components per row,
    "warn": bool}.  Rank is read from the stored shape; singleton trailing axes are where the text is open (see ASSUMPTIONS)."""
    name, shape = p["name"], p["shape"]
    rank = len(shape)
    nons = [d for d in shape[1:] if d != 1]
    if rank == 1:
        return [{"columns": [(name, 0)], "k": 1, "warn": False}]
    if rank == 2:
        k = shape[1]
        alts = [{"columns": [(f"{name}_{j}", j) for j in range(k)], "k": k, "warn": False}]
        if k == 1:
            alts.append({"columns": [(name, 0)], "k": 1, "warn": False})
        return alts
    alts = [{"columns": [], "k": 0, "warn": True}]
    if len(nons) == 0:
        alts.append({"columns": [(name, 0)], "k": 1, "warn": False})
    elif len(nons) == 1:
        k = nons[0]
        alts.append({"columns": [(f"{name}_{j}", j) for j in range(k)], "k": k, "warn": False})
    return alts


def stored_value(p, i, j, k):
    return p["values"][i * k + j]


def same_value(dt, cell, v):
    """'holding the same values': numerically equal for numbers, identical for strings and booleans."""
    if cell is None:
        return isinstance(v, float) and v != v
    if dt == "str":
        return isinstance(cell, str) and cell == v
    if dt == "bool":
        return isinstance(cell, (bool, np.bool_)) and bool(cell) == bool(v)
    if isinstance(cell, (bool, str)):
        return False
    if dt.startswith("float"):
        return float(cell) == float(np.dtype(dt).type(v))
    if isinstance(cell, float):
        return abs(cell) != float("inf") and cell == int(cell) and int(cell) == int(v)
    return int(cell) == int(v)


def check_table(c, key, idcols, rows, columns, warned, what, from_text=False):
    """Returns (why, message) or None.  `columns` = [[name, cells]], cells python values (or CSV text)."""
    props = c[key]
    n = rows
    got = {}
    for name, cells in columns:
        if name in got:
            return "duplicate-column", f"{what}: column {name!r} appears twice"
        got[name] = cells
    # names claimed by more than one source, under any accepted reading
    claims = {}
    for name, _ in idcols:
        claims[name] = claims.get(name, 0) + 1
    for p in props:
        for name in {nm for alt in alternatives(p) for nm, _ in alt["columns"]}:
            claims[name] = claims.get(name, 0) + 1
    collide = lambda names: any(claims.get(nm, 0) > 1 for nm in names)  # noqa: E731

    for name, cells in columns:
        if len(cells) != n:
            return "row-count", f"{what}: column {name!r} has {len(cells)} cells for {n} rows"
    for name, ids in idcols:
        if name not in got:
            return ("name-collision" if collide([name]) else "id-column"), f"{what}: no column {name!r}"
        cells = [parse_text(c["id_dtype"], s) for s in got[name]] if from_text else got[name]
        if len(cells) != len(ids) or any(not same_value(c["id_dtype"], a, b) for a, b in zip(cells, ids)):
            return ("name-collision" if collide([name]) else "id-column"), f"{what}: column {name!r} is {cells[:6]}, stored ids are {ids[:6]}"
    if n != len(idcols[0][1]):
        return "row-count", f"{what}: {n} rows for {len(idcols[0][1])} stored entries"
    idnames = {name for name, _ in idcols}
    passing = []          # per property: the accepted readings that hold on their own
    for p in props:
        verdicts, good = [], []
        for alt in alternatives(p):
            names = [nm for nm, _ in alt["columns"]]
            bad = None
            if alt["warn"]:
                if warned is not None and p["name"] not in warned:
                    bad = ("no-warning", f"{what}: rank-{len(p['shape'])} property {p['name']!r} left out without a warning")
                elif any(nm in got and claims.get(nm, 0) == 1 for alt2 in alternatives(p) for nm, _ in alt2["columns"]):
                    bad = ("not-left-out", f"{what}: property {p['name']!r} warned about but exported")
            else:
                for nm, j in alt["columns"]:
                    if nm not in got:
                        bad = ("missing-column", f"{what}: property {p['name']!r} shape {p['shape']}: no column {nm!r}")
                        break
                    cells = [parse_text(p["dtype"], s) for s in got[nm]] if from_text else got[nm]
                    for i in range(n):
                        miss = bool(p["missing"][i]) if p["missing"] is not None else False
                        cell = cells[i]
                        if miss:
                            if cell is not None:
                                bad = ("missing-not-empty", f"{what}: {nm!r} row {i} is flagged missing but holds {cell!r}")
                                break
                        elif not same_value(p["dtype"], cell, stored_value(p, i, j, alt["k"])):
                            bad = ("cell-value", f"{what}: {nm!r} row {i} holds {cell!r}, stored value is "
                                                 f"{stored_value(p, i, j, alt['k'])!r} ({p['dtype']}, shape {p['shape']})")
                            break
                    if bad:
                        break
            if bad is None:
                good.append(frozenset(names))
            else:
                verdicts.append((bad, names))
        if not good:
            # report the reading the implementation is closest to: prefer an alternative whose columns exist
            verdicts.sort(key=lambda t: 0 if t[1] and all(nm in got for nm in t[1]) else 1)
            (why, msg), names = verdicts[0]
            allnames = {nm for alt in alternatives(p) for nm, _ in alt["columns"]}
            if collide(allnames):
                why = "name-collision"
            return why, msg
        passing.append(list(dict.fromkeys(good)))
    # one reading per property such that every column is claimed by some source (a column that satisfies two
    # sources at once -- e.g. a property called "id" on a graph without nodes -- is not a failure)
    others = set(got) - idnames
    combos = 1
    for g in passing:
        combos *= len(g)
    extra = sorted(others)
    for choice in (itertools.product(*passing) if combos <= 4096 else [tuple(g[-1] for g in passing)]):
        used = set(idnames).union(*choice) if choice else set(idnames)
        extra = sorted(others - used)
        if not extra:
            return None
    return "extra-column", f"{what}: columns {extra} come from no property"


def oracle(c, o):
    tags = {"kind": c["kind"]}
    if c["kind"] in ("read", "consts"):
        return None                                   # reader model / constants: correspondence only
    if c["kind"] == "csvtext":
        return c17_csv.oracle_csvtext(c, o, alternatives)
    idn = [("id", c["ids"])]
    ide = [("source", [e[0] for e in c["edges"]]), ("target", [e[1] for e in c["edges"]])]
    if c["kind"] == "frames":
        if o["res"] == "err":
            return Failure(c, o, f"geff_to_dataframes raised {o['exc']}: {o.get('msg')}", {**tags, "why": "raises"})
        for key, idcols, side, warned in (("nprops", idn, "nodes", o["warn_nodes"]), ("eprops", ide, "edges", o["warn_edges"])):
            r = check_table(c, key, idcols, o[side]["rows"], o[side]["columns"], warned, f"{side} table")
            if r:
                return Failure(c, o, r[1], {**tags, "why": r[0]})
        return None
    # csv
    pre = {"nodes": c["pre_nodes"], "edges": c["pre_edges"]}
    request = c["overwrite"] and c["via"] == "api"
    for k in ("nodes", "edges"):
        if pre[k] and not request and o[k] != "old":
            return Failure(c, o, f"existing {k} csv replaced or removed without overwrite", {**tags, "why": "clobbered"})
    if o["res"] == "err":
        if not (pre["nodes"] or pre["edges"]) or request:
            return Failure(c, o, f"geff_to_csv raised {o['exc']}: {o.get('msg')}", {**tags, "why": "raises"})
        # a refused export (either file exists, overwrite not requested): FileExistsError, and the target is what it was -- no file
        # created, none removed (C06: refusal without mutation; before the repair an existing edges file let the nodes file be written)
        if o["exc"] != "FileExistsError":
            return Failure(c, o, f"refused export raised {o['exc']} instead of FileExistsError", {**tags, "why": "refusal-class"})
        for k in ("nodes", "edges"):
            if not pre[k] and o[k] != "absent":
                return Failure(c, o, f"refused export created the {k} csv beside the existing {'edges' if k == 'nodes' else 'nodes'} csv",
                               {**tags, "why": "refusal-mutates"})
        if o["new_files"]:
            return Failure(c, o, f"refused export created {o['new_files']}", {**tags, "why": "refusal-mutates"})
        return None
    # the call reported success: both tables must be on disk under the documented names and parse back
    for key, idcols, k in (("nprops", idn, "nodes"), ("eprops", ide, "edges")):
        f = o[k]
        if f in ("absent", "old"):
            return Failure(c, o, f"call succeeded but the {k} csv is {f}", {**tags, "why": "not-written"})
        if "unparsable" in f:
            return Failure(c, o, f"{k} csv does not parse: {f['unparsable']}", {**tags, "why": "unparsable"})
        r = check_table(c, key, idcols, f["rows"], f["columns"], None, f"{k} csv", from_text=True)
        if r:
            return Failure(c, o, r[1], {**tags, "why": r[0]})
        for name, ids in idcols:
            if f["typed_ids"].get(name) != ids:
                return Failure(c, o, f"{k} csv: pandas.read_csv gives {name}={f['typed_ids'].get(name)}, stored {ids}",
                               {**tags, "why": "csv-ids"})
    # fx2011: the observation point of the property is pandas.read_csv with default arguments
    return c17_csv.default_failure(c, o, tags, alternatives)


# ---------------------------------------------------------------- evidence helpers
def nontrivial(c, o):
    if c["kind"] in ("read", "consts"):
        return c["kind"] == "read"
    return bool(c["nprops"] or c["eprops"])


def describe(c, o):
    if c["kind"] in ("read", "consts"):
        return f"{c['kind']}:{c.get('block')}"
    props = c["nprops"] + c["eprops"]
    maxrank = max([len(p["shape"]) for p in props], default=0)
    masked = any(p["missing"] and any(p["missing"]) for p in props)
    n = len(c["ids"])
    base = f"{c['kind']}:{c.get('block')}:n={n if n < 2 else '2+'}:maxrank={maxrank}:mask={'y' if masked else 'n'}:zarr{c['zf']}"
    if c["kind"] == "csvtext":
        base = f"csvtext:{c.get('block')}:n={n if n < 2 else '2+'}:mask={'y' if masked else 'n'}"
    if c["kind"] == "csv":
        base = (f"csv:{c.get('block')}:pre={int(c['pre_nodes'])}{int(c['pre_edges'])}:ov={int(c['overwrite'])}:{c['via']}:"
                f"{o['res'] if o['res'] == 'ok' else o.get('exc')}")
    return base


def shrink(c):
    """Greedy structural shrink: drop properties, then rows, while the oracle still fails."""
    def fails(x):
        try:
            return oracle(x, run_one(x)) is not None
        except Exception:  # noqa: BLE001
            return False

    cur = c
    changed = "nprops" in c
    while changed:
        changed = False
        for key in ("nprops", "eprops"):
            for i in range(len(cur[key])):
                cand = {**cur, key: cur[key][:i] + cur[key][i + 1:]}
                if fails(cand):
                    cur, changed = cand, True
                    break
            if changed:
                break
    return cur


def load_case(c):
    """Replay files spell non-finite floats as text."""
    for p in c.get("nprops", []) + c.get("eprops", []):
        if p["dtype"].startswith("float"):
            p["values"] = [float(v) for v in p["values"]]
    return c


def search(rng, budget):
    yield from _generate(rng, "thorough")


def extra_coverage():
    return {"default_read_csv_differences_with_a_reader_side_cause (observations, not failures)": dict(c17_csv.READER_SIDE_STATS)}
