"""C15 -- CTC conversion produces exactly the tracked graph of the dataset.

Synthetic Cell Tracking Challenge results are written as real TIFF frames plus man_track.txt / res_track.txt,
converted with geff.convert.from_ctc_to_geff (or `geff convert-ctc`), and observed through read_to_memory, the
real validators, the exported label volume and the recorded related-object path.

Correspondence: regionprops output (label, exact centroid) per frame + table + call parameters + the tree found at the
target -> Ctc.v (from_ctc_to_geff ; read_to_memory) evaluated in Coq.
Oracle: independent reconstruction of the tracked graph from the pixel arrays and the table (centroid = mean of the
pixel coordinates), the tracklet definition restated, label volume and related path checked on disk.
"""
from __future__ import annotations

import itertools
import os
import random
import shutil
from collections import Counter
from fractions import Fraction
from pathlib import Path

import numpy as np

from harness.common import WORK, Failure, HarnessError, cbool, clist, cnat, copt, cstr, cz, exn_name

PROP = "C15"
PARALLEL = True
RULE = ("exhaustive block: every dataset with T<=3 frames over the label sets {1}, {1,2}, {1,2,4} where each label has a "
        "non-empty presence set and parent in {0} + labels ending earlier (723 datasets; quick: all 131 with T<=2 or <=2 labels plus "
        "every 4th of the 592 with 3 frames and 3 labels; thorough: all, 2-D without segmentation target and again 3-D with a Path "
        "target, tczyx, zarr 3), rows in label order; fixed boundary datasets x 2-D/3-D x target x tczyx; random consistent lineage "
        "forests (T 1..6, up to 6 labels from a pool with gaps incl. 65535, gaps in presence, 1/2/3 children, late children, "
        "shuffled rows, one-row tables, two-piece regions) x 2-D/3-D x frame dtype x man_track/res_track naming x segmentation "
        "target {none, Path, str, LocalStore, MemoryStore} (sibling / nested / inside the zarr container) x tczyx x zarr_format "
        "x overwrite x pre-existing geff (either format) / pre-existing label array x API/CLI; malformed stream (row or parent "
        "without nodes, duplicate rows, self parent, negative parent, empty table, no labels, no frames, no table, no directory); "
        "non-trivial = at least 2 nodes and the conversion ran; distinct by structural input")
EXHAUSTIVE_BLOCKS = ["thorough: all 723 consistent datasets with T<=3 frames and label sets {1}, {1,2}, {1,2,4} (every non-empty presence set per "
                     "label x every admissible parent assignment), 2-D without segmentation target and again 3-D with a Path target, tczyx, zarr 3",
                     "quick: the 131 of them with T<=2 or at most 2 labels (exhaustive) plus every 4th of the remaining 592"]
ASSUMPTIONS = [
    "abstraction boundary: skimage.measure.regionprops (one region per label present, ascending labels, centroid = mean pixel "
    "coordinate); tifffile, dask and zarr array I/O of the label volume are runtime (volume content checked by the oracle only)",
    "centroids in the correspondence are exact multiples of 2^-10 (boxes and equal-volume two-piece regions); other shapes are oracle-only",
    "the geff path carries the suffix .geff (from_ctc_to_geff rewrites any other suffix; documented usage names the geff directory)",
    "frame files sort in time order (fixed-width numbering) and all frames of a dataset share shape and dtype",
    "a pre-existing target directory holds exactly a geff written by the library (foreign content at the target is C06's subject)",
    "os.path.relpath is modelled on absolute normalised paths without symlinks",
]

LABEL_POOL = [1, 2, 4, 7, 9, 12, 300, 65535]
BAND = 3          # rows reserved per label slot
WIDTH = 9


# --------------------------------------------------------------------------
# dataset description -> pixel arrays
# --------------------------------------------------------------------------
def slots_of(case) -> dict:
    labs = sorted({r["label"] for f in case["frames"] for r in f})
    return {l: i for i, l in enumerate(labs)}


def frame_shape(case) -> tuple:
    k = max(1, case.get("nslots", 1))
    yx = (BAND * k, WIDTH)
    return (case["depth"],) + yx if case["ndim"] == 3 else yx


def frame_array(case, t) -> np.ndarray:
    a = np.zeros(frame_shape(case), dtype=case["dtype"])
    for r in case["frames"][t]:
        for lo, hi in r["boxes"]:
            a[tuple(slice(x, y) for x, y in zip(lo, hi))] = r["label"]
    return a


def image_array(case, t) -> np.ndarray:
    """a raw image for frame t (the --input-image-dir of `geff convert-ctc`): every pixel distinct, frames distinct"""
    shape = frame_shape(case)
    n = int(np.prod(shape))
    return ((np.arange(n, dtype="int64") * 7 + 13 * t + 1) % 60000).astype("uint16").reshape(shape)


def exact_centroid(r) -> list:
    """Mean pixel coordinate of a union of disjoint boxes, per axis, as Fractions."""
    nd = len(r["boxes"][0][0])
    vols = []
    for lo, hi in r["boxes"]:
        v = 1
        for x, y in zip(lo, hi):
            v *= (y - x)
        vols.append(v)
    tot = sum(vols)
    return [sum(Fraction(v) * Fraction(lo[k] + hi[k] - 1, 2) for v, (lo, hi) in zip(vols, r["boxes"])) / tot for k in range(nd)]


def mk_region(rng, label, slot, ndim, depth, pieces=1, odd=False):
    y0 = BAND * slot + rng.randint(0, 1)
    h = rng.randint(1, BAND - (y0 - BAND * slot))
    if odd:
        # an L of three pixels: centroid coordinates are thirds (not dyadic) -> oracle-only
        boxes2 = [[[y0, 0], [y0 + 1, 2]], [[y0 + 1, 0], [y0 + 2, 1]]]
    elif pieces == 2:
        w = rng.randint(1, 3)
        x0 = rng.randint(0, WIDTH - 2 * w - 1)
        gap = rng.randint(1, WIDTH - 2 * w - x0)
        boxes2 = [[[y0, x0], [y0 + h, x0 + w]], [[y0, x0 + w + gap], [y0 + h, x0 + 2 * w + gap]]]
    else:
        w = rng.randint(1, 4)
        x0 = rng.randint(0, WIDTH - w)
        boxes2 = [[[y0, x0], [y0 + h, x0 + w]]]
    if ndim == 3:
        z0 = rng.randint(0, depth - 1)
        dz = rng.randint(1, depth - z0)
        boxes2 = [[[z0, *lo], [z0 + dz, *hi]] for lo, hi in boxes2]
    return {"label": label, "boxes": boxes2}


# --------------------------------------------------------------------------
# generators
# --------------------------------------------------------------------------
def base_case(**kw):
    c = {"kind": "ctc", "cls": "consistent", "ndim": 2, "depth": 1, "dtype": "uint16", "frames": [], "table": [], "nslots": 1,
         "table_name": "man_track.txt", "prefix": "man_track", "ctc_rel": "01_GT/TRA", "geff_rel": "out.geff",
         "seg": "none", "seg_rel": "seg.zarr", "tczyx": False, "fmt": 2, "overwrite": False,
         "pre_geff": None, "pre_seg": None, "via": "api"}
    c.update(kw)
    return c


def dataset_from_presence(rng, T, presence: dict, parents: dict, ndim=2, depth=1, two_piece=0.0, odd=0.0, rows="sorted"):
    """presence: label -> sorted list of frames; parents: label -> parent label or 0."""
    labs = sorted(presence)
    slot = {l: i for i, l in enumerate(labs)}
    frames = []
    for t in range(T):
        fr = []
        for l in labs:
            if t in presence[l]:
                fr.append(mk_region(rng, l, slot[l], ndim, depth, pieces=2 if rng.random() < two_piece else 1, odd=rng.random() < odd))
        frames.append(fr)
    table = [[l, presence[l][0], presence[l][-1], parents.get(l, 0)] for l in labs]
    if rows == "shuffled":
        rng.shuffle(table)
    elif rows == "reversed":
        table.reverse()
    return {"frames": frames, "table": table, "nslots": len(labs), "ndim": ndim, "depth": depth}


def rand_forest(rng, T, maxk):
    """A consistent lineage forest: label -> presence frames, label -> parent."""
    pool = rng.sample(LABEL_POOL, min(maxk, len(LABEL_POOL)))
    presence, parents = {}, {}
    queue = [(rng.choice([0, 0, 0, 1]) if T > 1 else 0, 0) for _ in range(rng.choice([1, 1, 2]))]
    while queue and pool:
        b, p = queue.pop(0)
        if b >= T:
            continue
        l = pool.pop()
        e = rng.randint(b, T - 1) if rng.random() < 0.8 else b
        pres = sorted({b, e} | {t for t in range(b + 1, e) if rng.random() < 0.65})
        presence[l], parents[l] = pres, p
        if e + 1 < T and rng.random() < 0.75:
            for _ in range(rng.choice([1, 2, 2, 3])):
                queue.append((e + 1 + (1 if rng.random() < 0.2 else 0), l))
    return presence, parents


def exhaustive_block(tier):
    labs = [1, 2, 4]
    r = random.Random(15)
    settings = [dict(ndim=2, depth=1)]
    if tier == "thorough":
        settings.append(dict(ndim=3, depth=2, seg="path", tczyx=True, fmt=3))
    count = 0
    for st in settings:
        call = {k: v for k, v in st.items() if k not in ("ndim", "depth")}
        for T in (1, 2, 3):
            subsets = [list(s) for n in range(1, T + 1) for s in itertools.combinations(range(T), n)]
            for k in range(1, len(labs) + 1):
                use = labs[:k]
                for pres in itertools.product(subsets, repeat=k):
                    presence = dict(zip(use, pres))
                    options = []
                    for l in use:
                        options.append([0] + [p for p in use if p != l and presence[p][-1] < presence[l][0]])
                    for par in itertools.product(*options):
                        ds = dataset_from_presence(r, T, presence, dict(zip(use, par)), ndim=st["ndim"], depth=st["depth"])
                        count += 1
                        if tier == "quick" and T == 3 and k == 3 and count % 4:
                            continue          # quick: every 4th of the 592 datasets with 3 frames and 3 labels
                        yield base_case(**ds, **call, origin="exhaustive")


def variants(rng, c):
    """call parameters / pre-states around a dataset"""
    c["table_name"] = rng.choice(["man_track.txt", "man_track.txt", "res_track.txt", "both"])
    c["prefix"], c["ctc_rel"] = rng.choice([("man_track", "01_GT/TRA"), ("mask", "01_RES"), ("man_track", "tra")])
    c["dtype"] = rng.choice(["uint16", "uint16", "uint8", "int32", "uint32"])
    if c["dtype"] == "uint8" and any(r["label"] > 255 for f in c["frames"] for r in f):
        c["dtype"] = "uint16"
    c["seg"] = rng.choice(["none", "none", "path", "path", "str", "store", "mem"])
    c["geff_rel"], c["seg_rel"] = rng.choice([("out.geff", "seg.zarr"), ("data.zarr/tracks.geff", "data.zarr/seg"),
                                               ("a/b/tracks.geff", "seg.zarr"), ("g.geff", "deep/er/labels.zarr"),
                                               ("res/x.geff", "res/x_seg.zarr")])
    c["tczyx"] = rng.random() < 0.4
    c["fmt"] = rng.choice([2, 3])
    c["overwrite"] = rng.random() < 0.35
    if rng.random() < 0.2:
        c["pre_geff"] = rng.choice([2, 3])
    if c["seg"] in ("path", "str", "store") and rng.random() < 0.2:
        c["pre_seg"] = rng.choice([2, 3])
    if c["seg"] in ("none", "path") and rng.random() < 0.15:
        c["via"] = "cli"
        c["img"] = rng.random() < 0.6           # --input-image-dir / --output-image-path (ctc_tiffs_to_zarr)
    return c


def malform(rng, c):
    k = rng.choice(["row_absent_label", "row_absent_label_parent", "absent_parent", "dup_row", "self_parent", "neg_parent",
                    "empty_table", "no_labels", "no_frames", "no_table", "no_dir", "label_without_row"])
    c["cls"] = "malformed:" + k
    labs = sorted({r["label"] for f in c["frames"] for r in f})
    free = [l for l in (3, 5, 6, 8) if l not in labs]
    if k == "row_absent_label":
        c["table"].append([free[0], 0, 0, 0])
    elif k == "row_absent_label_parent":
        c["table"].append([free[0], 0, 0, labs[0]])
    elif k == "absent_parent":
        c["table"][rng.randrange(len(c["table"]))][3] = free[0]
    elif k == "dup_row":
        c["table"].append(list(rng.choice(c["table"])))
    elif k == "self_parent":
        row = rng.choice(c["table"])
        row[3] = row[0]
    elif k == "neg_parent":
        rng.choice(c["table"])[3] = -rng.choice([1, labs[0]])
    elif k == "empty_table":
        c["table"] = []
    elif k == "no_labels":
        c["frames"] = [[] for _ in c["frames"]]
    elif k == "no_frames":
        c["frames"] = []
    elif k == "no_table":
        c["table_name"] = "none"
    elif k == "no_dir":
        c["table_name"] = "nodir"
    elif k == "label_without_row":
        if len(c["table"]) > 1:
            victim = c["table"].pop(rng.randrange(len(c["table"])))
            for row in c["table"]:
                if row[3] == victim[0]:
                    row[3] = 0
    return c


def generate(rng: random.Random, tier: str):
    yield from exhaustive_block(tier)
    # fixed boundary datasets (each defect class of the design document, each call route)
    r0 = random.Random(7)
    fixed = [
        ("one-row table", 2, {1: [0, 1]}, {}),
        ("single frame, single label", 1, {1: [0]}, {}),
        ("single frame, no links", 1, {1: [0], 2: [0], 4: [0]}, {}),
        ("single child", 2, {1: [0], 2: [1]}, {2: 1}),
        ("two children", 3, {1: [0, 1], 2: [2], 4: [2]}, {2: 1, 4: 1}),
        ("three children", 2, {1: [0], 2: [1], 4: [1], 7: [1]}, {2: 1, 4: 1, 7: 1}),
        ("gap", 3, {1: [0, 2], 2: [0, 1, 2]}, {}),
        ("late child", 4, {1: [0], 2: [2, 3], 4: [3]}, {2: 1, 4: 1}),
        ("max label", 2, {65535: [0, 1], 1: [1]}, {}),
    ]
    for name, T, pres, par in fixed:
        for ndim in (2, 3):
            for seg in ("none", "path", "store"):
                for tczyx in (False, True):
                    ds = dataset_from_presence(r0, T, pres, par, ndim=ndim, depth=3 if ndim == 3 else 1)
                    yield base_case(**ds, seg=seg, tczyx=tczyx, fmt=3 if (ndim == 3) != tczyx else 2, origin="fixed:" + name)
    for name, T, pres, par in fixed[:5]:
        ds = dataset_from_presence(r0, T, pres, par)
        yield base_case(**ds, seg="path", via="cli", tczyx=True, table_name="res_track.txt", prefix="mask", ctc_rel="01_RES", origin="fixed-cli:" + name)
        yield base_case(**ds, seg="none", via="cli", img=True, tczyx=name != "one-row table", fmt=3 if name == "single child" else 2,
                        origin="fixed-cli-image:" + name)
        yield base_case(**ds, pre_geff=2, overwrite=False, origin="fixed-exists:" + name)
        yield base_case(**ds, pre_geff=2, overwrite=True, via="cli", fmt=3, origin="fixed-cli-overwrite:" + name)
        yield base_case(**ds, pre_geff=3, overwrite=True, seg="path", pre_seg=2, origin="fixed-overwrite:" + name)
    nrand = 260 if tier == "quick" else 4000
    for _ in range(nrand):
        T = rng.choice([1, 2, 3, 3, 4, 5, 6])
        presence, parents = rand_forest(rng, T, rng.choice([1, 2, 3, 4, 5, 6]))
        ndim = rng.choice([2, 2, 3])
        ds = dataset_from_presence(rng, T, presence, parents, ndim=ndim, depth=rng.choice([2, 3, 4]) if ndim == 3 else 1,
                                   two_piece=0.2, odd=0.05 if ndim == 2 else 0.0, rows=rng.choice(["sorted", "sorted", "shuffled", "reversed"]))
        yield variants(rng, base_case(**ds, origin="random"))
    for _ in range(60 if tier == "quick" else 700):
        T = rng.choice([1, 2, 3, 4])
        presence, parents = rand_forest(rng, T, rng.choice([2, 3, 4]))
        ds = dataset_from_presence(rng, T, presence, parents, ndim=rng.choice([2, 3]), depth=2)
        c = base_case(**ds, origin="malformed")
        c["seg"] = rng.choice(["none", "path"])
        c["overwrite"] = rng.random() < 0.3
        yield malform(rng, c)


# --------------------------------------------------------------------------
# running the implementation
# --------------------------------------------------------------------------
_COUNTER = itertools.count()


def scratch_dir() -> Path:
    d = WORK / f"c15-{os.getpid()}" / str(next(_COUNTER))
    shutil.rmtree(d, ignore_errors=True)
    d.mkdir(parents=True)
    return d


def write_dataset(case, root: Path) -> Path:
    import tifffile

    ctc = root / case["ctc_rel"]
    if case["table_name"] == "nodir":
        return ctc
    ctc.mkdir(parents=True)
    for t in range(len(case["frames"])):
        tifffile.imwrite(ctc / f"{case['prefix']}{t:03d}.tif", frame_array(case, t))
    names = {"both": ["man_track.txt", "res_track.txt"], "none": []}.get(case["table_name"], [case["table_name"]])
    for i, n in enumerate(names):
        rows = case["table"] if i == 0 else [[9999, 0, 0, 9998]]  # man_track.txt wins over res_track.txt
        (ctc / n).write_text("".join(" ".join(str(v) for v in row) + "\n" for row in rows))
    return ctc


def snapshot_dir(p: Path):
    if not p.exists():
        return None
    out = {}
    for dp, _dn, fn in os.walk(p):
        for f in fn:
            q = Path(dp, f)
            out[str(q.relative_to(p))] = q.read_bytes()
    return out


def zarr_fmt_of(p) -> int | None:
    p = Path(p)
    if (p / "zarr.json").exists():
        return 3
    if (p / ".zgroup").exists() or (p / ".zarray").exists():
        return 2
    return None


def comps(p) -> list:
    return [x for x in os.path.abspath(str(p)).split(os.sep) if x]


def abstract_md(md_json: dict) -> tuple:
    """metadata JSON -> (dict for storelib.c_meta with rule-based tokens, extra fields of Corr/C15.v)"""
    from harness.storelib import Interner, _pm, enc_float

    it = Interner()
    axes = None
    if md_json.get("axes") is not None:
        axes = []
        for ax in md_json["axes"]:
            plain = all(ax.get(k) is None for k in ("unit", "scale", "scaled_unit", "offset"))
            tok = {"time": 1, "space": 2}.get(ax.get("type"), 99) if plain else 99
            axes.append({"name": ax["name"], "min": None if ax.get("min") is None else enc_float(ax["min"]),
                         "max": None if ax.get("max") is None else enc_float(ax["max"]), "tok": tok})
    tnp = md_json.get("track_node_props") or {}
    plain = (all(md_json.get(k) is None for k in ("sphere", "ellipsoid", "display_hints", "affine")) and not (md_json.get("extra") or {})
             and set(tnp) <= {"tracklet"})
    md = {"directed": bool(md_json["directed"]), "axes": axes,
          "nprops": [(k, _pm(v, it)) for k, v in (md_json.get("node_props_metadata") or {}).items()],
          "eprops": [(k, _pm(v, it)) for k, v in (md_json.get("edge_props_metadata") or {}).items()],
          "tok": 0 if plain else 99}
    rel = [[r.get("type"), r.get("path"), r.get("label_prop")] for r in (md_json.get("related_objects") or [])]
    return md, tnp.get("tracklet"), rel


def run_impl(c):
    import zarr
    from zarr.storage import LocalStore, MemoryStore

    from geff.core_io import read_to_memory
    from geff.validate.data import ValidationConfig, validate_data
    from geff.validate.structure import validate_structure
    from harness import graphgen as gg
    from harness.storelib import Interner, c_meta, c_otree, dump_tree

    root = scratch_dir()
    obs: dict = {}
    try:
        ctc = write_dataset(c, root)
        geff_path = root / c["geff_rel"]
        seg_path = root / c["seg_rel"]
        # ---- pre-states
        if c["pre_geff"] is not None:
            from geff.convert import from_ctc_to_geff as conv0

            old = root / "old_ctc"
            write_dataset(base_case(frames=[[{"label": 3, "boxes": [[[0, 0], [1, 1]]]}], [{"label": 3, "boxes": [[[1, 1], [2, 2]]]}]],
                                    table=[[3, 0, 1, 0], [8, 0, 0, 0]], ctc_rel="old_ctc"), root)
            conv0(old, geff_path, zarr_format=c["pre_geff"])
        if c["pre_seg"] is not None:
            seg_path.parent.mkdir(parents=True, exist_ok=True)
            a = zarr.open_array(str(seg_path), mode="w", shape=(1, 2, 2), dtype="uint8", zarr_format=c["pre_seg"])
            a[...] = 7
        it = Interner()
        obs["pre_coq"] = c_otree(dump_tree(geff_path, it)) if geff_path.exists() else "None"
        before = snapshot_dir(geff_path)
        seg_before = snapshot_dir(seg_path)
        # ---- the call
        mem = None
        if c["seg"] == "none":
            seg_arg = None
        elif c["seg"] == "path":
            seg_arg = seg_path
        elif c["seg"] == "str":
            seg_arg = str(seg_path)
        elif c["seg"] == "store":
            seg_arg = LocalStore(seg_path)
        else:
            seg_arg = mem = MemoryStore()
        try:
            if c["via"] == "cli":
                from typer.testing import CliRunner

                from geff._cli import app

                args = ["convert-ctc", str(ctc), str(geff_path), "--zarr-format", str(c["fmt"])]
                if seg_arg is not None:
                    args += ["--segm-path", str(seg_arg)]
                if c["tczyx"]:
                    args.append("--tczyx")
                if c["overwrite"]:
                    args.append("--overwrite")
                if c.get("img"):
                    import tifffile

                    (root / "images").mkdir()
                    for t in range(len(c["frames"])):
                        tifffile.imwrite(root / "images" / f"t{t:03d}.tif", image_array(c, t))
                    args += ["--input-image-dir", str(root / "images"), "--output-image-path", str(root / "image.zarr")]
                r = CliRunner().invoke(app, args)
                if r.exception is not None and not isinstance(r.exception, SystemExit):
                    raise r.exception
                if r.exit_code != 0:
                    raise HarnessError(f"geff convert-ctc exit code {r.exit_code}: {r.output[:300]}")
            else:
                from geff.convert import from_ctc_to_geff

                from_ctc_to_geff(ctc, geff_path, segmentation_store=seg_arg, tczyx=c["tczyx"], overwrite=c["overwrite"],
                                 zarr_format=c["fmt"])
            obs["res"] = ["ok"]
        except HarnessError:
            raise
        except Exception as e:
            obs["res"] = ["err", exn_name(e), f"{type(e).__name__}: {e}"[:160]]
        if obs["res"][0] != "ok":
            obs["unchanged"] = snapshot_dir(geff_path) == before
            obs["seg_unchanged"] = snapshot_dir(seg_path) == seg_before
            return obs
        # ---- observations of a successful conversion
        obs["fmt_geff"] = zarr_fmt_of(geff_path)
        if c.get("img") and c["via"] == "cli":
            try:
                data = zarr.open_array(str(root / "image.zarr"), mode="r")[...]
                stacked = np.stack([image_array(c, t) for t in range(len(c["frames"]))])
                obs["img"] = {"shape": list(data.shape), "dtype": str(data.dtype), "fmt": zarr_fmt_of(root / "image.zarr"),
                              "equal": bool(data.size == stacked.size and np.array_equal(data.reshape(stacked.shape), stacked))}
            except Exception as e:
                obs["img"] = {"error": f"{type(e).__name__}: {e}"[:200]}
        val = {}
        try:
            validate_structure(geff_path)
            val["structure"] = "ok"
        except Exception as e:
            val["structure"] = f"{type(e).__name__}: {e}"[:200]
        try:
            g = read_to_memory(geff_path)
        except Exception as e:
            obs["back"] = ["err", exn_name(e), f"{type(e).__name__}: {e}"[:200]]
            obs["val"] = val
            return obs
        for key, cfg in (("graph", ValidationConfig(graph=True)), ("tracklet", ValidationConfig(tracklet=True))):
            try:
                validate_data(g, cfg)
                val[key] = "ok"
            except Exception as e:
                val[key] = f"{type(e).__name__}: {e}"[:200]
        obs["val"] = val
        md_json = g["metadata"].model_dump(mode="json")
        md_abs, tracklet, rel = abstract_md(md_json)
        obs["back"] = ["ok"]
        obs["graph"] = {
            "directed": md_json["directed"],
            "axes": [[a["name"], a.get("type"), a.get("min"), a.get("max")] for a in (md_json.get("axes") or [])],
            "node_ids": g["node_ids"].tolist(), "id_dtype": str(g["node_ids"].dtype),
            "edges": g["edge_ids"].tolist(), "edge_shape": list(g["edge_ids"].shape),
            "props": {k: {"dtype": str(v["values"].dtype), "values": v["values"].tolist(), "masked": v["missing"] is not None}
                      for k, v in sorted(g["node_props"].items())},
            "edge_props": sorted(g["edge_props"]),
            "tracklet_prop": tracklet, "related": rel,
        }
        # ---- label volume and related object
        seg = None
        if c["seg"] != "none":
            try:
                arr = zarr.open_array(mem if mem is not None else str(seg_path), mode="r")
                data = arr[...]
                stacked = np.stack([frame_array(c, t) for t in range(len(c["frames"]))])
                lead = data.shape[: data.ndim - (stacked.ndim - 1)]
                seg = {"shape": list(data.shape), "dtype": str(data.dtype),
                       "equal": bool(data.size == stacked.size and lead[1:] == (1,) * (len(lead) - 1)
                                     and np.array_equal(data.reshape(stacked.shape), stacked)),
                       "fmt": None if mem is not None else zarr_fmt_of(seg_path)}
            except Exception as e:
                seg = {"error": f"{type(e).__name__}: {e}"[:200]}
            res = []
            for _ty, p, _lp in rel:
                target = os.path.normpath(os.path.join(str(geff_path), p))
                res.append(os.path.realpath(target) == os.path.realpath(str(seg_path)))
            obs["rel_resolves"] = res
        obs["seg"] = seg
        # ---- Coq side of the observation
        try:
            x_rel = clist(rel, lambda r: f"({cstr(r[0])}, {clist([s for s in r[1].split('/') if s != ''], cstr)}, {copt(r[2], cstr)})")
            x_seg = copt(None if seg is None or "shape" not in seg else seg["shape"], lambda s: clist(s, cnat))
            extra = f"(mkcx {copt(tracklet, cstr)} {x_rel} {x_seg})"
            mg = (f"(mkmg {c_meta(md_abs)} {gg.c_np_arr(g['node_ids'], it)} {gg.c_np_arr(g['edge_ids'], it)} "
                  f"{gg.c_props_np(g['node_props'], it)} {gg.c_props_np(g['edge_props'], it)})")
            obs["coq_obs"] = f"(OOk (Ok {mg}) {extra})"
        except HarnessError as e:
            obs["coq_skip"] = str(e)
        return obs
    finally:
        shutil.rmtree(root, ignore_errors=True)


# --------------------------------------------------------------------------
# Coq terms
# --------------------------------------------------------------------------
def coq_input(c, pre_coq: str, intent=None) -> str | None:
    root_comps = ["ROOT"]
    frames = []
    for fr in c["frames"]:
        regs = []
        for r in sorted(fr, key=lambda r: r["label"]):   # regionprops: ascending label
            cen = exact_centroid(r)
            sc = [x * 1024 for x in cen]
            if any(x.denominator != 1 for x in sc):
                return None
            z, y, x = ([Fraction(0)] + sc) if c["ndim"] == 2 else sc
            regs.append(f"({cz(r['label'])}, mkcent {cz(int(z))} {cz(int(y))} {cz(int(x))})")
        frames.append(clist(regs))
    if c["table_name"] == "none":
        table = "None"
    else:
        table = "(Some " + clist(c["table"], lambda r: f"(mkrow {cz(r[0])} {cz(r[1])} {cz(r[2])} {cz(r[3])})") + ")"
    geff = clist(root_comps + c["geff_rel"].split("/"), cstr)
    segp = clist(root_comps + c["seg_rel"].split("/"), cstr)
    seg = {"none": "SegNone", "path": f"(SegPath {segp})", "str": f"(SegPath {segp})", "store": f"(SegStore (Some {segp}))",
           "mem": "(SegStore None)"}[c["seg"]]
    d = (f"(mkctc {cbool(c['table_name'] != 'nodir')} {table} {cbool(c['ndim'] == 3)} {clist(frame_shape(c), cnat)} {clist(frames)} "
         f"{geff} {seg} {cbool(c['pre_seg'] is not None)} {cbool(c['tczyx'])} {cbool(c['overwrite'])})")
    if intent is None:
        return f"(IConv {d} {pre_coq})"
    return f"(IConvW {cbool(intent)} {d} {pre_coq})"


def coq_case(c, o):
    if "pre_coq" not in o:
        return None
    # the oracle's gate consistent() travels with the case: Coq decides `consistent` on the dataset it was given and must agree
    inp = coq_input(c, o["pre_coq"], intent=consistent(c, pixel_regions(c)))
    if inp is None:
        return None
    if o["res"][0] != "ok":
        return f"({inp}, OErr {o['res'][1]})"
    if o.get("back", ["ok"])[0] != "ok":
        return f"({inp}, OOk (Err {o['back'][1]}) (mkcx None [] None))"
    if "coq_obs" not in o:
        return None
    return f"({inp}, {o['coq_obs']})"


# --------------------------------------------------------------------------
# the oracle: the property text, restated over pixel arrays and the table
# --------------------------------------------------------------------------
def pixel_regions(case):
    """frame index -> {label: centroid (array-axis order)} from the pixel arrays alone"""
    out = []
    for t in range(len(case["frames"])):
        a = frame_array(case, t)
        regs = {}
        for l in np.unique(a):
            if l != 0:
                regs[int(l)] = tuple(float(v) for v in np.argwhere(a == l).mean(axis=0))
        out.append(regs)
    return out


def consistent(case, regs) -> bool:
    if case["table_name"] in ("none", "nodir") or not case["frames"]:
        return False
    rows = case["table"]
    labels = [r[0] for r in rows]
    if len(set(labels)) != len(labels) or len(rows) == 0:
        return False
    occ = {}
    for t, fr in enumerate(regs):
        for l in fr:
            occ.setdefault(l, []).append(t)
    if set(occ) != set(labels):
        return False
    byl = {r[0]: r for r in rows}
    for l, b, e, p in rows:
        if l <= 0 or occ[l][0] != b or occ[l][-1] != e:
            return False
        if p != 0 and (p not in byl or not byl[p][2] < b):
            return False
    return True


def expected_graph(case, regs):
    nodes = {(t, l): cen for t, fr in enumerate(regs) for l, cen in fr.items()}
    occ = {}
    for (t, l) in sorted(nodes):
        occ.setdefault(l, []).append(t)
    edges = Counter()
    for l, ts in occ.items():
        for a, b in zip(ts, ts[1:]):
            edges[((a, l), (b, l))] += 1
    for l, _b, _e, p in case["table"]:
        if p > 0:
            edges[((occ[p][-1], p), (occ[l][0], l))] += 1
    return nodes, edges


def tracklet_reference(node_ids, edges):
    """The documented tracklets: maximal unbranched paths = components of the edges that are the only edge
    leaving their source and the only edge entering their target."""
    es = {tuple(e) for e in edges}
    outd, ind = Counter(a for a, _ in es), Counter(b for _, b in es)
    parent = {n: n for n in node_ids}

    def find(x):
        while parent[x] != x:
            parent[x] = parent[parent[x]]
            x = parent[x]
        return x

    for a, b in es:
        if outd[a] == 1 and ind[b] == 1:
            parent[find(a)] = find(b)
    comp = {}
    for n in node_ids:
        comp.setdefault(find(n), set()).add(n)
    return {frozenset(s) for s in comp.values()}


def has_single_child(case) -> bool:
    kids = Counter(r[3] for r in case["table"] if r[3] > 0)
    return any(v == 1 for v in kids.values())


def strip(o):
    return {k: v for k, v in o.items() if not k.startswith("coq") and k != "pre_coq"}


def oracle(c, o):
    regs = pixel_regions(c)
    if not consistent(c, regs):
        return None                       # the property speaks about consistent CTC results only
    fail = lambda what, **tags: Failure(c, strip(o), what, tags)
    occupied = c["pre_geff"] is not None and not c["overwrite"]
    seg_occupied = c["seg"] != "none" and c["pre_seg"] is not None and not c["overwrite"]
    if o["res"][0] != "ok":
        if (occupied or seg_occupied) and o["res"][1] == "FileExistsError":
            if occupied and not o.get("unchanged", True):
                return fail("FileExistsError raised but the existing geff was modified", why="exists-modified")
            return None
        return fail(f"conversion of a consistent dataset raised {o['res'][2]}", why="raises", exc=o["res"][1],
                    ndim=c["ndim"], seg=c["seg"] != "none", rows=len(c["table"]), nodes=sum(len(f) for f in regs))
    if occupied:
        # the documented meaning of the flag (docstring of from_ctc_to_geff / --overwrite): no overwrite unless asked
        return fail("an existing geff was replaced without overwrite=True", why="clobbered")
    # (a label array replaced without overwrite is undocumented either way: a correspondence mismatch, not an oracle failure)
    if o["back"][0] != "ok":
        return fail(f"read_to_memory of the converted geff raised {o['back'][2]}", why="read-raises")
    if o.get("fmt_geff") != c["fmt"]:
        return fail(f"zarr_format={c['fmt']} requested, the geff is stored in format {o.get('fmt_geff')}", why="zarr-format", part="geff")
    g = o["graph"]
    nodes, edges = expected_graph(c, regs)
    props = g["props"]
    need = ["t", "tracklet_id", "x", "y"] + (["z"] if c["ndim"] == 3 else [])
    for k in need:
        if k not in props or props[k]["masked"] or len(props[k]["values"]) != len(g["node_ids"]):
            return fail(f"node property {k!r} missing, masked or of the wrong length", why="nodes", part="column")
    if c["ndim"] == 2 and "z" in props:
        return fail("2-D dataset converted with a z column", why="nodes", part="z-column")
    if len(set(g["node_ids"])) != len(g["node_ids"]):
        return fail("node ids are not unique", why="nodes", part="ids")
    key_of = {}
    seen = Counter()
    for i, nid in enumerate(g["node_ids"]):
        t, l = props["t"]["values"][i], props["tracklet_id"]["values"][i]
        if t != int(t) or l != int(l):
            return fail("time / tracklet id is not an integer", why="nodes", part="dtype")
        key = (int(t), int(l))
        key_of[nid] = key
        seen[key] += 1
        if key not in nodes:
            return fail(f"node for (frame {key[0]}, label {key[1]}) which is not a region of the dataset", why="nodes", part="extra")
        cen = nodes[key]
        got = tuple(props[k]["values"][i] for k in (["z"] if c["ndim"] == 3 else []) + ["y", "x"])
        if any(abs(a - b) > 1e-9 for a, b in zip(got, cen)):
            return fail(f"node (frame {key[0]}, label {key[1]}): coordinates {got}, region centroid {cen}", why="nodes", part="centroid")
    if set(seen) != set(nodes) or any(v != 1 for v in seen.values()):
        missing = sorted(set(nodes) - set(seen))
        return fail(f"not exactly one node per (frame, label) region: missing {missing}, repeated {[k for k, v in seen.items() if v > 1]}",
                    why="nodes", part="count")
    if g["edge_shape"][1:] != [2]:
        return fail(f"edge array of shape {g['edge_shape']}", why="edges", part="shape")
    got_edges = Counter()
    for a, b in g["edges"]:
        if a not in key_of or b not in key_of:
            return fail(f"edge ({a}, {b}) names a node that does not exist", why="edges", part="dangling")
        got_edges[(key_of[a], key_of[b])] += 1
    if got_edges != edges:
        return fail(f"edges differ: missing {sorted((edges - got_edges).elements())}, unexpected {sorted((got_edges - edges).elements())}",
                    why="edges", part="set")
    if not g["directed"]:
        return fail("the geff is not directed", why="metadata", part="directed")
    exp_axes = [["t", "time"]] + ([["z", "space"]] if c["ndim"] == 3 else []) + [["y", "space"], ["x", "space"]]
    if [a[:2] for a in g["axes"]] != exp_axes:
        return fail(f"axes {[a[:2] for a in g['axes']]}, expected {exp_axes}", why="metadata", part="axes")
    if o["val"].get("structure") != "ok":
        return fail(f"structural validation fails: {o['val'].get('structure')}", why="validation", part="structure")
    if o["val"].get("graph") != "ok":
        return fail(f"graph validation fails: {o['val'].get('graph')}", why="validation", part="graph")
    # segmentation target
    if c["seg"] != "none":
        s = o["seg"]
        if s is None or "error" in s:
            return fail(f"the exported label volume cannot be read: {s}", why="segmentation", part="unreadable")
        T = len(c["frames"])
        fs = list(frame_shape(c))
        exp_shape = [T] + ([1] * (4 - len(fs)) if c["tczyx"] else []) + fs
        if s["shape"] != exp_shape or not s["equal"] or s["dtype"] != c["dtype"]:
            return fail(f"exported label volume {s}, expected the stacked frames of shape {exp_shape} dtype {c['dtype']}",
                        why="segmentation", part="volume")
        if c["seg"] != "mem" and s.get("fmt") != c["fmt"]:
            return fail(f"zarr_format={c['fmt']} requested, the exported label volume is stored in format {s.get('fmt')}", why="zarr-format",
                        part="segmentation")
        if c["seg"] != "mem":
            if len(g["related"]) != 1 or g["related"][0][0] != "labels" or g["related"][0][2] != "tracklet_id":
                return fail(f"related objects {g['related']}: expected one labels object keyed by tracklet_id", why="segmentation", part="related")
            if o["rel_resolves"] != [True]:
                return fail(f"recorded related-object path {g['related'][0][1]!r} does not resolve to the label volume", why="segmentation", part="path")
    elif g["related"]:
        return fail(f"related objects {g['related']} recorded without a segmentation target", why="segmentation", part="spurious")
    # image export of the command line (ctc_tiffs_to_zarr; an anchor of the property, beyond its statement: the exported image
    # volume is the stacked input images, laid out and formatted like the label volume)
    if c.get("img") and c["via"] == "cli":
        im = o.get("img") or {"error": "not observed"}
        fs = list(frame_shape(c))
        exp_shape = [len(c["frames"])] + ([1] * (4 - len(fs)) if c["tczyx"] else []) + fs
        if "error" in im or im["shape"] != exp_shape or not im["equal"] or im["dtype"] != "uint16":
            return fail(f"exported image volume {im}, expected the stacked images of shape {exp_shape}", why="image", part="volume")
        if im["fmt"] != c["fmt"]:
            return fail(f"zarr_format={c['fmt']} requested, the exported image volume is stored in format {im['fmt']}", why="zarr-format", part="image")
    # tracklet annotation
    if g["tracklet_prop"] != "tracklet_id":
        return fail(f"declared tracklet property is {g['tracklet_prop']!r}", why="metadata", part="tracklet-prop")
    ref = tracklet_reference(g["node_ids"], g["edges"])
    classes = {}
    for i, nid in enumerate(g["node_ids"]):
        classes.setdefault(props["tracklet_id"]["values"][i], set()).add(nid)
    bad = sorted(k for k, s in classes.items() if frozenset(s) not in ref)
    single = has_single_child(c)
    if bad:
        return fail(f"the declared tracklet annotation is not the tracklet partition: tracklets {bad} are not maximal unbranched paths "
                    f"(library validator: {o['val'].get('tracklet')})", why="tracklet-definition", single_child=single)
    if o["val"].get("tracklet") != "ok":
        return fail(f"the library's tracklet validation rejects the output: {o['val'].get('tracklet')}", why="tracklet-validator",
                    single_child=single)
    return None


def nontrivial(c, o):
    return sum(len(f) for f in c["frames"]) >= 2 and "res" in o and (o["res"][0] == "ok" or o["res"][1] != "FileNotFoundError")


def describe(c, o):
    n = sum(len(f) for f in c["frames"])
    kids = Counter(r[3] for r in c["table"] if r[3] > 0)
    div = "/".join(str(k) for k in sorted(set(kids.values()))) or "0"
    res = o["res"][0] if o["res"][0] == "ok" else o["res"][1]
    return (f"{c['cls']}:{c['ndim']}d:T={len(c['frames'])}:N={min(n, 9)}:rows={min(len(c['table']), 6)}:children={div}:seg={c['seg']}:"
            f"{'tczyx' if c['tczyx'] else 'tyx'}:v{c['fmt']}:{'ow' if c['overwrite'] else 'no-ow'}:"
            f"pre={c['pre_geff']}/{c['pre_seg']}:{c['via']}:{c['table_name']}:{res}")


def shrink(c):
    """Greedy: drop the last frame / one label / the call decorations while the oracle still fails."""
    import copy

    def fails(x):
        try:
            return oracle(x, run_impl(x)) is not None
        except Exception:
            return False

    cur = copy.deepcopy(c)
    changed = True
    while changed:
        changed = False
        cands = []
        labs = sorted({r["label"] for f in cur["frames"] for r in f})
        for l in labs:
            x = copy.deepcopy(cur)
            x["frames"] = [[r for r in f if r["label"] != l] for f in x["frames"]]
            x["table"] = [[a, b, e, (0 if p == l else p)] for a, b, e, p in x["table"] if a != l]
            cands.append(x)
        for key, val in (("seg", "none"), ("tczyx", False), ("pre_geff", None), ("pre_seg", None), ("via", "api"), ("fmt", 2),
                         ("table_name", "man_track.txt"), ("geff_rel", "out.geff"), ("seg_rel", "seg.zarr"), ("overwrite", False)):
            if cur[key] != val:
                x = copy.deepcopy(cur)
                x[key] = val
                cands.append(x)
        for x in cands:
            if fails(x):
                cur, changed = x, True
                break
    return cur


def search(rng, budget):
    for c in generate(rng, "thorough"):
        if c["cls"] == "consistent" and c.get("origin") != "exhaustive":
            yield c


def extra_coverage():
    shutil.rmtree(WORK / f"c15-{os.getpid()}", ignore_errors=True)
    for p in WORK.glob("c15-*"):          # scratch roots of the pool workers (empty by now)
        try:
            p.rmdir()
        except OSError:
            pass
    return {}
