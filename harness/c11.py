"""C11 -- variable-length values are encoded and decoded without loss.

Correspondence: numpy's can_cast / promote_types / result_type tables (exhaustive),
serialize_vlen_property_data, deserialize_vlen_property_data and
construct_var_len_props against Vlen.v evaluated in Coq.
Oracle: written from the property text with numpy only.
"""
from __future__ import annotations

import itertools
import random

import numpy as np

from harness.common import (Failure, cbool, cdtype, clist, cnat, copt, cres, cz, dtype_name, enc_array,
                            exn_name, relayout, DTYPE_COQ, LAYOUTS)

PROP = "C11"
NUM = ["bool", "int8", "int16", "int32", "int64", "uint8", "uint16", "uint32", "uint64",
       "float16", "float32", "float64"]
RULE = ("exhaustive dtype tables (can_cast, promote_types: all 144 pairs; result_type: all multisets of size<=3) + "
        "bounded-exhaustive shape sequences (n<=2, rank<=2, dims 0..2) + seeded random sequences (n<=6, rank 0..3, "
        "dims 0..3, every numeric dtype, boundary values) + ragged inputs with all permutations for n<=4; "
        "non-trivial = at least one non-empty element or an error outcome; distinct by structural input")
EXHAUSTIVE_BLOCKS = ["np.can_cast over all ordered pairs of 12 numeric dtypes",
                     "np.promote_types over all ordered pairs of 12 numeric dtypes",
                     "np.result_type over all multisets of size 1..3 of 12 numeric dtypes",
                     "serialize/deserialize over all sequences of <=2 int16 arrays with rank<=2 and dims in 0..2"]
ASSUMPTIONS = [
    "np.asarray on user input (nested lists, scalars) is the abstraction boundary: the model starts from the resulting arrays",
    "string / bytes / object elements are outside the Coq model (oracle-only)",
    "float payloads are exact multiples of 2^-10 (generator guarantees it)",
]


# ---------------------------------------------------------------- values
def rand_payload(rng: random.Random, dt: str) -> int:
    if dt == "bool":
        return rng.randint(0, 1)
    if dt.startswith("float"):
        if dt == "float16":
            return rng.choice([0, 1, -1, 512, 1024, -1536, rng.randint(-2047, 2047)])
        return rng.choice([0, 1, -1, 1024, 3 * 512, rng.randint(-4096, 4096), rng.randint(-2**20, 2**20) * 1024])
    info = np.iinfo(dt)
    return rng.choice([info.min, info.max, 0, 1, info.max - 1, rng.randint(info.min, info.max),
                       rng.randint(max(info.min, -5), min(info.max, 5))])


def mk_array(e: dict) -> np.ndarray:
    dt = e["dt"]
    if dt.startswith("float"):
        vals = [p / 1024 for p in e["flat"]]
    elif dt == "bool":
        vals = [bool(p) for p in e["flat"]]
    else:
        vals = list(e["flat"])
    return relayout(np.array(vals, dtype=dt).reshape(e["shape"]), e.get("layout")) if e["shape"] != [] else np.array(vals[0], dtype=dt)


def rand_elem(rng, dt, rank, maxdim=3) -> dict:
    shape = [rng.choice([0, 1, 1, 2, 2, 3][: maxdim + 3]) for _ in range(rank)]
    n = int(np.prod(shape)) if shape else 1
    e = {"dt": dt, "shape": shape, "flat": [rand_payload(rng, dt) for _ in range(n)]}
    lay = rng.choice(LAYOUTS)
    if lay != "C" and rank >= 1:
        e["layout"] = lay  # memory layout of the array handed to geff; logical contents are 'flat' in C order
    return e


def abstract(a: np.ndarray) -> dict:
    return {"dt": dtype_name(a.dtype), "shape": list(a.shape), "flat": enc_array(a)}


def cvarr(e: dict) -> str:
    return (f"{{| v_dt := {DTYPE_COQ[e['dt']]}; v_shape := {clist(e['shape'], cnat)}; "
            f"v_flat := {clist(e['flat'], cz)} |}}")


# ---------------------------------------------------------------- generation
def generate(rng: random.Random, tier: str):
    # exhaustive dtype tables
    for a in NUM:
        for b in NUM:
            yield {"kind": "cast", "a": a, "b": b}
            yield {"kind": "promote", "a": a, "b": b}
    for k in (1, 2, 3):
        for ms in itertools.combinations_with_replacement(NUM, k):
            ds = list(ms)
            rng.shuffle(ds)
            yield {"kind": "result", "ds": ds}
    for _ in range(150 if tier == "quick" else 1500):
        yield {"kind": "result", "ds": [rng.choice(NUM) for _ in range(rng.randint(4, 7))]}

    # bounded-exhaustive layouts
    shapes = [[]] + [[a] for a in range(3)] + [[a, b] for a in range(3) for b in range(3)]
    ctr = 0
    for n in (0, 1, 2):
        for combo in itertools.product(shapes, repeat=n):
            if len({len(s) for s in combo}) > 1:
                continue
            vals = []
            for s in combo:
                cnt = int(np.prod(s)) if s else 1
                vals.append({"dt": "int16", "shape": list(s), "flat": list(range(ctr, ctr + cnt))})
                ctr = (ctr + cnt) % 30000
            yield {"kind": "ser", "vals": vals}
            yield {"kind": "rt", "vals": vals}

    nrand = 250 if tier == "quick" else 4000
    for _ in range(nrand):
        dt = rng.choice(NUM)
        rank = rng.choice([0, 1, 1, 2, 2, 3])
        n = rng.choice([0, 1, 2, 3, 4, 6])
        vals = [rand_elem(rng, dt, rank) for _ in range(n)]
        yield {"kind": "ser", "vals": vals}
        yield {"kind": "rt", "vals": vals, "missing": [rng.random() < 0.3 for _ in range(n)] if rng.random() < 0.5 else None}
    # malformed sequences for the encoder: mixed rank / dtype / non-array
    for _ in range(60 if tier == "quick" else 600):
        n = rng.randint(2, 4)
        vals = [rand_elem(rng, rng.choice(NUM[:6]) if rng.random() < 0.5 else "int32", rng.choice([1, 1, 2])) for _ in range(n)]
        yield {"kind": "ser", "vals": vals}
    # arbitrary (possibly out-of-bounds) tables for the decoder
    for _ in range(120 if tier == "quick" else 1200):
        ncol = rng.choice([0, 1, 2, 2, 3])
        rows = [[rng.randint(0, 6)] + [rng.randint(0, 3) for _ in range(ncol - 1)] if ncol > 0 else [] for _ in range(rng.randint(0, 4))]
        data = [rng.randint(-9, 9) for _ in range(rng.randint(0, 8))]
        yield {"kind": "deser", "rows": rows, "data": data}

    # ragged user input
    def rand_seq(n):
        seq = []
        pool = rng.choice([NUM, NUM[:9], ["int8", "uint8", "float16"], ["int16", "uint16", "float32"],
                           ["int64", "uint64", "float64"], ["bool", "int8"], ["int64", "float64"]])
        for _ in range(n):
            r = rng.random()
            if r < 0.2:
                seq.append(None)
            elif r < 0.85:
                seq.append(rand_elem(rng, rng.choice(pool), rng.choice([0, 1, 1, 2, 3]), maxdim=2))
            else:
                # nested python list / scalar: np.asarray does the inference
                k = rng.choice(["ints", "floats", "scalar", "bools", "empty"])
                py = {"ints": [rng.randint(-5, 5) for _ in range(rng.randint(1, 3))],
                      "floats": [rng.randint(-8, 8) / 4 for _ in range(rng.randint(1, 3))],
                      "scalar": rng.randint(0, 9), "bools": [True, False][: rng.randint(1, 2)], "empty": []}[k]
                seq.append({"py": py})
        return seq

    for _ in range(300 if tier == "quick" else 3000):
        yield {"kind": "cons", "seq": rand_seq(rng.choice([0, 1, 2, 3, 3, 4, 5, 6]))}
    # all permutations of short sequences (order-freeness, also fed to the model)
    for _ in range(40 if tier == "quick" else 300):
        seq = rand_seq(rng.choice([2, 3, 3, 4]))
        for perm in itertools.permutations(range(len(seq))):
            yield {"kind": "cons", "seq": [seq[i] for i in perm]}
    # triples hitting the non-associativity of promote_types
    for tr in (["int16", "uint16", "float32"], ["int8", "uint8", "float16"], ["uint8", "int8", "float16"],
               ["int64", "int8"], ["float64", "int64"], ["uint64", "int64"], ["int8", "int16", "int8"]):
        for perm in itertools.permutations(tr):
            yield {"kind": "cons", "seq": [{"dt": d, "shape": [1], "flat": [1]} for d in perm]}
    # strings: oracle only
    for s in ([{"py": ["a"]}, {"py": ["abc", "de"]}], [{"py": ["abc"]}, {"py": ["a"]}], [{"py": [2]}, {"py": ["a"]}], [{"py": ["a"]}, {"py": [2]}]):
        yield {"kind": "cons", "seq": s}


def to_input(x):
    if x is None:
        return None
    if "py" in x:
        return x["py"]
    return mk_array(x)


# ---------------------------------------------------------------- implementation
def run_cons(seq):
    from geff.core_io import construct_var_len_props

    try:
        d = construct_var_len_props([to_input(x) for x in seq])
    except Exception as e:
        return ["err", exn_name(e)]
    vals = []
    for i, a in enumerate(d["values"]):
        if not isinstance(a, np.ndarray):
            return ["err", "OtherExn"]
        vals.append(a)
    miss = None if d["missing"] is None else [bool(b) for b in d["missing"]]
    return ["ok", vals, miss]


def run_impl(c):
    from geff.core_io._serialization import deserialize_vlen_property_data, serialize_vlen_property_data

    k = c["kind"]
    if k == "cast":
        return bool(np.can_cast(np.dtype(c["a"]), np.dtype(c["b"])))
    if k == "promote":
        try:
            return dtype_name(np.promote_types(c["a"], c["b"]))
        except TypeError:
            return None
    if k == "result":
        try:
            return dtype_name(np.result_type(*[np.dtype(d) for d in c["ds"]]))
        except TypeError:
            return None
    if k in ("ser", "rt"):
        vals = np.empty(len(c["vals"]), dtype=object)
        for i, e in enumerate(c["vals"]):
            vals[i] = mk_array(e)
        missing = None
        if c.get("missing") is not None:
            missing = np.array(c["missing"], dtype=bool)
        try:
            values, miss, data = serialize_vlen_property_data({"values": vals, "missing": missing})
        except Exception as e:
            return ["err", exn_name(e)]
        ser = ["ok", values.tolist() if values.ndim == 2 else [], enc_array(data), dtype_name(data.dtype),
               str(values.dtype), None if miss is None else [bool(b) for b in miss]]
        if k == "ser":
            return ser
        try:
            dec = deserialize_vlen_property_data(values, miss, data)
        except Exception as e:
            return {"ser": ser, "dec": ["err", exn_name(e)]}
        return {"ser": ser, "dec": ["ok", [abstract(a) for a in dec["values"]],
                                    None if dec["missing"] is None else [bool(b) for b in dec["missing"]]]}
    if k == "deser":
        ncol = len(c["rows"][0]) if c["rows"] else 1
        values = np.array(c["rows"], dtype=np.uint64).reshape((len(c["rows"]), ncol))
        data = np.array(c["data"], dtype=np.int64)
        try:
            dec = deserialize_vlen_property_data(values, None, data)
        except Exception as e:
            return ["err", exn_name(e)]
        return ["ok", [abstract(a) for a in dec["values"]]]
    if k == "cons":
        r = run_cons(c["seq"])
        if r[0] == "ok":
            # contents at missing positions are uninitialised (np.empty): don't-care, zero them
            r[1] = [np.zeros_like(a) if x is None and a.dtype.kind not in "USO" else a for x, a in zip(c["seq"], r[1])]
            return ["ok", [abstract(a) if a.dtype.kind not in "USO" else {"dt": dtype_name(a.dtype), "shape": list(a.shape), "flat": a.ravel().tolist()} for a in r[1]], r[2]]
        return r
    raise ValueError(k)


# ---------------------------------------------------------------- Coq terms
def numeric_seq(seq) -> bool:
    for x in seq:
        if x is None:
            continue
        a = np.asarray(to_input(x))
        if a.dtype.kind in "USO":
            return False
    return True


def coq_case(c, o):
    k = c["kind"]
    if k == "cast":
        return f"(ICast {DTYPE_COQ[c['a']]} {DTYPE_COQ[c['b']]}, OBool {cbool(o)})"
    if k == "promote":
        return f"(IPromote {DTYPE_COQ[c['a']]} {DTYPE_COQ[c['b']]}, ODt {copt(o, lambda d: DTYPE_COQ[d])})"
    if k == "result":
        return f"(IResult {clist(c['ds'], lambda d: DTYPE_COQ[d])}, ODt {copt(o, lambda d: DTYPE_COQ[d])})"
    if k == "ser":
        inp = f"ISer {clist(c['vals'], cvarr)}"
        if o[0] == "ok":
            ob = f"OSer (Ok ({clist(o[1], lambda r: clist(r, cnat))}, {clist(o[2], cz)}, {DTYPE_COQ[o[3]]}))"
        else:
            ob = f"OSer (Err {o[1]})"
        return f"({inp}, {ob})"
    if k == "rt":
        if isinstance(o, list):  # encoder refused: nothing to decode
            return None
        ser, dec = o["ser"], o["dec"]
        inp = f"IDeser {clist(ser[1], lambda r: clist(r, cnat))} {clist(ser[2], cz)}"
        if dec[0] == "ok":
            ob = "ODeser (Ok " + clist(dec[1], lambda e: f"({clist(e['shape'], cnat)}, {clist(e['flat'], cz)})") + ")"
        else:
            ob = f"ODeser (Err {dec[1]})"
        return f"({inp}, {ob})"
    if k == "deser":
        inp = f"IDeser {clist(c['rows'], lambda r: clist(r, cnat))} {clist(c['data'], cz)}"
        if o[0] == "ok":
            ob = "ODeser (Ok " + clist(o[1], lambda e: f"({clist(e['shape'], cnat)}, {clist(e['flat'], cz)})") + ")"
        else:
            ob = f"ODeser (Err {o[1]})"
        return f"({inp}, {ob})"
    if k == "cons":
        if not numeric_seq(c["seq"]):
            return None
        items = []
        for x in c["seq"]:
            items.append("None" if x is None else f"(Some {cvarr(abstract(np.asarray(to_input(x))))})")
        inp = f"ICons {clist(items)}"
        if o[0] == "ok":
            vals = []
            for x, e in zip(c["seq"], o[1]):
                e = dict(e)
                if x is None:  # contents at missing positions are don't-care (np.empty): zero them
                    e["flat"] = [0] * len(e["flat"])
                vals.append(e)
            ob = f"OCons (Ok ({clist(vals, cvarr)}, {copt(o[2], lambda m: clist(m, cbool))}))"
        else:
            ob = f"OCons (Err {o[1]})"
        return f"({inp}, {ob})"
    raise ValueError(k)


# ---------------------------------------------------------------- oracle (from the property text)
def oracle(c, o):
    k = c["kind"]
    if k in ("cast", "promote", "result", "deser"):
        return None
    if k == "ser":
        vals = [mk_array(e) for e in c["vals"]]
        uniform = len({a.ndim for a in vals}) <= 1 and len({a.dtype for a in vals}) <= 1
        if o[0] == "err":
            if uniform:
                return Failure(c, o, "encoder rejects a sequence of one rank and dtype", {"kind": "ser", "why": "rejects-uniform"})
            return None
        if not uniform:
            return None  # accepting more is not a loss claim of C11 (decoding is checked by rt)
        rows, data = o[1], o[2]
        off = 0
        for r, a in zip(rows, vals):
            if r[0] != off:
                return Failure(c, o, f"offsets not contiguous: row {r} expected offset {off}", {"kind": "ser", "why": "contiguity"})
            if list(r[1:]) != list(a.shape):
                return Failure(c, o, f"row {r} does not carry shape {a.shape}", {"kind": "ser", "why": "shape"})
            off += a.size
            if off > len(data):
                return Failure(c, o, f"slice of row {r} exceeds data length {len(data)}", {"kind": "ser", "why": "bounds"})
        if rows and o[4] != "uint64":
            return Failure(c, o, f"values table dtype {o[4]}", {"kind": "ser", "why": "table-dtype"})
        return None
    if k == "rt":
        if isinstance(o, list):
            return None
        dec = o["dec"]
        vals = [mk_array(e) for e in c["vals"]]
        if len({a.ndim for a in vals}) > 1 or len({a.dtype for a in vals}) > 1:
            return None
        if dec[0] == "err":
            return Failure(c, o, f"decoding the encoder's own output raises {dec[1]}", {"kind": "rt", "why": "decode-raises"})
        if len(dec[1]) != len(vals):
            return Failure(c, o, "element count changed", {"kind": "rt", "why": "count"})
        for e, a in zip(dec[1], vals):
            if e["dt"] != dtype_name(a.dtype) or e["shape"] != list(a.shape) or e["flat"] != enc_array(a):
                return Failure(c, o, f"element changed: {abstract(a)} -> {e}", {"kind": "rt", "why": "element"})
        if dec[2] != c.get("missing"):
            return Failure(c, o, "missing flags changed", {"kind": "rt", "why": "missing"})
        return None
    if k == "cons":
        seq = c["seq"]
        arrays = [None if x is None else np.asarray(to_input(x)) for x in seq]
        nn = [a for a in arrays if a is not None]
        f = check_normalised(c, o, arrays, nn)
        if f is not None:
            return f
        # order independence: outcome, dtype and rank under permutations
        n = len(seq)
        if n <= 1:
            return None
        if n <= 4:
            perms = list(itertools.permutations(range(n)))[1:]
        else:
            r = random.Random(hash(repr(seq)) & 0xFFFF)
            perms = [tuple(reversed(range(n)))] + [tuple(r.sample(range(n), n)) for _ in range(3)]
        sig0 = signature(o)
        for p in perms:
            o2 = run_cons([seq[i] for i in p])
            o2n = ["ok", [{"dt": dtype_name(a.dtype), "shape": list(a.shape)} for a in o2[1]], o2[2]] if o2[0] == "ok" else o2
            if signature(o2n) != sig0:
                return Failure(c, o, f"normalisation depends on element order: {sig0} vs {signature(o2n)} for permutation {p}",
                               {"kind": "cons", "why": "order-dependent"})
            if o2[0] == "ok" and o[0] == "ok":
                for j, i in enumerate(p):
                    if arrays[i] is None:
                        continue
                    e = o[1][i]
                    a2 = o2[1][j]
                    if e["shape"] != list(a2.shape) or e["flat"] != (enc_array(a2) if a2.dtype.kind not in "USO" else a2.ravel().tolist()):
                        return Failure(c, o, "normalised element differs under permutation", {"kind": "cons", "why": "order-dependent-values"})
        return None
    return None


def signature(o):
    if o[0] == "err":
        return ("err", o[1])
    dts = {e["dt"] for e in o[1]}
    ranks = {len(e["shape"]) for e in o[1]}
    return ("ok", tuple(sorted(dts)), tuple(sorted(ranks)))


def check_normalised(c, o, arrays, nn):
    if o[0] == "err":
        # must be cast-incompatible: no numpy dtype all can be safely cast to
        if not nn:
            return Failure(c, o, "all-None / empty sequence rejected", {"kind": "cons", "why": "rejects-empty"})
        try:
            common = np.result_type(*[a.dtype for a in nn])
            if all(np.can_cast(a.dtype, common) for a in nn) and all(a.dtype.kind not in "USO" for a in nn):
                return Failure(c, o, f"cast-compatible sequence (common dtype {common}) rejected with {o[1]}",
                               {"kind": "cons", "why": "rejects-compatible"})
        except TypeError:
            pass
        if o[1] != "ValueError":
            return Failure(c, o, f"incompatible sequence rejected with {o[1]}, not ValueError", {"kind": "cons", "why": "exception-class"})
        return None
    out, miss = o[1], o[2]
    if len(out) != len(arrays):
        return Failure(c, o, "length changed", {"kind": "cons", "why": "length"})
    exp_miss = [a is None for a in arrays]
    if (miss if miss is not None else [False] * len(arrays)) != exp_miss:
        return Failure(c, o, f"missing flags {miss} != {exp_miss}", {"kind": "cons", "why": "missing"})
    if miss is not None and not any(exp_miss):
        return Failure(c, o, "missing array returned though nothing is missing", {"kind": "cons", "why": "missing"})
    dts = {e["dt"] for e in out}
    ranks = {len(e["shape"]) for e in out}
    if len(dts) > 1 or len(ranks) > 1:
        return Failure(c, o, f"elements of several dtypes/ranks: {dts} {ranks}", {"kind": "cons", "why": "not-uniform"})
    if not nn:
        return None
    dt = next(iter(dts))
    R = max(a.ndim for a in nn)
    if next(iter(ranks)) != R:
        return Failure(c, o, f"rank {ranks} is not the maximum input rank {R}", {"kind": "cons", "why": "rank"})
    for a, e in zip(arrays, out):
        if a is None:
            continue
        if a.dtype.kind in "USO":
            continue
        if not np.can_cast(a.dtype, np.dtype(dt if dt != "str" else "U")):
            return Failure(c, o, f"common dtype {dt} is not a safe cast target for {a.dtype}", {"kind": "cons", "why": "unsafe-cast"})
        exp = a.astype(dt).reshape((1,) * (R - a.ndim) + a.shape)
        if e["shape"] != list(exp.shape) or e["flat"] != enc_array(exp):
            return Failure(c, o, f"contents differ from cast+pad of the input: {abstract(exp)} vs {e}", {"kind": "cons", "why": "contents"})
    return None


def nontrivial(c, o):
    k = c["kind"]
    if k in ("cast", "promote"):
        return c["a"] != c["b"]
    if k == "result":
        return len(set(c["ds"])) > 1
    if k in ("ser", "rt"):
        return any(e["flat"] for e in c["vals"])
    if k == "deser":
        return bool(c["rows"])
    return len(c["seq"]) > 1


def describe(c, o):
    k = c["kind"]
    if k in ("ser", "rt"):
        dt = c["vals"][0]["dt"] if c["vals"] else "-"
        rank = len(c["vals"][0]["shape"]) if c["vals"] else "-"
        out = "err" if (isinstance(o, list) and o[0] == "err") else "ok"
        return f"{k}:n={len(c['vals'])}:rank={rank}:{dt}:{out}"
    if k == "cons":
        return f"cons:n={len(c['seq'])}:nones={sum(x is None for x in c['seq'])}:{o[0]}{':' + o[1] if o[0] == 'err' else ''}"
    if k == "deser":
        return f"deser:{o[0]}{':' + o[1] if o[0] == 'err' else ''}"
    if k == "result":
        return f"result:n={len(c['ds'])}"
    return k


def search(rng, budget):
    yield from generate(rng, "thorough")
