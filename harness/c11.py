"""C11 -- variable-length values are encoded and decoded without loss.

Correspondence: numpy's can_cast / promote_types / result_type tables (exhaustive),
serialize_vlen_property_data, deserialize_vlen_property_data, construct_var_len_props and
the composed path construct -> serialize -> deserialize against VlenX.v (dtype identity:
byte order, string width, object dtype; `missing` carried through) evaluated in Coq.
Oracle: written from the property text with numpy only.
"""
from __future__ import annotations

import itertools
import math
import random
from fractions import Fraction

import numpy as np

from harness.common import (Failure, HarnessError, big_endian, cbool, clist, cnat, copt, cz, dtype_name,
                            exn_name, relayout, DTYPE_COQ, LAYOUTS)

PROP = "C11"
NUM = ["bool", "int8", "int16", "int32", "int64", "uint8", "uint16", "uint32", "uint64",
       "float16", "float32", "float64"]
RULE = ("exhaustive dtype tables (can_cast, promote_types: all 144 pairs; result_type: all 4095 non-empty subsets of the 12 numeric "
        "dtypes in 1 (quick) / 3 (thorough) orders + all multisets of size<=3) + descriptor tables (byte order, widths, object) + "
        "bounded-exhaustive shape sequences (n<=2, rank<=2, dims 0..2) + seeded random sequences (n<=6, rank 0..3, "
        "dims 0..3, every numeric dtype in either byte order, str/bytes of several widths, object arrays, boundary values, "
        "NaN/inf/-0.0/non-dyadic floats as value tokens, any missing mask) + ragged inputs with all permutations for n<=4, each "
        "also through the whole path construct->serialize->deserialize; "
        "non-trivial = at least one non-empty element or an error outcome; distinct by structural input")
EXHAUSTIVE_BLOCKS = ["np.can_cast over all ordered pairs of 12 numeric dtypes",
                     "np.promote_types over all ordered pairs of 12 numeric dtypes",
                     "np.result_type over all multisets of size 1..3 of 12 numeric dtypes",
                     "np.result_type over all 4095 non-empty subsets of the 12 numeric dtypes (the model is a function of the set)",
                     "np.can_cast over all ordered pairs of 12 numeric dtypes with every byte-order combination, to and from object, "
                     "str/bytes widths 1..3",
                     "serialize/deserialize over all sequences of <=2 int16 arrays with rank<=2 and dims in 0..2",
                     "serialize over all ordered pairs of {<i4, >i4, |i1(swapped request), <U1, >U1, <U3, S1, S3, object, <f2, >f2}"]
ASSUMPTIONS = [
    "np.asarray on user input (nested lists, scalars) is the abstraction boundary: the model starts from the resulting arrays",
    "a sequence element that is not a numpy array (serialize only: a Python list among arrays) has no counterpart in the Coq "
    "input type (every element of `list xvarr` is an array): such cases are oracle-only (expected ValueError)",
    "strings / bytes are opaque tokens in Coq (injective integer encoding of the text); an item of an object array is "
    "8*payload+tag (int 0, float 1, bool 2, str 3, None 4, bytes 5); other Python objects are not generated",
    "np.result_type / np.can_cast on mixtures of str/bytes with another kind are NOT modelled (numpy would answer e.g. <U21): "
    "_get_common_type_dims raises before calling them; the descriptor tables therefore skip those mixtures",
    "float payloads: exact multiples of 2^-10 as scaled integers; NaN, +-inf, -0.0 and non-dyadic values as value tokens "
    "(identical for the same value in float16/32/64) -- integer->float casts never produce them",
    "complex / datetime / structured dtypes are outside the model and are not generated",
    "contents at positions flagged missing are uninitialised (np.empty): zeroed on both sides before comparing",
]

TOK = 1 << 100           # float value tokens live above every scaled payload the generators can produce (|value| < 2^80)
F_NAN, F_PINF, F_NINF, F_NZERO = TOK + 1, TOK + 2, TOK + 3, TOK + 4
ND_BASE = TOK + (1 << 90)


# ---------------------------------------------------------------- payload encoding
def enc_float(v: float) -> int:
    v = float(v)
    if v != v:
        return F_NAN
    if v == math.inf:
        return F_PINF
    if v == -math.inf:
        return F_NINF
    if v == 0.0 and math.copysign(1.0, v) < 0:
        return F_NZERO
    if abs(v) >= 2.0 ** 80:
        raise HarnessError(f"float {v!r} beyond the payload encoding")
    fr = Fraction(v)
    if (fr * 1024).denominator == 1:
        return int(fr * 1024)
    # not a multiple of 2^-10: a token of the exact value n / 2^k (the same for float16/32/64)
    n, d = fr.numerator, fr.denominator
    k = d.bit_length() - 1
    assert d == 1 << k and abs(n) < (1 << 63) and k < (1 << 12)
    return ND_BASE + (k << 64) + (n + (1 << 63))


def dec_float(p: int) -> float:
    if p == F_NAN:
        return math.nan
    if p == F_PINF:
        return math.inf
    if p == F_NINF:
        return -math.inf
    if p == F_NZERO:
        return -0.0
    if p >= ND_BASE:
        r = p - ND_BASE
        k, n = r >> 64, (r & ((1 << 64) - 1)) - (1 << 63)
        return float(Fraction(n, 1 << k))
    return p / 1024


def tok_str(s: str) -> int:
    return int.from_bytes(b"\x01" + s.encode("utf-8"), "big")


def tok_bytes(b: bytes) -> int:
    return int.from_bytes(b"\x02" + bytes(b), "big")


def enc_obj(x) -> int:
    if x is None:
        return 4
    if isinstance(x, (bool, np.bool_)):
        return 8 * int(x) + 2
    if isinstance(x, (int, np.integer)):
        return 8 * int(x) + 0
    if isinstance(x, (float, np.floating)):
        return 8 * enc_float(float(x)) + 1
    if isinstance(x, str):
        return 8 * tok_str(x) + 3
    if isinstance(x, bytes):
        return 8 * tok_bytes(x) + 5
    raise HarnessError(f"object item outside the encoding: {type(x)}")


def dec_obj(item):
    k = item[0]
    return {"int": lambda: int(item[1]), "float": lambda: float(item[1]), "bool": lambda: bool(item[1]),
            "str": lambda: str(item[1]), "none": lambda: None, "bytes": lambda: item[1].encode("ascii")}[k]()


def enc_flat(a: np.ndarray) -> list[int]:
    k = a.dtype.kind
    items = a.ravel().tolist()
    if k == "f":
        return [enc_float(v) for v in items]
    if k in "biu":
        return [int(v) for v in items]
    if k == "U":
        return [tok_str(v) for v in items]
    if k == "S":
        return [tok_bytes(v) for v in items]
    if k == "O":
        return [enc_obj(v) for v in a.ravel()]
    raise HarnessError(f"dtype outside the model: {a.dtype}")


def xdt_of(dt) -> dict:
    dt = np.dtype(dt)
    if dt.kind not in "biufUSO":
        raise HarnessError(f"dtype outside the model: {dt}")
    w = dt.itemsize // 4 if dt.kind == "U" else dt.itemsize if dt.kind == "S" else 0
    return {"dt": dtype_name(dt), "be": bool(not dt.isnative), "w": int(w)}


def xabstract(a: np.ndarray) -> dict:
    d = xdt_of(a.dtype)
    d.update({"shape": list(a.shape), "flat": enc_flat(a)})
    return d


def cxdt(d: dict) -> str:
    return f"(mkd {DTYPE_COQ[d['dt']]} {cbool(d['be'])} {cnat(d['w'])})"


def cxvarr(e: dict) -> str:
    return f"(mkx {cxdt(e)} {clist(e['shape'], cnat)} {clist(e['flat'], cz)})"


def cmiss(m) -> str:
    return copt(m, lambda x: clist(x, cbool))


# ---------------------------------------------------------------- values
def rand_payload(rng: random.Random, dt: str) -> int:
    if dt == "bool":
        return rng.randint(0, 1)
    if dt.startswith("float"):
        if rng.random() < 0.12:
            v = rng.choice([math.nan, math.inf, -math.inf, -0.0, 0.1, 1 / 3, 2.0 ** -14, 2.0 ** -24, -1e-3])
            with np.errstate(all="ignore"):
                return enc_float(float(np.dtype(dt).type(v)))
        if dt == "float16":
            return rng.choice([0, 1, -1, 512, 1024, -1536, rng.randint(-2047, 2047)])
        return rng.choice([0, 1, -1, 1024, 3 * 512, rng.randint(-4096, 4096), rng.randint(-2**20, 2**20) * 1024])
    info = np.iinfo(dt)
    return rng.choice([info.min, info.max, 0, 1, info.max - 1, rng.randint(info.min, info.max),
                       rng.randint(max(info.min, -5), min(info.max, 5))])


STRS = ["", "a", "b", "ab", "abc", "de", "é", "x y"]
BYTS = ["", "a", "q", "ab", "xyz"]


def mk_array(e: dict) -> np.ndarray:
    """The numpy array described by a generated element (see rand_elem)."""
    dt = e["dt"]
    shape = tuple(e["shape"])
    if dt == "str":
        a = np.array(e["strs"], dtype=f"U{e['w']}").reshape(shape)
    elif dt == "bytes":
        a = np.array([s.encode("ascii") for s in e["strs"]], dtype=f"S{e['w']}").reshape(shape)
    elif dt == "object":
        a = np.empty(len(e["objs"]), dtype=object)
        for i, it in enumerate(e["objs"]):
            a[i] = dec_obj(it)
        a = a.reshape(shape)
    else:
        if dt.startswith("float"):
            vals = [dec_float(p) for p in e["flat"]]
        elif dt == "bool":
            vals = [bool(p) for p in e["flat"]]
        else:
            vals = list(e["flat"])
        with np.errstate(all="ignore"):
            a = np.array(vals, dtype=dt).reshape(shape)
    if e.get("be"):
        a = big_endian(a)
    if shape != () and e.get("layout"):
        b = relayout(a, e["layout"])
        assert b.dtype.str == a.dtype.str
        a = b
    return a


def rand_elem(rng, dt, rank, maxdim=3, be=None, w=None) -> dict:
    shape = [rng.choice([0, 1, 1, 2, 2, 3][: maxdim + 3]) for _ in range(rank)]
    n = int(np.prod(shape)) if shape else 1
    e = {"dt": dt, "shape": shape}
    if dt == "str":
        e["strs"] = [rng.choice(STRS) for _ in range(n)]
        e["w"] = w if w is not None else max([1] + [len(s) for s in e["strs"]])
        e["strs"] = [s[: e["w"]] for s in e["strs"]]
    elif dt == "bytes":
        e["strs"] = [rng.choice(BYTS) for _ in range(n)]
        e["w"] = w if w is not None else max([1] + [len(s) for s in e["strs"]])
        e["strs"] = [s[: e["w"]].rstrip("\0") for s in e["strs"]]
    elif dt == "object":
        e["objs"] = [rng.choice([["int", rng.randint(-3, 3)], ["int", 2**64 + 1], ["float", rng.randint(-8, 8) / 4], ["bool", True],
                                 ["bool", False], ["str", rng.choice(STRS)], ["none"], ["bytes", "q"]]) for _ in range(n)]
    else:
        e["flat"] = [rand_payload(rng, dt) for _ in range(n)]
    if be if be is not None else rng.random() < 0.15:
        e["be"] = True
    lay = rng.choice(LAYOUTS)
    if lay != "C" and rank >= 1:
        e["layout"] = lay  # memory layout of the array handed to geff; logical contents are 'flat' in C order
    return e


# ---------------------------------------------------------------- generation
XD = [("int32", False), ("int32", True), ("int8", True), ("float16", False), ("float16", True)]


def fixed_elem(kind):
    """one [1]-shaped element of a named descriptor (for the exhaustive pair block of the encoder)"""
    table = {
        "<i4": {"dt": "int32", "shape": [1], "flat": [5]},
        ">i4": {"dt": "int32", "shape": [1], "flat": [5], "be": True},
        "|i1": {"dt": "int8", "shape": [1], "flat": [5], "be": True},
        "<U1": {"dt": "str", "shape": [1], "strs": ["a"], "w": 1},
        ">U1": {"dt": "str", "shape": [1], "strs": ["a"], "w": 1, "be": True},
        "<U3": {"dt": "str", "shape": [1], "strs": ["abc"], "w": 3},
        "S1": {"dt": "bytes", "shape": [1], "strs": ["a"], "w": 1},
        "S3": {"dt": "bytes", "shape": [1], "strs": ["a"], "w": 3},
        "O": {"dt": "object", "shape": [1], "objs": [["int", 5]]},
        "<f2": {"dt": "float16", "shape": [1], "flat": [512]},
        ">f2": {"dt": "float16", "shape": [1], "flat": [512], "be": True},
    }
    return dict(table[kind])


FIXED = ["<i4", ">i4", "|i1", "<U1", ">U1", "<U3", "S1", "S3", "O", "<f2", ">f2"]


def generate(rng: random.Random, tier: str):
    quick = tier == "quick"
    # exhaustive dtype tables (name level)
    for a in NUM:
        for b in NUM:
            yield {"kind": "cast", "a": a, "b": b}
            yield {"kind": "promote", "a": a, "b": b}
    for k in (1, 2, 3):
        for ms in itertools.combinations_with_replacement(NUM, k):
            ds = list(ms)
            rng.shuffle(ds)
            yield {"kind": "result", "ds": ds}
    # the model is a function of the SET of dtypes: every non-empty subset, in several orders
    for k in range(1, 13):
        for sub in itertools.combinations(NUM, k):
            orders = [list(sub)] if quick else [list(sub), list(reversed(sub))]
            if not quick:
                sh = list(sub)
                rng.shuffle(sh)
                orders.append(sh)
            for o in orders:
                yield {"kind": "result", "ds": o}
    for _ in range(150 if quick else 1500):
        yield {"kind": "result", "ds": [rng.choice(NUM) for _ in range(rng.randint(4, 7))]}

    # descriptor tables: byte order is irrelevant for can_cast / result_type, widths and object matter
    def xd(dt, be=False, w=0):
        return {"dt": dt, "be": be, "w": w}
    for a in NUM:
        for b in NUM:
            for ba in (False, True):
                for bb in (False, True):
                    if ba or bb:
                        yield {"kind": "xcast", "a": xd(a, ba), "b": xd(b, bb)}
        yield {"kind": "xcast", "a": xd(a, rng.random() < 0.5), "b": xd("object")}
        yield {"kind": "xcast", "a": xd("object"), "b": xd(a)}
        yield {"kind": "xcast", "a": xd("str", False, 2), "b": xd(a)}
    yield {"kind": "xcast", "a": xd("object"), "b": xd("object")}
    for k in ("str", "bytes"):
        for wa in (1, 2, 3):
            for wb in (1, 2, 3):
                yield {"kind": "xcast", "a": xd(k, k == "str" and wa == 2, wa), "b": xd(k, False, wb)}
        yield {"kind": "xcast", "a": xd("object"), "b": xd(k, False, 2)}
    yield {"kind": "xcast", "a": xd("str", False, 2), "b": xd("bytes", False, 2)}
    for _ in range(200 if quick else 2000):
        r = rng.random()
        n = rng.randint(1, 5)
        if r < 0.4:
            ds = [xd(rng.choice(NUM), rng.random() < 0.4) for _ in range(n)]
        elif r < 0.6:
            ds = [xd(rng.choice(NUM + ["object", "object"]), rng.random() < 0.3) for _ in range(n)]
        elif r < 0.8:
            ds = [xd("str", rng.random() < 0.3, rng.randint(1, 4)) for _ in range(n)]
        else:
            ds = [xd("bytes", False, rng.randint(1, 4)) for _ in range(n)]
        yield {"kind": "xresult", "ds": ds}

    # bounded-exhaustive layouts
    shapes = [[]] + [[a] for a in range(3)] + [[a, b] for a in range(3) for b in range(3)]
    ctr = 0
    for n in (0, 1, 2):
        for combo in itertools.product(shapes, repeat=n):
            if len({len(s) for s in combo}) > 1:
                continue
            vals = []
            for s in combo:
                cnt = int(np.prod(s)) if s else 1
                vals.append({"dt": "int16", "shape": list(s), "flat": list(range(ctr, ctr + cnt))})
                ctr = (ctr + cnt) % 30000
            miss = [[None], [None, [False] * n, [True] * n, [i % 2 == 0 for i in range(n)]]][n > 0]
            for m in miss:
                yield {"kind": "ser", "vals": vals, "missing": m}
                yield {"kind": "rt", "vals": vals, "missing": m}
    # dtype identity in the encoder: every ordered pair of named descriptors
    for a in FIXED:
        for b in FIXED:
            yield {"kind": "ser", "vals": [fixed_elem(a), fixed_elem(b)], "missing": None}
            yield {"kind": "ser", "vals": [fixed_elem(a), fixed_elem(a), fixed_elem(b)], "missing": [False, True, False]}
        yield {"kind": "rt", "vals": [fixed_elem(a), fixed_elem(a)], "missing": [True, False]}

    def rand_missing(n):
        r = rng.random()
        if r < 0.4:
            return None
        if r < 0.9:
            return [rng.random() < 0.3 for _ in range(n)]
        return [rng.random() < 0.5 for _ in range(rng.choice([0, n + 1, max(0, n - 1)]))]  # wrong length: handed through as it is

    nrand = 250 if quick else 4000
    for _ in range(nrand):
        dt = rng.choice(NUM + ["str", "bytes", "object"])
        rank = rng.choice([0, 1, 1, 2, 2, 3])
        n = rng.choice([0, 1, 2, 3, 4, 6])
        be = rng.random() < 0.25
        w = rng.randint(1, 3)
        vals = [rand_elem(rng, dt, rank, be=be, w=w) for _ in range(n)]
        yield {"kind": "ser", "vals": vals, "missing": rand_missing(n)}
        yield {"kind": "rt", "vals": vals, "missing": rand_missing(n)}
    # malformed sequences for the encoder: mixed rank / dtype / byte order / width / non-array
    for _ in range(120 if quick else 1200):
        n = rng.randint(2, 4)
        r = rng.random()
        if r < 0.35:
            vals = [rand_elem(rng, rng.choice(NUM[:6]) if rng.random() < 0.5 else "int32", rng.choice([1, 1, 2])) for _ in range(n)]
        elif r < 0.6:   # one dtype name, random byte order per element
            dt = rng.choice(["int16", "int32", "uint64", "float16", "float64", "int8", "bool", "str"])
            vals = [rand_elem(rng, dt, 1, be=rng.random() < 0.5, w=2) for _ in range(n)]
        elif r < 0.8:   # strings / bytes of random widths
            dt = rng.choice(["str", "bytes"])
            vals = [rand_elem(rng, dt, 1, be=False, w=rng.randint(1, 3)) for _ in range(n)]
        elif r < 0.9:   # object next to something else
            vals = [rand_elem(rng, rng.choice(["object", "object", "int64", "str"]), 1, be=False) for _ in range(n)]
        else:           # a Python list among the arrays
            vals = [rand_elem(rng, "int64", 1, be=False) for _ in range(n)]
            vals[rng.randrange(n)] = {"list": [1, 2]}
        yield {"kind": "ser", "vals": vals, "missing": rand_missing(n)}
    # arbitrary (possibly out-of-bounds) tables for the decoder
    for _ in range(120 if quick else 1200):
        ncol = rng.choice([0, 1, 2, 2, 3])
        rows = [[rng.randint(0, 6)] + [rng.randint(0, 3) for _ in range(ncol - 1)] if ncol > 0 else [] for _ in range(rng.randint(0, 4))]
        data = [rng.randint(-9, 9) for _ in range(rng.randint(0, 8))]
        yield {"kind": "deser", "rows": rows, "data": data, "missing": rand_missing(len(rows))}

    # ragged user input
    def rand_seq(n):
        seq = []
        pool = rng.choice([NUM, NUM[:9], ["int8", "uint8", "float16"], ["int16", "uint16", "float32"],
                           ["int64", "uint64", "float64"], ["bool", "int8"], ["int64", "float64"],
                           ["str"], ["bytes"], ["object", "int8", "float16", "bool"], ["str", "int8"], ["str", "bytes"],
                           ["object", "str"], NUM + ["object"]])
        for _ in range(n):
            r = rng.random()
            if r < 0.2:
                seq.append(None)
            elif r < 0.85:
                seq.append(rand_elem(rng, rng.choice(pool), rng.choice([0, 1, 1, 2, 3]), maxdim=2))
            else:
                # nested python list / scalar: np.asarray does the inference
                k = rng.choice(["ints", "floats", "scalar", "bools", "empty", "strs", "big", "huge"])
                py = {"ints": [rng.randint(-5, 5) for _ in range(rng.randint(1, 3))],
                      "floats": [rng.randint(-8, 8) / 4 for _ in range(rng.randint(1, 3))],
                      "scalar": rng.randint(0, 9), "bools": [True, False][: rng.randint(1, 2)], "empty": [],
                      "strs": [rng.choice(STRS) for _ in range(rng.randint(1, 2))],
                      "big": [2**63 + rng.randint(0, 3)], "huge": [2**64 + 1, 1]}[k]
                seq.append({"py": py})
        return seq

    def both(seq):
        yield {"kind": "cons", "seq": seq}
        yield {"kind": "pipe", "seq": seq}

    # the cast that is NOT exact (open finding int64-rounded-through-float64) and its exact neighbours
    for seq in ([{"dt": "int64", "shape": [1], "flat": [2**53 + 1]}, {"dt": "float16", "shape": [0], "flat": []}],
                [{"dt": "int64", "shape": [2], "flat": [2**53, -2**53]}, {"dt": "float16", "shape": [0], "flat": []}],
                [{"py": [2**53 + 1, -128]}, {"py": []}],
                [{"dt": "uint64", "shape": [1], "flat": [2**64 - 1]}, {"dt": "int8", "shape": [1], "flat": [-1]}],
                [{"dt": "int64", "shape": [], "flat": [2**63 - 1]}, None, {"dt": "float32", "shape": [1], "flat": [512]}],
                [{"dt": "uint64", "shape": [1], "flat": [2**53 + 2]}, {"dt": "float64", "shape": [1], "flat": [1024]}]):
        yield from both(seq)
    # byte order, widths, objects, strings: fixed distinguishing inputs
    for seq in ([fixed_elem(">i4"), fixed_elem("<i4")], [fixed_elem(">i4")], [fixed_elem(">i4"), None],
                [fixed_elem(">f2"), fixed_elem("|i1")], [fixed_elem("<U1"), fixed_elem("<U3")], [fixed_elem(">U1"), None],
                [fixed_elem("S1"), fixed_elem("S3"), None], [fixed_elem("O"), fixed_elem("<i4")], [fixed_elem("<i4"), fixed_elem("O")],
                [fixed_elem("O"), fixed_elem("<f2"), None], [fixed_elem("O"), fixed_elem("<U1")], [fixed_elem("S1"), fixed_elem("<U1")],
                [fixed_elem("<U1"), fixed_elem("<i4")], [fixed_elem("S1"), fixed_elem("<i4")], [fixed_elem("O"), fixed_elem("S1")],
                [{"dt": "object", "shape": [], "objs": [["none"]]}, None],
                [{"dt": "bool", "shape": [2], "flat": [1, 0]}, fixed_elem("O")]):
        yield from both(seq)
    for _ in range(300 if quick else 3000):
        yield from both(rand_seq(rng.choice([0, 1, 2, 3, 3, 4, 5, 6])))
    # all permutations of short sequences (order-freeness, also fed to the model)
    for _ in range(40 if quick else 300):
        seq = rand_seq(rng.choice([2, 3, 3, 4]))
        for perm in itertools.permutations(range(len(seq))):
            yield {"kind": "cons", "seq": [seq[i] for i in perm]}
    # triples hitting the non-associativity of promote_types
    for tr in (["int16", "uint16", "float32"], ["int8", "uint8", "float16"], ["uint8", "int8", "float16"],
               ["int64", "int8"], ["float64", "int64"], ["uint64", "int64"], ["int8", "int16", "int8"]):
        for perm in itertools.permutations(tr):
            yield {"kind": "cons", "seq": [{"dt": d, "shape": [1], "flat": [1]} for d in perm]}
    # strings given as Python lists
    for s in ([{"py": ["a"]}, {"py": ["abc", "de"]}], [{"py": ["abc"]}, {"py": ["a"]}], [{"py": [2]}, {"py": ["a"]}], [{"py": ["a"]}, {"py": [2]}]):
        yield from both(s)


def to_input(x):
    if x is None:
        return None
    if "py" in x:
        return x["py"]
    if "list" in x:
        return x["list"]
    return mk_array(x)


def as_array(x) -> np.ndarray:
    """np.asarray of a generated element: the abstraction boundary for nested lists / scalars"""
    return np.asarray(to_input(x))


# ---------------------------------------------------------------- implementation
def obs_elems(seq_or_none, arrs):
    """abstract a list of output arrays; contents of elements at None positions are don't-care: zeroed"""
    out = []
    for i, a in enumerate(arrs):
        if not isinstance(a, np.ndarray):
            return None
        if seq_or_none is not None and i < len(seq_or_none) and seq_or_none[i] is None:
            # the element at a None position is np.empty(...): UNINITIALISED memory -- its contents are don't-care and may be any bit
            # pattern (a float beyond the payload encoding made xabstract raise once): abstract a zeroed copy
            a = np.zeros_like(a) if a.dtype.kind not in "USO" else a
            e = xabstract(a)
            e["flat"] = [0] * len(e["flat"])
        else:
            e = xabstract(a)
        out.append(e)
    return out


def miss_list(m):
    return None if m is None else [bool(b) for b in m]


def run_cons(seq):
    from geff.core_io import construct_var_len_props

    try:
        d = construct_var_len_props([to_input(x) for x in seq])
    except Exception as e:
        return ["err", exn_name(e)], None
    return None, d


def run_impl(c):
    from geff.core_io._serialization import deserialize_vlen_property_data, serialize_vlen_property_data

    k = c["kind"]
    if k == "cast":
        return bool(np.can_cast(np.dtype(c["a"]), np.dtype(c["b"])))
    if k == "promote":
        try:
            return dtype_name(np.promote_types(c["a"], c["b"]))
        except TypeError:
            return None
    if k == "result":
        try:
            return dtype_name(np.result_type(*[np.dtype(d) for d in c["ds"]]))
        except TypeError:
            return None
    if k == "xcast":
        return bool(np.can_cast(np_dtype(c["a"]), np_dtype(c["b"])))
    if k == "xresult":
        try:
            return xdt_of(np.result_type(*[np_dtype(d) for d in c["ds"]]))
        except TypeError:
            return None
    if k in ("ser", "rt"):
        vals = np.empty(len(c["vals"]), dtype=object)
        for i, e in enumerate(c["vals"]):
            vals[i] = to_input(e)
        missing = None if c.get("missing") is None else np.array(c["missing"], dtype=bool)
        try:
            values, miss, data = serialize_vlen_property_data({"values": vals, "missing": missing})
        except Exception as e:
            return ["err", exn_name(e)]
        ser = ["ok", values.tolist() if values.ndim == 2 else [], miss_list(miss), enc_flat(data), xdt_of(data.dtype),
               str(values.dtype)]
        if k == "ser":
            return ser
        try:
            dec = deserialize_vlen_property_data(values, miss, data)
        except Exception as e:
            return {"ser": ser, "dec": ["err", exn_name(e)]}
        return {"ser": ser, "dec": ["ok", obs_elems(None, list(dec["values"])), miss_list(dec["missing"])]}
    if k == "deser":
        ncol = len(c["rows"][0]) if c["rows"] else 1
        values = np.array(c["rows"], dtype=np.uint64).reshape((len(c["rows"]), ncol))
        data = np.array(c["data"], dtype=np.int64)
        missing = None if c.get("missing") is None else np.array(c["missing"], dtype=bool)
        try:
            dec = deserialize_vlen_property_data(values, missing, data)
        except Exception as e:
            return ["err", exn_name(e)]
        return ["ok", obs_elems(None, list(dec["values"])), miss_list(dec["missing"])]
    if k == "cons":
        err, d = run_cons(c["seq"])
        if err:
            return err
        el = obs_elems(c["seq"], list(d["values"]))
        return ["err", "OtherExn"] if el is None else ["ok", el, miss_list(d["missing"])]
    if k == "pipe":
        err, d = run_cons(c["seq"])
        if err:
            return err
        try:
            values, miss, data = serialize_vlen_property_data(d)
            dec = deserialize_vlen_property_data(values, miss, data)
        except Exception as e:
            return ["err", exn_name(e)]
        el = obs_elems(c["seq"], list(dec["values"]))
        return ["err", "OtherExn"] if el is None else ["ok", el, miss_list(dec["missing"])]
    raise ValueError(k)


def np_dtype(d: dict) -> np.dtype:
    if d["dt"] == "str":
        dt = np.dtype(f"U{d['w']}")
    elif d["dt"] == "bytes":
        dt = np.dtype(f"S{d['w']}")
    else:
        dt = np.dtype(d["dt"])
    return dt.newbyteorder(">") if d["be"] else dt


# ---------------------------------------------------------------- Coq terms
def cvals(o) -> str:
    """OXVals of an observation ['ok', elems, missing] | ['err', name]"""
    if o[0] == "ok":
        return f"OXVals (Ok ({clist(o[1], cxvarr)}, {cmiss(o[2])}))"
    return f"OXVals (Err {o[1]})"


def coq_case(c, o):
    k = c["kind"]
    if k == "cast":
        return f"(ICast {DTYPE_COQ[c['a']]} {DTYPE_COQ[c['b']]}, OBool {cbool(o)})"
    if k == "promote":
        return f"(IPromote {DTYPE_COQ[c['a']]} {DTYPE_COQ[c['b']]}, ODt {copt(o, lambda d: DTYPE_COQ[d])})"
    if k == "result":
        return f"(IResult {clist(c['ds'], lambda d: DTYPE_COQ[d])}, ODt {copt(o, lambda d: DTYPE_COQ[d])})"
    if k == "xcast":
        return f"(IXCast {cxdt(canon(c['a']))} {cxdt(canon(c['b']))}, OBool {cbool(o)})"
    if k == "xresult":
        return f"(IXResult {clist([canon(d) for d in c['ds']], cxdt)}, OXDt {copt(o, cxdt)})"
    if k == "ser":
        if any("list" in e for e in c["vals"]):
            return None  # a non-array element has no counterpart in `list xvarr` (ASSUMPTIONS)
        inp = f"IXSer {clist([xabstract(mk_array(e)) for e in c['vals']], cxvarr)} {cmiss(c.get('missing'))}"
        if o[0] == "ok":
            ob = f"OXSer (Ok ({clist(o[1], lambda r: clist(r, cnat))}, {cmiss(o[2])}, {clist(o[3], cz)}, {cxdt(o[4])}))"
        else:
            ob = f"OXSer (Err {o[1]})"
        return f"({inp}, {ob})"
    if k == "rt":
        if isinstance(o, list):  # encoder refused: nothing to decode
            return None
        ser, dec = o["ser"], o["dec"]
        inp = f"IXDeser {clist(ser[1], lambda r: clist(r, cnat))} {cmiss(ser[2])} {cxdt(ser[4])} {clist(ser[3], cz)}"
        return f"({inp}, {cvals(dec)})"
    if k == "deser":
        inp = (f"IXDeser {clist(c['rows'], lambda r: clist(r, cnat))} {cmiss(c.get('missing'))} "
               f"{cxdt(c.get('xdt') or {'dt': 'int64', 'be': False, 'w': 0})} {clist(c['data'], cz)}")   # xdt: harvested calls (harness/harvest.py)
        return f"({inp}, {cvals(o)})"
    if k in ("cons", "pipe"):
        items = ["None" if x is None else f"(Some {cxvarr(xabstract(as_array(x)))})" for x in c["seq"]]
        return f"({'IXCons' if k == 'cons' else 'IXPipe'} {clist(items)}, {cvals(o)})"
    raise ValueError(k)


def canon(d: dict) -> dict:
    """descriptor of the numpy dtype actually built from d (a byte-order request on a 1-byte dtype has no effect)"""
    return xdt_of(np_dtype(d))


# ---------------------------------------------------------------- oracle (from the property text)
def value_of(dt: str, p: int):
    """the value a payload stands for (independent of the dtype width): exact rational, text, Python object"""
    if dt == "bool":
        return ("num", Fraction(int(p)), "bool")
    if dt.startswith("float"):
        return ("tok", p, "float") if p >= TOK else ("num", Fraction(p, 1024), "float")
    if dt in ("str", "bytes"):
        return (dt, p, dt)
    if dt == "object":
        tag, v = p % 8, p // 8
        if tag == 0:
            return ("num", Fraction(v), "int")
        if tag == 1:
            return ("tok", v, "float") if v >= TOK else ("num", Fraction(v, 1024), "float")
        if tag == 2:
            return ("num", Fraction(v), "bool")
        return ("obj", p, "obj")
    return ("num", Fraction(int(p)), "int")


def same_value(dt_in, p_in, dt_out, p_out) -> bool:
    a, b = value_of(dt_in, p_in), value_of(dt_out, p_out)
    if a[:2] != b[:2]:
        return False
    if dt_out == "object" and dt_in != "object":
        return a[2] == b[2]  # a number stored in an object array keeps its Python kind (int / float / bool)
    return True


def type_string(a: np.ndarray) -> str:
    return a.dtype.str  # '<i4', '>i4', '|i1', '<U3', '|S2', '|O': byte order and width spelled out


def oracle(c, o):
    k = c["kind"]
    if k in ("cast", "promote", "result", "xcast", "xresult"):
        return None
    if k == "deser":
        if o[0] == "ok" and o[2] != c.get("missing"):
            return Failure(c, o, "decoder changed the missing flags", {"kind": "deser", "why": "missing"})
        return None
    if k == "ser":
        if any("list" in e for e in c["vals"]):
            if o != ["err", "ValueError"]:
                return Failure(c, o, "a non-array element is not rejected with ValueError", {"kind": "ser", "why": "accepts-non-array"})
            return None
        vals = [mk_array(e) for e in c["vals"]]
        uniform = len({a.ndim for a in vals}) <= 1 and len({type_string(a) for a in vals}) <= 1
        if o[0] == "err":
            if uniform:
                return Failure(c, o, "encoder rejects a sequence of one rank and dtype", {"kind": "ser", "why": "rejects-uniform"})
            if o[1] != "ValueError":
                return Failure(c, o, f"mixed sequence rejected with {o[1]}, not ValueError", {"kind": "ser", "why": "exception-class"})
            return None
        if not uniform:
            return Failure(c, o, "encoder accepts elements of several ranks / dtypes (byte order and width are part of the dtype): "
                           f"{[type_string(a) for a in vals]} ranks {[a.ndim for a in vals]}", {"kind": "ser", "why": "accepts-nonuniform"})
        rows, miss, data, ddt = o[1], o[2], o[3], o[4]
        off = 0
        exp = []
        if len(rows) != len(vals):
            return Failure(c, o, "one table row per element expected", {"kind": "ser", "why": "count"})
        for r, a in zip(rows, vals):
            if r[0] != off:
                return Failure(c, o, f"offsets not contiguous: row {r} expected offset {off}", {"kind": "ser", "why": "contiguity"})
            if list(r[1:]) != list(a.shape):
                return Failure(c, o, f"row {r} does not carry shape {a.shape}", {"kind": "ser", "why": "shape"})
            off += a.size
            if off > len(data):
                return Failure(c, o, f"slice of row {r} exceeds data length {len(data)}", {"kind": "ser", "why": "bounds"})
            exp += enc_flat(a)
        if data != exp:
            return Failure(c, o, "data is not the concatenation of the elements", {"kind": "ser", "why": "data"})
        if rows and o[5] != "uint64":
            return Failure(c, o, f"values table dtype {o[5]}", {"kind": "ser", "why": "table-dtype"})
        if vals and (ddt["dt"], ddt["w"]) != (dtype_name(vals[0].dtype), xdt_of(vals[0].dtype)["w"]):
            return Failure(c, o, f"data dtype {ddt} is not the element dtype {vals[0].dtype}", {"kind": "ser", "why": "data-dtype"})
        if miss != c.get("missing"):
            return Failure(c, o, "missing flags changed by the encoder", {"kind": "ser", "why": "missing"})
        return None
    if k == "rt":
        if isinstance(o, list):
            return None
        dec = o["dec"]
        vals = [mk_array(e) for e in c["vals"]]
        if len({a.ndim for a in vals}) > 1 or len({type_string(a) for a in vals}) > 1:
            return None
        if dec[0] == "err":
            return Failure(c, o, f"decoding the encoder's own output raises {dec[1]}", {"kind": "rt", "why": "decode-raises"})
        if len(dec[1]) != len(vals):
            return Failure(c, o, "element count changed", {"kind": "rt", "why": "count"})
        for e, a in zip(dec[1], vals):
            x = xabstract(a)
            # identical dtype up to byte order (name and width), identical shape and contents
            if (e["dt"], e["w"]) != (x["dt"], x["w"]) or e["shape"] != x["shape"] or e["flat"] != x["flat"]:
                return Failure(c, o, f"element changed: {x} -> {e}", {"kind": "rt", "why": "element"})
        if dec[2] != c.get("missing"):
            return Failure(c, o, "missing flags changed", {"kind": "rt", "why": "missing"})
        return None
    if k in ("cons", "pipe"):
        seq = c["seq"]
        arrays = [None if x is None else as_array(x) for x in seq]
        nn = [a for a in arrays if a is not None]
        f = check_normalised(c, o, arrays, nn)
        if f is not None or k == "pipe":
            return f
        # order independence: outcome, dtype and rank under permutations
        n = len(seq)
        if n <= 1:
            return None
        if n <= 4:
            perms = list(itertools.permutations(range(n)))[1:]
        else:
            r = random.Random(hash(repr(seq)) & 0xFFFF)
            perms = [tuple(reversed(range(n)))] + [tuple(r.sample(range(n), n)) for _ in range(3)]
        sig0 = signature(o)
        for p in perms:
            pseq = [seq[i] for i in p]
            o2 = run_impl({"kind": "cons", "seq": pseq})
            if signature(o2) != sig0:
                return Failure(c, o, f"normalisation depends on element order: {sig0} vs {signature(o2)} for permutation {p}",
                               {"kind": "cons", "why": "order-dependent"})
            if o2[0] == "ok" and o[0] == "ok":
                for j, i in enumerate(p):
                    if arrays[i] is None:
                        continue
                    if o[1][i]["shape"] != o2[1][j]["shape"] or o[1][i]["flat"] != o2[1][j]["flat"]:
                        return Failure(c, o, "normalised element differs under permutation", {"kind": "cons", "why": "order-dependent-values"})
        return None
    return None


def signature(o):
    if o[0] == "err":
        return ("err", o[1])
    dts = {(e["dt"], e["be"], e["w"]) for e in o[1]}
    ranks = {len(e["shape"]) for e in o[1]}
    return ("ok", tuple(sorted(dts)), tuple(sorted(ranks)))


def check_normalised(c, o, arrays, nn):
    kind = c["kind"]
    kinds = {a.dtype.kind for a in nn}
    string_mix = len(kinds) > 1 and bool(kinds & {"U", "S"})
    if o[0] == "err":
        if not nn:
            return Failure(c, o, "all-None / empty sequence rejected", {"kind": kind, "why": "rejects-empty"})
        if not string_mix:
            # must be cast-incompatible: no numpy dtype all can be safely cast to
            try:
                common = np.result_type(*[a.dtype for a in nn])
                if all(np.can_cast(a.dtype, common) for a in nn):
                    return Failure(c, o, f"cast-compatible sequence (common dtype {common}) rejected with {o[1]}",
                                   {"kind": kind, "why": "rejects-compatible"})
            except TypeError:
                pass
        if o[1] != "ValueError":
            return Failure(c, o, f"incompatible sequence rejected with {o[1]}, not ValueError", {"kind": kind, "why": "exception-class"})
        return None
    if string_mix:
        return Failure(c, o, "text mixed with another kind is accepted (numbers would be turned into text)", {"kind": kind, "why": "accepts-string-mix"})
    out, miss = o[1], o[2]
    if len(out) != len(arrays):
        return Failure(c, o, "length changed", {"kind": kind, "why": "length"})
    exp_miss = [a is None for a in arrays]
    if (miss if miss is not None else [False] * len(arrays)) != exp_miss:
        return Failure(c, o, f"missing flags {miss} != {exp_miss}", {"kind": kind, "why": "missing"})
    if miss is not None and not any(exp_miss):
        return Failure(c, o, "missing array returned though nothing is missing", {"kind": kind, "why": "missing"})
    dts = {(e["dt"], e["be"], e["w"]) for e in out}
    ranks = {len(e["shape"]) for e in out}
    if len(dts) > 1 or len(ranks) > 1:
        return Failure(c, o, f"elements of several dtypes/ranks: {dts} {ranks}", {"kind": kind, "why": "not-uniform"})
    if not nn:
        if out and (next(iter(dts)) != ("int64", False, 0) or ranks != {1}):
            return Failure(c, o, f"all-None sequence: {dts} {ranks}, documented int64 / 1", {"kind": kind, "why": "default"})
        return None
    dt = next(iter(dts))
    R = max(a.ndim for a in nn)
    if next(iter(ranks)) != R:
        return Failure(c, o, f"rank {ranks} is not the maximum input rank {R}", {"kind": kind, "why": "rank"})
    for a, e in zip(arrays, out):
        if a is None:
            if any(d != 0 for d in e["shape"]):
                return Failure(c, o, f"missing entry is not an empty array: shape {e['shape']}", {"kind": kind, "why": "missing-shape"})
            continue
        if not np.can_cast(a.dtype, np_dtype({"dt": dt[0], "be": dt[1], "w": dt[2]})):
            return Failure(c, o, f"common dtype {dt} is not a safe cast target for {a.dtype}", {"kind": kind, "why": "unsafe-cast"})
        if e["shape"] != [1] * (R - a.ndim) + list(a.shape):
            return Failure(c, o, f"shape {e['shape']} is not {a.shape} padded with leading axes to rank {R}", {"kind": kind, "why": "contents"})
        x = xabstract(a)
        for pi, po in zip(x["flat"], e["flat"]):
            if not same_value(x["dt"], pi, e["dt"], po):
                if x["dt"] in ("int64", "uint64") and e["dt"] == "float64" and abs(pi) > 2**53:
                    # the property demands "contents equal the inputs AFTER the safe common cast": int64/uint64 -> float64 is what numpy
                    # calls safe and it rounds beyond 2^53, so the reference is the cast value (C11_normalise_exact_refuted states the
                    # rounding as a theorem; it is an observation about numpy's notion of "safe", not a violation of the property)
                    if Fraction(po, 1024) == Fraction(float(pi)):
                        CAST_ROUNDED[0] += 1
                        continue
                    return Failure(c, o, f"{x['dt']} value {pi} came back as {Fraction(po, 1024)}, the float64 cast is {float(pi)!r}",
                                   {"kind": kind, "why": "contents"})
                return Failure(c, o, f"contents differ from the input: {x} vs {e}", {"kind": kind, "why": "contents"})
    return None


CAST_ROUNDED = [0]   # elements that came back as the (rounded) float64 cast of an int64/uint64 beyond 2^53


def nontrivial(c, o):
    k = c["kind"]
    if k in ("cast", "promote"):
        return c["a"] != c["b"]
    if k == "xcast":
        return True
    if k in ("result", "xresult"):
        return len({repr(d) for d in c["ds"]}) > 1
    if k in ("ser", "rt"):
        return any(e.get("flat") or e.get("strs") or e.get("objs") for e in c["vals"]) or (isinstance(o, list) and o[0] == "err")
    if k == "deser":
        return bool(c["rows"])
    return len(c["seq"]) > 1


def describe(c, o):
    k = c["kind"]
    if k in ("ser", "rt"):
        v0 = c["vals"][0] if c["vals"] else {}
        dt = v0.get("dt", "list" if v0 else "-")
        rank = len(v0["shape"]) if "shape" in v0 else "-"
        out = "err" if (isinstance(o, list) and o[0] == "err") else "ok"
        mixed = "be" if len({bool(e.get("be")) for e in c["vals"]}) > 1 else ""
        return f"{k}:n={len(c['vals'])}:rank={rank}:{dt}{mixed}:{'m' if c.get('missing') is not None else '-'}:{out}"
    if k in ("cons", "pipe"):
        return f"{k}:n={len(c['seq'])}:nones={sum(x is None for x in c['seq'])}:{o[0]}{':' + o[1] if o[0] == 'err' else ''}"
    if k == "deser":
        return f"deser:{o[0]}{':' + o[1] if o[0] == 'err' else ''}"
    if k in ("result", "xresult"):
        return f"{k}:n={len(c['ds'])}"
    return k


def search(rng, budget):
    yield from generate(rng, "thorough")


def extra_coverage():
    return {"elements_equal_to_the_rounded_float64_cast_of_an_int64_beyond_2^53": CAST_ROUNDED[0]}
