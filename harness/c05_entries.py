"""C05 -- crash points of every writing entry point (converters, write_dicts and the backend writers called directly, the
spatial-graph writer through geff.write) on a directory target.

The converters only take paths, so storage failures are injected below them: every mutation (set / set_if_not_exists / delete /
delete_dir) of any zarr LocalStore rooted inside the target directory, and the shutil.rmtree of delete_geff, is counted in program
order; run k fails mutation k with OSError.  After each run the directory is dumped and judged by validate_structure +
read_to_memory.  Tied to Entry.v through Corr/C05.v::IEntryCrash (same obligations as for write_arrays: result class, final tree,
every recognised survivor is the new or the previous graph, every state of the model's trace occurs among the real crash states).
"""
from __future__ import annotations

import random
import shutil
from pathlib import Path

import numpy as np

from harness import graphgen as gg
from harness.common import Failure, HarnessError, cbool, clist, exn_name


class PathFaults:
    def __init__(self, target: Path, fail_at=None):
        self.target, self.fail_at, self.log = Path(target), fail_at, []

    def inside(self, p) -> bool:
        try:
            Path(str(p)).resolve().relative_to(self.target.resolve())
            return True
        except ValueError:
            return False

    def lock(self):
        import asyncio

        if getattr(self, "_lock", None) is None:
            self._lock = asyncio.Lock()
        return self._lock

    def tick(self, op, key):
        idx = len(self.log)
        self.log.append((op, str(key)))
        if self.fail_at is not None and idx >= self.fail_at:
            # storage stays broken from mutation fail_at on: zarr issues some writes concurrently (asyncio.gather), and a write that
            # would still succeed after the failure has been reported would make the surviving state depend on thread timing
            raise OSError(f"injected storage failure at mutation {idx}: {op} {key}")

    def __enter__(self):
        from zarr.storage import LocalStore

        import geff.core_io._utils as gu

        pf = self
        self.LocalStore, self.gu = LocalStore, gu
        self.saved = {n: getattr(LocalStore, n) for n in ("set", "set_if_not_exists", "delete", "delete_dir")}

        def wrap(name):
            orig = self.saved[name]

            async def f(store, key, *a, **k):
                if not pf.inside(store.root):
                    return await orig(store, key, *a, **k)
                async with pf.lock():   # one mutation at a time, each completed before the next is counted
                    pf.tick(name, f"{Path(str(store.root)).name}/{key}")
                    return await orig(store, key, *a, **k)

            return f

        for n in self.saved:
            setattr(LocalStore, n, wrap(n))
        # opening a writable LocalStore creates its root directory: a mutation of its own when the directory is not there yet
        orig_open = LocalStore._open
        self.saved["_open"] = orig_open

        async def _open(store, *a, **k):
            if not store.read_only and not Path(str(store.root)).exists() and pf.inside(store.root):
                pf.tick("mkdir", Path(str(store.root)).name)
            return await orig_open(store, *a, **k)

        LocalStore._open = _open

        class ShProxy:
            def __getattr__(self, name):
                return getattr(shutil, name)

            @staticmethod
            def rmtree(p, *a, **k):
                if pf.inside(p):
                    pf.tick("rmtree", Path(str(p)).name)
                return shutil.rmtree(p, *a, **k)

        self.saved_shutil = gu.shutil
        gu.shutil = ShProxy()
        return self

    def __exit__(self, *exc):
        for n, f in self.saved.items():
            setattr(self.LocalStore, n, f)
        self.gu.shutil = self.saved_shutil
        return False


# ---------------------------------------------------------------------------------------------------------- cases
def generate(rng: random.Random, tier: str):
    from harness import c06_entries as ce

    thorough = tier != "quick"
    fixed = [
        (ce.ctc_call(1, False), "fresh", 3), (ce.ctc_call(1, True), "geff", 3), (ce.ctc_call(1, True), "geff-beside", 2),
        (ce.ctc_call(1, False, seg="inside"), "fresh", 3), (ce.ctc_call(1, True, seg="inside"), "geff", 2),
        (ce.tm_call(1, False), "fresh", 3), (ce.tm_call(1, True), "geff-beside", 2), (ce.tm_call(1, True), "foreign", 2),
        (ce.graph_call("dicts", rng, False, "path"), "fresh", 3), (ce.graph_call("nxb", rng, False, "obj"), "foreign", 3),
        (ce.sg_call("sgb", rng, False, "path"), "fresh", 3), (ce.sg_call("sg", rng, True, "obj"), "geff-beside", 3),
        (ce.sg_call("sg", rng, True, "path"), "geff", 3), (ce.graph_call("rxb", rng, False, "obj"), "fresh", 2),
    ]
    if thorough:   # ~130 mutations, one conversion each: the long pole of the quick tier
        fixed.append((ce.tm_call(1, True), "geff", 3))
    for call, pre, fmt in fixed:
        yield {"kind": "ecrash", "fmt": fmt, "pre": pre, "call": call}
    for i in range(0 if not thorough else 60):
        ep = rng.choice(["ctc", "tm", "dicts", "nxb", "rxb", "sgb", "sg"])
        pre = rng.choice(["fresh", "foreign", "geff", "geff-beside"])
        ov = pre.startswith("geff") or rng.random() < 0.2
        kind = rng.choice(["path", "obj"])
        if ep == "ctc":
            call = ce.ctc_call(rng.randint(1, 2), ov, seg=rng.choice(["none", "none", "inside"]))
        elif ep == "tm":
            call = ce.tm_call(rng.randint(1, 3), ov)
        elif ep in ("sgb", "sg"):
            call = ce.sg_call(ep, rng, ov if ep == "sg" else False, kind)
        else:
            call = ce.graph_call(ep, rng, False, kind)
        yield {"kind": "ecrash", "fmt": rng.choice([2, 3]), "pre": pre, "call": call}


OLD = {"nids": np.array([70, 71], dtype="uint16"), "eids": np.array([[70, 71]], dtype="uint16")}


def make_pre(c, path: Path):
    import zarr
    from zarr.storage import LocalStore

    from geff.core_io import write_arrays
    from geff_spec import GeffMetadata

    shutil.rmtree(path, ignore_errors=True)
    if c["pre"] in ("foreign", "geff-beside"):
        g = zarr.open_group(LocalStore(str(path)), mode="a", zarr_format=c["fmt"])
        g.attrs["foo"] = {"bar": 1}
        o = g.create_group("other")
        o["arr"] = np.arange(3, dtype="int16")
    if c["pre"] in ("geff", "geff-beside"):
        write_arrays(LocalStore(str(path)) if c["pre"] == "geff-beside" else path, OLD["nids"],
                     {"old": {"values": np.array([1.5, 2.5]), "missing": None}}, OLD["eids"], {},
                     GeffMetadata(directed=True, node_props_metadata={}, edge_props_metadata={}), zarr_format=c["fmt"])


def dump_any(path: Path, it):
    """abstract dump of the directory; a directory that exists without being a zarr group is dumped as a group without attributes
    whose members are the zarr nodes found in it"""
    import zarr

    from harness.storelib import dump_node, dump_tree

    t = dump_tree(path, it)
    if t is None and path.is_dir():
        ch = []
        for p in sorted(path.iterdir()):
            try:
                ch.append((p.name, dump_node(zarr.open(str(p), mode="r"), it, False)))
            except Exception:
                ch.append((p.name, {"k": "A", "dt": "uint8", "shape": [0], "flat": None, "err": "not-a-zarr-node"}))
        return {"k": "G", "attrs": [], "ch": ch}
    return t


def read_or_none(path):
    from geff import validate_structure
    from geff.core_io import read_to_memory

    try:
        validate_structure(path)
        return read_to_memory(path)
    except Exception:
        return None


def judge(path, newref, oldref):
    from harness.c05 import same_mem

    back = read_or_none(path)
    if back is None:
        return "rejected"
    if newref is not None and same_mem(newref, back):
        return "new"
    if oldref is not None and same_mem(oldref, back):
        return "old"
    return "WRONG"


def run_impl(c):
    from zarr.storage import LocalStore

    from harness import c06_entries as ce
    from harness.c01 import scratch_dir
    from harness.storelib import c_otree, tree_printable

    it = ce.ShortStok()
    root = scratch_dir() / "ec"
    shutil.rmtree(root, ignore_errors=True)
    root.mkdir(parents=True)
    path = root / "h.geff"
    call = c["call"]
    obs = {}

    def store_arg():
        kind = call.get("skind", "path")
        return LocalStore(str(path)) if kind == "obj" else path

    try:
        make_pre(c, path)
        pre_tree = dump_any(path, it)
        oldref = read_or_none(path)
        captured = []
        with PathFaults(path) as pf:
            try:
                with ce.capture_all(captured):
                    ce.do_call(call, store_arg(), c["fmt"], root)
                obs["res"] = ["ok"]
            except HarnessError:
                raise
            except Exception as e:
                obs["res"] = ["err", exn_name(e), str(e)[:100]]
        n = len(pf.log)
        obs["mutations"] = n
        obs["ops"] = sorted({op for op, _ in pf.log})
        final_tree = dump_any(path, it)
        newref = read_or_none(path) if obs["res"][0] == "ok" else None
        if obs["res"][0] == "ok":
            exp = ce.expected_back(call)
            if exp is not None and newref is not None:
                got = {"ids": sorted(int(x) for x in newref["node_ids"]), "edges": sorted([int(a), int(b)] for a, b in newref["edge_ids"])}
                obs["final_as_expected"] = got["ids"] == exp["ids"] and (len(got["edges"]) == exp["n_edges"] if "n_edges" in exp else got["edges"] == exp["edges"])
        obs["final_judged"] = judge(path, newref, oldref)
        survivors, outcomes = [], []
        for k in range(n):
            make_pre(c, path)
            with PathFaults(path, fail_at=k):
                try:
                    ce.do_call(call, store_arg(), c["fmt"], root)
                    outcomes.append("completed")
                except HarnessError:
                    raise
                except OSError:
                    outcomes.append("OSError")
                except Exception as e:
                    outcomes.append(type(e).__name__)
            survivors.append((dump_any(path, it), judge(path, newref, oldref)))
        obs["outcomes"] = sorted(set(outcomes))
        obs["verdicts"] = [v for _, v in survivors]
        if tree_printable(pre_tree) and tree_printable(final_tree):
            try:
                ecall = ce.coq_ecall(call, c["fmt"], captured, it)
                surv = clist(survivors + [(final_tree, obs["final_judged"])],
                             lambda tv: f"({'Some ' + c_otree(tv[0]) if tree_printable(tv[0]) else 'None'}, {cbool(tv[1] != 'rejected')})")
                r = "(Ok tt)" if obs["res"][0] == "ok" else f"(Err {obs['res'][1]})"
                if call["ep"] == "tm" and captured:
                    # the converter model + the arrays in the order in which they were actually handed over (set-ordered columns)
                    api = ce.coq_ecall(dict(call, ep="nx", skind="path"), c["fmt"], captured, it)
                    obs["coq"] = f"(IEntryCrash2 {c_otree(pre_tree)} {ecall} {api}, OCrash {r} {c_otree(final_tree)} {surv})"
                else:
                    obs["coq"] = f"(IEntryCrash {c_otree(pre_tree)} {ecall}, OCrash {r} {c_otree(final_tree)} {surv})"
            except HarnessError as e:
                obs["unmodelled"] = str(e)
    finally:
        shutil.rmtree(root, ignore_errors=True)
    return obs


def oracle(c, o):
    tags = {"entry": c["call"]["ep"], "kind": "ecrash", "pre": c["pre"]}
    bad = [i for i, v in enumerate(o["verdicts"]) if v == "WRONG"]
    if bad:
        return Failure(c, slim(o), f"storage failure at mutation {bad[0]} of {o['mutations']} leaves a directory that validates and reads as a graph "
                       "that is neither the one being written nor the previous one", dict(tags, why="wrong-graph-looks-valid"))
    if o["final_judged"] == "WRONG" or o.get("final_as_expected") is False:
        return Failure(c, slim(o), "the completed (or failed) call leaves a recognised store that is neither the new nor the previous graph",
                       dict(tags, why="final-wrong"))
    if o["res"][0] == "err" and o["final_judged"] == "new":
        return Failure(c, slim(o), f"the call raised {o['res'][1]} but left a recognised new graph", dict(tags, why="rejected-but-recognised"))
    return None


def slim(o):
    return {k: v for k, v in o.items() if k != "coq"}


def nontrivial(c, o):
    return o["mutations"] >= 5


def describe(c, o):
    from collections import Counter

    cnt = Counter(o["verdicts"])
    call = c["call"]
    return (f"ecrash:{call['ep']}{':seg-' + call['seg'] if call['ep'] == 'ctc' else ''}:{call.get('skind', 'path')}:v{c['fmt']}:{c['pre']}:"
            f"ov={int(call['ov'])}:{o['res'][0] if o['res'][0] == 'ok' else o['res'][1]}:muts~{o['mutations'] // 10 * 10}:{'+'.join(sorted(cnt))}")
