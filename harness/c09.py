"""C09 -- partial reads equal the same restriction of the full read."""
from __future__ import annotations

import itertools
import random

import numpy as np

from harness import graphgen as gg
from harness.c01 import compare_prop
from harness.common import Failure, HarnessError, cbool, clist, copt, cstr, exn_name
from harness.storelib import Interner, c_otree, dump_tree, tree_printable

PROP = "C09"
PARALLEL = True
RULE = ("lineage graphs of 20-48 nodes with sparse ids 1000*t+label, divisions/merges, node masks dropping nodes of degree >= 2; "
        "stored graphs (random, unique node ids, N,E<=6, every property kind incl. var-length and masked, zarr 2/3) x node/edge property "
        "subsets (all subsets when <=3 names, else sampled) x node mask x edge mask in {None, all-true, all-false, every mask for N,E<=4, "
        "random}; non-trivial = some mask or name subset given; distinct by structural input")
EXHAUSTIVE_BLOCKS = ["a fixed 4-node/4-edge graph with a fixed, a masked 2-D and a var-length property: all 16 node masks x all 16 edge masks (+None)"]
ASSUMPTIONS = ["masks have the length of the id arrays (the property quantifies over boolean masks of the graph's size)",
               "stored graphs are written by write_arrays (C01 ties that layout); the abstract dump is what the reader sees"]


def fixed_graph():
    return {"nids": {"dtype": "uint16", "shape": [4], "data": [10, 20, 30, 40]},
            "eids": {"dtype": "uint16", "shape": [4, 2], "data": [10, 20, 20, 30, 30, 40, 40, 10]},
            "nprops": {"a": {"values": {"dtype": "float64", "shape": [4], "data": [0.5, 1.5, 2.5, 3.5]}, "missing": None},
                       "m": {"values": {"dtype": "int32", "shape": [4, 2], "data": list(range(8))},
                             "missing": {"dtype": "bool", "shape": [4], "data": [False, True, False, True]}},
                       "v": {"values": {"vlen": [{"dtype": "int8", "shape": [2], "data": [1, 2]}, {"dtype": "int8", "shape": [0], "data": []},
                                                 {"dtype": "int8", "shape": [3], "data": [3, 4, 5]}, {"dtype": "int8", "shape": [1], "data": [6]}]},
                             "missing": {"dtype": "bool", "shape": [4], "data": [False, False, True, False]}}},
            "eprops": {"w": {"values": {"dtype": "float32", "shape": [4], "data": [1.0, 2.0, 3.0, 4.0]}, "missing": None},
                       "p": {"values": {"vlen": [{"dtype": "uint8", "shape": [1, 1], "data": [9]}, {"dtype": "uint8", "shape": [2, 1], "data": [8, 7]},
                                                 {"dtype": "uint8", "shape": [0, 1], "data": []}, {"dtype": "uint8", "shape": [1, 2], "data": [5, 4]}]},
                             "missing": None}},
            "md": {"directed": True, "axes": None}}


def masks_for(rng, n, exhaustive_upto=4, k=3):
    out = [None, [True] * n, [False] * n]
    if n <= exhaustive_upto:
        out += [list(m) for m in itertools.product([False, True], repeat=n)]
    else:
        out += [[rng.random() < 0.5 for _ in range(n)] for _ in range(k)]
    return out


def generate(rng: random.Random, tier: str):
    g = fixed_graph()
    for fmt in (2, 3):
        for nm in masks_for(rng, 4):
            for em in masks_for(rng, 4):
                yield {"kind": "build", "fmt": fmt, "nn": None, "en": None, "nm": nm, "em": em, "validate": True, **g}
    # larger graphs with sparse ids (track-style ids 1000*t + label): node masks that drop nodes of degree >= 2
    for i in range(10 if tier == "quick" else 120):
        yield lineage_case(rng)
    for i in range(60 if tier == "quick" else 700):
        g = gg.rand_graph(rng, axes=False)
        n, e = g["nids"]["shape"][0], g["eids"]["shape"][0]
        fmt = rng.choice([2, 3])
        nnames, enames = list((g["nprops"] or {}).keys()), list((g["eprops"] or {}).keys())
        nsubs = [None] + ([list(s) for r in range(len(nnames) + 1) for s in itertools.combinations(nnames, r)] if len(nnames) <= 3
                          else [rng.sample(nnames, rng.randint(0, len(nnames))) for _ in range(3)])
        esubs = [None] + ([list(s) for r in range(len(enames) + 1) for s in itertools.combinations(enames, r)] if len(enames) <= 2
                          else [rng.sample(enames, rng.randint(0, len(enames))) for _ in range(2)])
        combos = [(a, b, c, d) for a in nsubs for b in esubs for c in masks_for(rng, n, 3, 2) for d in masks_for(rng, e, 2, 2)]
        rng.shuffle(combos)
        for nn, en, nm, em in combos[: (12 if tier == "quick" else 30)]:
            yield {"kind": "build", "fmt": fmt, "nn": nn, "en": en, "nm": nm, "em": em, "validate": rng.random() < 0.7, **g}


def lineage_case(rng):
    T, L = rng.randint(5, 8), rng.randint(4, 6)
    ids = [1000 * t + l for t in range(T) for l in range(1, L + 1)]
    edges = []
    for t in range(T - 1):
        for l in range(1, L + 1):
            edges.append([1000 * t + l, 1000 * (t + 1) + l])
            if rng.random() < 0.25:  # division / merge
                edges.append([1000 * t + l, 1000 * (t + 1) + (l % L) + 1])
    n, e = len(ids), len(edges)
    deg = {i: 0 for i in ids}
    for a, b in edges:
        deg[a] += 1
        deg[b] += 1
    nm = [not (deg[i] >= 2 and rng.random() < 0.15) for i in ids]
    em = rng.choice([None, [rng.random() < 0.8 for _ in range(e)]])
    dt = rng.choice(["uint32", "int64", "uint64"])
    g = {"nids": {"dtype": dt, "shape": [n], "data": ids}, "eids": {"dtype": dt, "shape": [e, 2], "data": [x for r in edges for x in r]},
         "nprops": {"t": {"values": {"dtype": "float32", "shape": [n], "data": [float(i // 1000) for i in ids]}, "missing": None}},
         "eprops": {"w": {"values": {"dtype": "int32", "shape": [e], "data": list(range(e))}, "missing": None}},
         "md": {"directed": True, "axes": None}}
    return {"kind": "build", "fmt": rng.choice([2, 3]), "nn": None, "en": None, "nm": nm, "em": em, "validate": True, **g}


def c_mask(m):
    return copt(m, lambda l: clist(l, cbool))


def c_names(n):
    return copt(n, lambda l: clist(l, cstr))


def run_impl(c):
    from zarr.storage import MemoryStore

    from geff import GeffReader
    from geff.core_io import read_to_memory, write_arrays

    it = Interner()
    st = MemoryStore()
    write_arrays(st, gg.to_np(c["nids"]), gg.props_to_np(c["nprops"]), gg.to_np(c["eids"]), gg.props_to_np(c["eprops"]),
                 gg.make_metadata({k: v for k, v in c["md"].items() if v is not None}), zarr_format=c["fmt"])
    tree = dump_tree(st, it)
    obs = {}
    nm = None if c["nm"] is None else np.array(c["nm"], dtype=bool)
    em = None if c["em"] is None else np.array(c["em"], dtype=bool)
    part = None
    try:
        rd = GeffReader(st, validate=c["validate"])
        rd.read_node_props(c["nn"])
        rd.read_edge_props(c["en"])
        part = rd.build(nm, em)
        obs["res"] = ["ok"]
    except Exception as e:
        obs["res"] = ["err", exn_name(e), type(e).__name__, str(e)[:100]]
    full = read_to_memory(st)
    if part is not None:
        obs["diff"] = restriction_diff(full, part, c["nn"], c["en"], nm, em)
    if tree_printable(tree):
        try:
            r = f"(Ok {gg.c_mgraph(part, it)})" if part is not None else f"(Err {obs['res'][1]})"
            obs["coq"] = (f"(IBuild {c_otree(tree)} {cbool(c['validate'])} {c_names(c['nn'])} {c_names(c['en'])} "
                          f"{c_mask(c['nm'])} {c_mask(c['em'])}, OBuild {r})")
        except HarnessError:
            pass
    return obs


def restrict_prop(p, rows):
    v = p["values"][rows] if rows is not None else p["values"]
    m = None if p["missing"] is None else (p["missing"][rows] if rows is not None else p["missing"])
    return {"values": v, "missing": m}


def restriction_diff(full, part, nn, en, nm, em):
    """Independent statement of the property on numpy data; returns None or a description of the difference."""
    ids = full["node_ids"]
    keep_n = np.ones(len(ids), bool) if nm is None else nm
    exp_nodes = ids[keep_n]
    if part["node_ids"].dtype != ids.dtype or not np.array_equal(part["node_ids"], exp_nodes):
        return "kept nodes differ (or are not in stored order)"
    edges = full["edge_ids"]
    kept = set(exp_nodes.tolist())
    keep_e = np.array([(em is None or bool(em[i])) and (nm is None or (int(edges[i, 0]) in kept and int(edges[i, 1]) in kept))
                       for i in range(len(edges))], dtype=bool)
    exp_edges = edges[keep_e] if len(edges) else edges
    if part["edge_ids"].shape != exp_edges.shape or not np.array_equal(part["edge_ids"], exp_edges):
        return "kept edges differ"
    if nm is not None:
        for a, b in part["edge_ids"].tolist():
            if a not in kept or b not in kept:
                return "a returned edge refers to a node that was not returned"
    for which, names, fullp, partp, rows in (("node", nn, full["node_props"], part["node_props"], keep_n if nm is not None else None),
                                              ("edge", en, full["edge_props"], part["edge_props"], keep_e if (em is not None or nm is not None) else None)):
        want = list(fullp) if names is None else list(names)
        if set(partp) != set(want):
            return f"{which} properties loaded {sorted(partp)}, requested {sorted(want)}"
        for k in want:
            exp = restrict_prop(fullp[k], rows)
            d = compare_prop(f"{which} property {k!r}", exp, partp[k])
            if d:
                return d
        mdkeys = set(getattr(part["metadata"], f"{which}_props_metadata"))
        if mdkeys != set(want):
            return f"{which} metadata describes {sorted(mdkeys)}, loaded {sorted(want)}"
    return None


def coq_case(c, o):
    return o.get("coq")


def oracle(c, o):
    if o["res"][0] != "ok":
        return Failure(c, slim(o), f"partial read raised {o['res'][2]}: {o['res'][3]}", {"why": "raises", "exc": o["res"][2]})
    if o.get("diff"):
        return Failure(c, slim(o), f"partial read differs from the restriction of the full read: {o['diff']}", {"why": "differs", "what": o["diff"][:30]})
    return None


def slim(o):
    return {k: v for k, v in o.items() if k != "coq"}


def nontrivial(c, o):
    return any(c[k] is not None for k in ("nn", "en", "nm", "em"))


def describe(c, o):
    def mk(m):
        return "None" if m is None else f"{sum(m)}/{len(m)}"
    return f"v{c['fmt']}:N={c['nids']['shape'][0]}:E={c['eids']['shape'][0]}:nm={mk(c['nm'])}:em={mk(c['em'])}:nn={'all' if c['nn'] is None else len(c['nn'])}:{o['res'][0]}"
