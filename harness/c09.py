"""C09 -- partial reads equal the same restriction of the full read."""
from __future__ import annotations

import itertools
import random

import numpy as np

from harness import graphgen as gg
from harness.c01 import compare_prop
from harness.common import Failure, HarnessError, cbool, clist, copt, cstr, exn_name
from harness.storelib import Interner, c_otree, dump_tree, tree_printable

PROP = "C09"
PARALLEL = True
RULE = ("lineage graphs of 20-48 nodes with sparse ids 1000*t+label, divisions/merges, node masks dropping nodes of degree >= 2; "
        "stored graphs (random, unique node ids, N,E<=6, every property kind incl. var-length and masked, zarr 2/3) x node/edge property "
        "subsets (all subsets when <=3 names, else sampled) x node mask x edge mask in {None, all-true, all-false, every mask for N,E<=4, "
        "random}; non-trivial = some mask or name subset given; distinct by structural input")
EXHAUSTIVE_BLOCKS = ["a fixed 4-node/4-edge graph with a fixed, a masked 2-D and a var-length property: all 16 node masks x all 16 edge masks (+None)"]
ASSUMPTIONS = ["masks have the length of the id arrays (the property quantifies over boolean masks of the graph's size)",
               "stored graphs are written by write_arrays (C01 ties that layout); the abstract dump is what the reader sees"]


def fixed_graph():
    return {"nids": {"dtype": "uint16", "shape": [4], "data": [10, 20, 30, 40]},
            "eids": {"dtype": "uint16", "shape": [4, 2], "data": [10, 20, 20, 30, 30, 40, 40, 10]},
            "nprops": {"a": {"values": {"dtype": "float64", "shape": [4], "data": [0.5, 1.5, 2.5, 3.5]}, "missing": None},
                       "m": {"values": {"dtype": "int32", "shape": [4, 2], "data": list(range(8))},
                             "missing": {"dtype": "bool", "shape": [4], "data": [False, True, False, True]}},
                       "v": {"values": {"vlen": [{"dtype": "int8", "shape": [2], "data": [1, 2]}, {"dtype": "int8", "shape": [0], "data": []},
                                                 {"dtype": "int8", "shape": [3], "data": [3, 4, 5]}, {"dtype": "int8", "shape": [1], "data": [6]}]},
                             "missing": {"dtype": "bool", "shape": [4], "data": [False, False, True, False]}}},
            "eprops": {"w": {"values": {"dtype": "float32", "shape": [4], "data": [1.0, 2.0, 3.0, 4.0]}, "missing": None},
                       "p": {"values": {"vlen": [{"dtype": "uint8", "shape": [1, 1], "data": [9]}, {"dtype": "uint8", "shape": [2, 1], "data": [8, 7]},
                                                 {"dtype": "uint8", "shape": [0, 1], "data": []}, {"dtype": "uint8", "shape": [1, 2], "data": [5, 4]}]},
                             "missing": None}},
            "md": {"directed": True, "axes": None}}


def masks_for(rng, n, exhaustive_upto=4, k=3):
    out = [None, [True] * n, [False] * n]
    if n <= exhaustive_upto:
        out += [list(m) for m in itertools.product([False, True], repeat=n)]
    else:
        out += [[rng.random() < 0.5 for _ in range(n)] for _ in range(k)]
    return out


def generate(rng: random.Random, tier: str):
    g = fixed_graph()
    for fmt in (2, 3):
        for nm in masks_for(rng, 4):
            for em in masks_for(rng, 4):
                yield {"kind": "build", "fmt": fmt, "nn": None, "en": None, "nm": nm, "em": em, "validate": True, **g}
    # the same fixed graph laid out by the INDEPENDENT writer of C02 (harness/c02.py: zarr API only) with the var-length data sections in
    # reversed / shuffled order, other chunking, no compression, all-false masks present: a masked read must not depend on the order in
    # which the library's own writer lays the sections out (audit item 16)
    for fmt in (2, 3):
        for dl in (1, 2):
            v = {"fmt": fmt, "chunk": 1, "compress": False, "allfalse": True, "emptyprops": False, "minimal_md": True, "shuffle": 7 + dl,
                 "bigendian": False, "dlayout": dl}
            for nm in masks_for(rng, 4):
                for em in (None, [True, False, True, True], [False, True, True, False]):
                    yield {"kind": "build", "fmt": fmt, "nn": None, "en": None, "nm": nm, "em": em, "validate": True, "indep": v, **g}
    for i in range(20 if tier == "quick" else 250):
        gr = gg.rand_graph(rng, axes=False)
        n, e = gr["nids"]["shape"][0], gr["eids"]["shape"][0]
        v = {"fmt": rng.choice([2, 3]), "chunk": rng.choice([1, 2, None]), "compress": rng.random() < 0.5, "allfalse": rng.random() < 0.5,
             "emptyprops": rng.random() < 0.5, "minimal_md": rng.random() < 0.5, "shuffle": rng.randint(0, 1000), "bigendian": False,
             "dlayout": rng.choice([1, 2])}
        for nm in masks_for(rng, n, 2, 2)[:4]:
            em = rng.choice(masks_for(rng, e, 2, 2))
            yield {"kind": "build", "fmt": v["fmt"], "nn": None, "en": None, "nm": nm, "em": em, "validate": True, "indep": v, **gr}
    # larger graphs with sparse ids (track-style ids 1000*t + label): node masks that drop nodes of degree >= 2
    for i in range(10 if tier == "quick" else 120):
        yield lineage_case(rng)
    for i in range(60 if tier == "quick" else 700):
        g = gg.rand_graph(rng, axes=False)
        n, e = g["nids"]["shape"][0], g["eids"]["shape"][0]
        fmt = rng.choice([2, 3])
        nnames, enames = list((g["nprops"] or {}).keys()), list((g["eprops"] or {}).keys())
        nsubs = [None] + ([list(s) for r in range(len(nnames) + 1) for s in itertools.combinations(nnames, r)] if len(nnames) <= 3
                          else [rng.sample(nnames, rng.randint(0, len(nnames))) for _ in range(3)])
        esubs = [None] + ([list(s) for r in range(len(enames) + 1) for s in itertools.combinations(enames, r)] if len(enames) <= 2
                          else [rng.sample(enames, rng.randint(0, len(enames))) for _ in range(2)])
        combos = [(a, b, c, d) for a in nsubs for b in esubs for c in masks_for(rng, n, 3, 2) for d in masks_for(rng, e, 2, 2)]
        rng.shuffle(combos)
        for nn, en, nm, em in combos[: (12 if tier == "quick" else 30)]:
            yield {"kind": "build", "fmt": fmt, "nn": nn, "en": en, "nm": nm, "em": em, "validate": rng.random() < 0.7, **g}


def lineage_case(rng):
    T, L = rng.randint(5, 8), rng.randint(4, 6)
    ids = [1000 * t + l for t in range(T) for l in range(1, L + 1)]
    edges = []
    for t in range(T - 1):
        for l in range(1, L + 1):
            edges.append([1000 * t + l, 1000 * (t + 1) + l])
            if rng.random() < 0.25:  # division / merge
                edges.append([1000 * t + l, 1000 * (t + 1) + (l % L) + 1])
    n, e = len(ids), len(edges)
    deg = {i: 0 for i in ids}
    for a, b in edges:
        deg[a] += 1
        deg[b] += 1
    nm = [not (deg[i] >= 2 and rng.random() < 0.15) for i in ids]
    em = rng.choice([None, [rng.random() < 0.8 for _ in range(e)]])
    dt = rng.choice(["uint32", "int64", "uint64"])
    g = {"nids": {"dtype": dt, "shape": [n], "data": ids}, "eids": {"dtype": dt, "shape": [e, 2], "data": [x for r in edges for x in r]},
         "nprops": {"t": {"values": {"dtype": "float32", "shape": [n], "data": [float(i // 1000) for i in ids]}, "missing": None}},
         "eprops": {"w": {"values": {"dtype": "int32", "shape": [e], "data": list(range(e))}, "missing": None}},
         "md": {"directed": True, "axes": None}}
    return {"kind": "build", "fmt": rng.choice([2, 3]), "nn": None, "en": None, "nm": nm, "em": em, "validate": True, **g}


def c_mask(m):
    return copt(m, lambda l: clist(l, cbool))


def c_names(n):
    return copt(n, lambda l: clist(l, cstr))


def run_impl(c):
    from zarr.storage import MemoryStore

    from geff import GeffReader
    from geff.core_io import read_to_memory, write_arrays

    it = Interner()
    if c.get("indep"):
        from harness import c02

        try:
            st = c02.independent_store({"variant": c["indep"], "nids": c["nids"], "eids": c["eids"], "nprops": c["nprops"],
                                        "eprops": c["eprops"], "md": c["md"]})[0]
        except Exception as e:
            raise HarnessError(f"independent writer failed: {type(e).__name__}: {e}")
    else:
        st = MemoryStore()
        write_arrays(st, gg.to_np(c["nids"]), gg.props_to_np(c["nprops"]), gg.to_np(c["eids"]), gg.props_to_np(c["eprops"]),
                     gg.make_metadata({k: v for k, v in c["md"].items() if v is not None}), zarr_format=c["fmt"])
    tree = dump_tree(st, it)
    obs = {}
    nm = None if c["nm"] is None else np.array(c["nm"], dtype=bool)
    em = None if c["em"] is None else np.array(c["em"], dtype=bool)
    part = None
    try:
        rd = GeffReader(st, validate=c["validate"])
        rd.read_node_props(c["nn"])
        rd.read_edge_props(c["en"])
        part = rd.build(nm, em)
        obs["res"] = ["ok"]
    except Exception as e:
        obs["res"] = ["err", exn_name(e), type(e).__name__, str(e)[:100]]
    full = read_to_memory(st)
    if part is not None:
        obs["diff"] = restriction_diff(full, part, c["nn"], c["en"], nm, em)
    if tree_printable(tree):
        try:
            r = f"(Ok {gg.c_mgraph(part, it)})" if part is not None else f"(Err {obs['res'][1]})"
            obs["coq"] = (f"(IBuild {c_otree(tree)} {cbool(c['validate'])} {c_names(c['nn'])} {c_names(c['en'])} "
                          f"{c_mask(c['nm'])} {c_mask(c['em'])}, OBuild {r})")
        except HarnessError:
            pass
    return obs


def restrict_prop(p, rows):
    v = p["values"][rows] if rows is not None else p["values"]
    m = None if p["missing"] is None else (p["missing"][rows] if rows is not None else p["missing"])
    return {"values": v, "missing": m}


def restriction_diff(full, part, nn, en, nm, em):
    """Independent statement of the property on numpy data; returns None or a description of the difference."""
    ids = full["node_ids"]
    keep_n = np.ones(len(ids), bool) if nm is None else nm
    exp_nodes = ids[keep_n]
    if part["node_ids"].dtype != ids.dtype or not np.array_equal(part["node_ids"], exp_nodes):
        return "kept nodes differ (or are not in stored order)"
    edges = full["edge_ids"]
    kept = set(exp_nodes.tolist())
    keep_e = np.array([(em is None or bool(em[i])) and (nm is None or (int(edges[i, 0]) in kept and int(edges[i, 1]) in kept))
                       for i in range(len(edges))], dtype=bool)
    exp_edges = edges[keep_e] if len(edges) else edges
    if part["edge_ids"].shape != exp_edges.shape or not np.array_equal(part["edge_ids"], exp_edges):
        return "kept edges differ"
    if nm is not None:
        for a, b in part["edge_ids"].tolist():
            if a not in kept or b not in kept:
                return "a returned edge refers to a node that was not returned"
    for which, names, fullp, partp, rows in (("node", nn, full["node_props"], part["node_props"], keep_n if nm is not None else None),
                                              ("edge", en, full["edge_props"], part["edge_props"], keep_e if (em is not None or nm is not None) else None)):
        want = list(fullp) if names is None else list(names)
        if set(partp) != set(want):
            return f"{which} properties loaded {sorted(partp)}, requested {sorted(want)}"
        for k in want:
            exp = restrict_prop(fullp[k], rows)
            d = compare_prop(f"{which} property {k!r}", exp, partp[k])
            if d:
                return d
        mdkeys = set(getattr(part["metadata"], f"{which}_props_metadata"))
        if mdkeys != set(want):
            return f"{which} metadata describes {sorted(mdkeys)}, loaded {sorted(want)}"
    return None


def coq_case(c, o):
    return o.get("coq")


def oracle(c, o):
    if o["res"][0] != "ok":
        return Failure(c, slim(o), f"partial read raised {o['res'][2]}: {o['res'][3]}", {"why": "raises", "exc": o["res"][2]})
    if o.get("diff"):
        return Failure(c, slim(o), f"partial read differs from the restriction of the full read: {o['diff']}", {"why": "differs", "what": o["diff"][:30]})
    return None


def slim(o):
    return {k: v for k, v in o.items() if k != "coq"}


def nontrivial(c, o):
    return any(c[k] is not None for k in ("nn", "en", "nm", "em"))


def describe(c, o):
    def mk(m):
        return "None" if m is None else f"{sum(m)}/{len(m)}"
    return f"{'indep-dl%d:' % c['indep']['dlayout'] if c.get('indep') else ''}v{c['fmt']}:N={c['nids']['shape'][0]}:E={c['eids']['shape'][0]}:nm={mk(c['nm'])}:em={mk(c['em'])}:nn={'all' if c['nn'] is None else len(c['nn'])}:{o['res'][0]}"


# =====================================================================================================
# case kind "seq": ONE GeffReader, a sequence of read_node_props / read_edge_props / build calls
# (model: coq/theories/ReaderSM.v, evaluated through Corr.C09.ISeq).  Additive: the functions above
# are wrapped, not edited.
# =====================================================================================================
RULE += ("; kind seq: one GeffReader per case over a stored graph (fixed graph: every sequence of <=2 (quick) / <=3 (thorough, zarr 3) calls from a "
         "10-call alphabet; random graphs as above, MemoryStore or directory store, 1..6 random calls: names None / [] / samples of the "
         "stored names with repeats / names that are not stored / names of the other group, builds with random masks; 1 in 10 stores has a "
         "property without metadata entry or without values array, validation mostly off); observed after every call: exception class or "
         "built graph, list(rd.node_props), list(rd.edge_props), keys of rd.metadata's property tables")
EXHAUSTIVE_BLOCKS += ["fixed 4-node graph, one reader: all call sequences of length <=2 (quick, thorough zarr 2) / <=3 (thorough, zarr 3) over "
                      "{read_node_props(None|[]|['a']|['v','a']|['nope']), read_edge_props(None|['w']), build(), build(nm), build(nm, em)}"]
ASSUMPTIONS += ["seq: requested names are non-empty strings without '/' (zarr normalises paths: '' opens the props group itself)",
                "seq: a member that is an ARRAY where a property group is expected is outside the tie (zarr 2 / zarr 3 raise different classes)"]

SEQ_ALPHABET = [{"op": "rn", "names": None}, {"op": "rn", "names": []}, {"op": "rn", "names": ["a"]}, {"op": "rn", "names": ["v", "a"]},
                {"op": "rn", "names": ["nope"]}, {"op": "re", "names": None}, {"op": "re", "names": ["w"]},
                {"op": "b", "nm": None, "em": None}, {"op": "b", "nm": [True, False, True, True], "em": None},
                {"op": "b", "nm": [True, True, False, True], "em": [True, True, False, True]}]


def rand_names(rng, own, other):
    r = rng.random()
    if r < 0.18:
        return None
    if r < 0.28:
        return []
    pool = list(own)
    names = [rng.choice(pool) for _ in range(rng.randint(1, min(4, len(pool) + 1)))] if pool else []
    if rng.random() < 0.5:
        names = list(dict.fromkeys(names))
    if rng.random() < 0.22 or not names:
        bad = rng.choice(["nope", "p_missing"] + [n for n in other if n not in own][:2])
        names.insert(rng.randint(0, len(names)), bad)
    return names


def rand_ops(rng, g):
    n, e = g["nids"]["shape"][0], g["eids"]["shape"][0]
    nn, en = list((g["nprops"] or {}).keys()), list((g["eprops"] or {}).keys())
    ops = []
    for _ in range(rng.randint(1, 6)):
        r = rng.random()
        if r < 0.33:
            ops.append({"op": "rn", "names": rand_names(rng, nn, en)})
        elif r < 0.6:
            ops.append({"op": "re", "names": rand_names(rng, en, nn)})
        else:
            ops.append({"op": "b", "nm": rng.choice(masks_for(rng, n, 0, 2)), "em": rng.choice(masks_for(rng, e, 0, 2))})
    if ops[-1]["op"] != "b" and rng.random() < 0.75:
        ops[-1 if len(ops) == 6 else len(ops):] = [{"op": "b", "nm": rng.choice(masks_for(rng, n, 0, 2)), "em": rng.choice(masks_for(rng, e, 0, 2))}]
    return ops


def generate_seq(rng, tier):
    g = fixed_graph()
    for fmt in (2, 3):
        for k in range(1, 3 if (tier == "quick" or fmt == 2) else 4):  # length-3 sequences: thorough tier, zarr 3 only
            for seq in itertools.product(SEQ_ALPHABET, repeat=k):
                yield {"kind": "seq", "fmt": fmt, "store": "mem", "validate": True, "corrupt": None, "ops": [dict(o) for o in seq], **g}
    # sparse ids (1000*t + label), 20-48 nodes: two different node masks on one reader, property reads in between
    for i in range(8 if tier == "quick" else 60):
        lc = lineage_case(rng)
        n, e = lc["nids"]["shape"][0], lc["eids"]["shape"][0]
        nm2 = [not (rng.random() < 0.2) for _ in range(n)]
        ops = [{"op": "rn", "names": rng.choice([None, ["t"], []])}, {"op": "b", "nm": lc["nm"], "em": lc["em"]},
               {"op": "re", "names": rng.choice([None, ["w"]])}, {"op": "b", "nm": nm2, "em": rng.choice([None, [rng.random() < 0.8 for _ in range(e)]])},
               {"op": "b", "nm": lc["nm"], "em": None}]
        yield {"kind": "seq", "fmt": lc["fmt"], "store": "mem", "validate": True, "corrupt": None, "ops": ops,
               **{k: lc[k] for k in ("nids", "eids", "nprops", "eprops", "md")}}
    for i in range(260 if tier == "quick" else 1800):
        g = gg.rand_graph(rng, axes=False)
        corrupt = None
        pools = [("n", k) for k in (g["nprops"] or {})] + [("e", k) for k in (g["eprops"] or {})]
        if pools and rng.random() < 0.1:
            side, name = rng.choice(pools)
            corrupt = {"what": rng.choice(["no-md", "no-values"]), "side": side, "name": name}
        validate = (rng.random() < 0.7) if corrupt is None else (rng.random() < 0.2)
        for _ in range(2):
            yield {"kind": "seq", "fmt": rng.choice([2, 3]), "store": rng.choice(["mem", "mem", "dir"]), "validate": validate,
                   "corrupt": corrupt, "ops": rand_ops(rng, g), **g}


_generate_build = generate


def generate(rng: random.Random, tier: str):  # noqa: F811
    import os

    kinds = os.environ.get("C09_KINDS", "build,seq").split(",")  # sensitivity runs select one case kind
    if "build" in kinds:
        yield from _generate_build(rng, tier)
    if "seq" in kinds:
        yield from generate_seq(rng, tier)


def c_op(o):
    if o["op"] == "b":
        return f"(Build {c_mask(o['nm'])} {c_mask(o['em'])})"
    return f"({'RNode' if o['op'] == 'rn' else 'REdge'} {c_names(o['names'])})"


def corrupt_store(st, cor):
    import zarr

    g = zarr.open_group(st, mode="r+")
    grp = "nodes" if cor["side"] == "n" else "edges"
    if cor["what"] == "no-values":
        del g[f"{grp}/props/{cor['name']}/values"]
    else:
        a = dict(g.attrs["geff"])
        key = "node_props_metadata" if cor["side"] == "n" else "edge_props_metadata"
        a[key] = {k: v for k, v in a[key].items() if k != cor["name"]}
        g.attrs["geff"] = a


def run_seq(c):
    import hashlib
    import os
    import tempfile

    from zarr.storage import MemoryStore

    from geff import GeffReader
    from geff.core_io import read_to_memory, write_arrays
    from harness.storelib import snapshot

    it = Interner()
    with tempfile.TemporaryDirectory(prefix="c09seq") as td:
        st = MemoryStore() if c["store"] == "mem" else os.path.join(td, "g.zarr")
        write_arrays(st, gg.to_np(c["nids"]), gg.props_to_np(c["nprops"]), gg.to_np(c["eids"]), gg.props_to_np(c["eprops"]),
                     gg.make_metadata({k: v for k, v in c["md"].items() if v is not None}), zarr_format=c["fmt"])
        obs = {"steps": [], "listed": [[], []], "full_err": None}
        try:
            full = read_to_memory(st)  # the full read of the pristine store: reference of the oracle
        except Exception as e:
            full, obs["full_err"] = None, f"{type(e).__name__}: {str(e)[:100]}"
        if c["corrupt"]:
            corrupt_store(st, c["corrupt"])
        tree = dump_tree(st, it)
        snap0 = snapshot(st)
        rd = None
        try:
            rd = GeffReader(st) if c["validate"] else GeffReader(st, validate=False)
            obs["init"] = ["ok"]
            obs["listed"] = [list(rd.node_prop_names), list(rd.edge_prop_names)]
        except Exception as e:
            obs["init"] = ["err", exn_name(e), type(e).__name__, str(e)[:100]]
        terms = []
        track = {"n": {"ok": [], "any": set(), "failed": False}, "e": {"ok": [], "any": set(), "failed": False}}
        stored = {"n": list((c["nprops"] or {}).keys()), "e": list((c["eprops"] or {}).keys())}
        printable = tree_printable(tree)
        if rd is not None:
            fp0 = hashlib.sha1(rd.metadata.model_dump_json().encode()).hexdigest()
            for o in c["ops"]:
                step, part = {}, None
                before = (list(rd.node_props), list(rd.edge_props))
                try:
                    if o["op"] == "rn":
                        rd.read_node_props(None if o["names"] is None else list(o["names"]))
                    elif o["op"] == "re":
                        rd.read_edge_props(None if o["names"] is None else list(o["names"]))
                    else:
                        nm = None if o["nm"] is None else np.array(o["nm"], dtype=bool)
                        em = None if o["em"] is None else np.array(o["em"], dtype=bool)
                        part = rd.build(nm, em)
                    step["res"] = ["ok"]
                except Exception as e:
                    step["res"] = ["err", exn_name(e), type(e).__name__, str(e)[:100]]
                step["nkeys"], step["ekeys"] = list(rd.node_props), list(rd.edge_props)
                step["mdn"], step["mde"] = list(rd.metadata.node_props_metadata), list(rd.metadata.edge_props_metadata)
                step["md_same"] = hashlib.sha1(rd.metadata.model_dump_json().encode()).hexdigest() == fp0
                try:
                    step["bad"] = seq_step_verdict(c, o, step, part, before, full, track, stored)
                except Exception as e:  # e.g. arrays of the wrong length in the built graph or in the full read
                    step["bad"] = f"the built graph cannot be compared with the full read ({type(e).__name__}: {str(e)[:60]})"
                obs["steps"].append(step)
                if printable:
                    try:
                        if step["res"][0] != "ok":
                            r = f"(Err {step['res'][1]})"
                        else:
                            r = "(Ok None)" if part is None else f"(Ok (Some {gg.c_mgraph(part, it)}))"
                        terms.append(f"(mksobs {clist(step['nkeys'], cstr)} {clist(step['ekeys'], cstr)} {clist(step['mdn'], cstr)} "
                                     f"{clist(step['mde'], cstr)} {r})")
                    except HarnessError:
                        printable = False
        obs["store_same"] = snapshot(st) == snap0
        if printable:
            init = "(Ok tt)" if obs["init"][0] == "ok" else f"(Err {obs['init'][1]})"
            obs["coq"] = (f"(ISeq {c_otree(tree)} {cbool(bool(c['validate']))} {clist(obs['listed'][0], cstr)} {clist(obs['listed'][1], cstr)} "
                          f"{clist(c['ops'], c_op)}, OSeq {init} {clist(terms, lambda t: t)})")
    return obs


def seq_step_verdict(c, o, step, part, before, full, track, stored):
    """Independent statement of the property for one call of a sequence (numpy data + the names asked for so far).
    Returns None or a description.  Stores that were damaged after writing are judged on state constancy only."""
    ok = step["res"][0] == "ok"
    if not step["md_same"]:
        return "the reader's own metadata changed"
    if o["op"] == "b":
        if (step["nkeys"], step["ekeys"]) != before:
            return "build changed the loaded property tables of the reader"
        if c["corrupt"]:
            return None
        if not ok:
            return f"build raised {step['res'][2]}"
        if full is None:
            return None  # reported once per case (full_err)
        for side, keys in (("n", step["nkeys"]), ("e", step["ekeys"])):
            t = track[side]
            got = set(part["node_props" if side == "n" else "edge_props"])
            if not (set(t["ok"]) <= got <= t["any"]) or (not t["failed"] and got != set(t["ok"])):
                return (f"{'node' if side == 'n' else 'edge'} properties built {sorted(got)}, requested so far {sorted(t['ok'])}"
                        + (f" (+ at most {sorted(t['any'] - set(t['ok']))} from failed calls)" if t["failed"] else ""))
        nm = None if o["nm"] is None else np.array(o["nm"], dtype=bool)
        em = None if o["em"] is None else np.array(o["em"], dtype=bool)
        return restriction_diff(full, part, list(part["node_props"]), list(part["edge_props"]), nm, em)
    side = "n" if o["op"] == "rn" else "e"
    if c["corrupt"]:
        return None
    names = stored[side] if o["names"] is None else list(o["names"])
    unknown = [x for x in names if x not in stored[side]]
    t = track[side]
    t["any"] |= {x for x in names if x in stored[side]}
    if unknown:
        t["failed"] = True
        if ok:
            return f"reading the unknown property {unknown[0]!r} did not raise"
    else:
        if not ok:
            return f"reading stored properties raised {step['res'][2]}"
        t["ok"] += [x for x in names if x not in t["ok"]]
    keys = step["nkeys"] if side == "n" else step["ekeys"]
    if not (set(t["ok"]) <= set(keys) <= t["any"]):
        return f"reader holds {sorted(keys)}, requested so far {sorted(t['ok'])}"
    if (step["ekeys"] if side == "n" else step["nkeys"]) != before[1 if side == "n" else 0]:
        return "a read of one group changed the other group's table"
    return None


_run_impl_build, _oracle_build, _nontrivial_build, _describe_build = run_impl, oracle, nontrivial, describe


def run_impl(c):  # noqa: F811
    if c["kind"] == "seq":
        return run_seq(c)
    try:
        return _run_impl_build(c)
    except Exception as e:  # the comparison itself broke (arrays of impossible lengths): a failure of the case, not of the harness
        return {"res": ["err", "OtherExn", f"comparison failed with {type(e).__name__}", str(e)[:100]]}


def oracle(c, o):  # noqa: F811
    if c["kind"] != "seq":
        return _oracle_build(c, o)
    if not o["store_same"]:
        return Failure(c, slim(o), "the store changed while it was read", {"why": "seq", "what": "store-changed"})
    if o["full_err"]:
        return Failure(c, slim(o), f"read_to_memory of the written store raised {o['full_err']}", {"why": "seq", "what": "full-read-raises"})
    if o["init"][0] != "ok" and not c["corrupt"]:
        return Failure(c, slim(o), f"GeffReader() raised {o['init'][2]}: {o['init'][3]}", {"why": "seq", "what": "init-raises"})
    for i, s in enumerate(o["steps"]):
        if s["bad"]:
            return Failure(c, slim(o), f"call {i} ({c['ops'][i]['op']}): {s['bad']}", {"why": "seq", "what": s["bad"][:30]})
    return None


def nontrivial(c, o):  # noqa: F811
    return len(c["ops"]) >= 2 if c["kind"] == "seq" else _nontrivial_build(c, o)


def describe(c, o):  # noqa: F811
    if c["kind"] != "seq":
        return _describe_build(c, o)
    pat = "".join({"rn": "n", "re": "e", "b": "B"}[x["op"]] for x in c["ops"])
    errs = sum(1 for s in o["steps"] if s["res"][0] != "ok")
    return f"seq:v{c['fmt']}:{c['store']}:{pat}:err={errs}{':damaged' if c['corrupt'] else ''}"
