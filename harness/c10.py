"""C10 -- written metadata truthfully describes the stored data."""
from __future__ import annotations

import copy
import json
import random

import numpy as np

from harness import c01
from harness import graphgen as gg
from harness.common import Failure, exn_name

PROP = "C10"
PARALLEL = True
RULE = ("random graphs x caller metadata with: property entries carrying unit/name/description for written properties, stale entries for "
        "absent properties, wrong dtype/varlength in entries, stale axis ranges, every optional top-level field (extra, related_objects, "
        "display_hints, sphere, ellipsoid, track_node_props), axis type/unit/scale/scaled_unit/offset; structure validation on and off; "
        "entry points write_arrays (tied to the Coq model through the store dump), write_dicts and geff.write through networkx / rustworkx with "
        "axis_* override lists (each absent or with per-axis None entries; oracle only); zarr 2/3; "
        "FULL-metadata cases (entry 'full'): the caller's complete GeffMetadata keyword arguments -- geff_version (absent / several forms), every "
        "axis field incl. int-valued min/max/offset, wrong and stale property entries with unit/name/description, sphere, ellipsoid, "
        "track_node_props, related_objects, display_hints, nested extra with floats -- x random graph x validation on/off, with NaN / +-inf "
        "coordinates, int64 coordinates beyond 2^53, masked axis properties, empty graphs (back-fill); the COMPLETE attrs['geff'] document is "
        "compared in Coq with the full pydantic pipeline (MetaBridge.stored_doc) field by field; 6 hand-written corner cases; "
        "non-trivial = at least one property written; distinct by structural input")
EXHAUSTIVE_BLOCKS = []
ASSUMPTIONS = c01.ASSUMPTIONS + ["axis coordinates are generated exactly representable (|x| < 2^40, multiples of 2^-10) so min/max are exact",
                                 "write_dicts and the backend writers reach the store through write_arrays; they are covered by the oracle only here (C03 models them)",
                                 "full-metadata cases: caller objects are built by GeffMetadata(**kwargs) from JSON-like values (C07's construction model); floats in "
                                 "metadata are multiples of 2^-10; the stored document is read through the zarr API and compared up to member order; a fresh "
                                 "MemoryStore only (other stores / pre-states are covered by the C01-style cases); the exception class of a failing write is "
                                 "taken from the store model run on the abstraction (MetaBridge.abs with the trivial interning)"]

UNITS = ["micrometer", "second", "pixel", None]


def rich_md(rng, g):
    md = copy.deepcopy(g["md"])
    n = g["nids"]["shape"][0]
    npmd, epmd = {}, {}
    for which, ps, out in (("n", g["nprops"], npmd), ("e", g["eprops"], epmd)):
        for name, p in (ps or {}).items():
            if rng.random() < 0.5:
                # an entry of the caller: its dtype/varlength may be wrong (the writer must overwrite them), the rest must be kept
                out[name] = {"identifier": name, "dtype": rng.choice(["int8", "float64", "str", "uint16"]),
                             "varlength": rng.random() < 0.3, "unit": rng.choice(UNITS),
                             "name": rng.choice([None, "Nice name", "ü"]), "description": rng.choice([None, "some text"])}
    stale = rng.random() < 0.25
    if stale:
        (npmd if rng.random() < 0.6 else epmd)["ghost"] = {"identifier": "ghost", "dtype": "int8"}
    md["nprops_md"], md["eprops_md"] = npmd, epmd
    for ax in md.get("axes") or []:
        if rng.random() < 0.5:
            ax["unit"] = "second" if ax.get("type") == "time" else ("micrometer" if ax.get("type") == "space" else None)
            if ax["unit"] is None:
                ax.pop("unit")
        if rng.random() < 0.3:
            ax["scale"] = rng.choice([0.5, 2.0])
            if rng.random() < 0.5 and ax.get("type") in ("space", "time"):
                ax["scaled_unit"] = "nanometer" if ax.get("type") == "space" else "minute"
        if rng.random() < 0.3:
            ax["offset"] = rng.choice([-1.5, 10.0])
    if md.get("axes") and rng.random() < 0.4 and len(md["axes"]) >= 2:
        md["display_hints"] = {"display_horizontal": md["axes"][0]["name"], "display_vertical": md["axes"][1]["name"]}
    names = list((g["nprops"] or {}).keys())
    if names and rng.random() < 0.3:
        md["sphere"] = rng.choice(names)
    if names and rng.random() < 0.2:
        md["track_node_props"] = {"lineage": rng.choice(names)}
    return md, stale


def generate(rng: random.Random, tier: str):
    for i in range(450 if tier == "quick" else 5000):
        g = gg.rand_graph(rng)
        md, stale = rich_md(rng, g)
        g["md"] = md
        yield {"kind": "write", "wf": True, "stale": stale, "entry": "write_arrays", "store": "mem", "fmt": rng.choice([2, 3]),
               "pre": "fresh", "validate": rng.random() < (0.5 if stale else 0.85), "overwrite": False, **g}
    for i in range(80 if tier == "quick" else 800):
        yield dict_case(rng)
    for i in range(120 if tier == "quick" else 1500):
        yield backend_case(rng)
    # the caller's FULL metadata object against the full pipeline (MetaBridge.stored_doc), field by field
    for c in full_fixed_cases():
        yield c
    for i in range(350 if tier == "quick" else 4000):
        yield full_case(rng)


def backend_case(rng):
    """geff.write through a graph library with axis_* override lists (each absent, or a list with per-axis None entries) and optional
    caller metadata whose axes the overrides must replace; the stored axes must carry exactly the override values."""
    n = rng.randint(1, 5)
    ids = rng.sample(range(0, 300), n)
    axn = rng.sample(["t", "z", "y", "x"], rng.randint(1, 3))
    nodes = []
    for i in ids:
        d = {a: rng.randint(-40, 40) / 4 for a in axn}
        if rng.random() < 0.5:
            d["score"] = rng.randint(-5, 5) / 2
        nodes.append([i, d])
    edges = []
    for _ in range(rng.randint(0, 3) if n >= 2 else 0):
        a, b = rng.sample(ids, 2)
        edges.append([[a, b], {"w": rng.randint(0, 8) / 2}])
    types = [("time" if a == "t" else "space") if rng.random() < 0.8 else None for a in axn]

    def lst(f, p_absent=0.35):
        return None if rng.random() < p_absent else [f(i) for i in range(len(axn))]

    ov = {"axis_names": axn,
          "axis_types": None if rng.random() < 0.3 else types,
          "axis_units": lst(lambda i: rng.choice([None, "second" if axn[i] == "t" else "micrometer"])),
          "axis_scales": lst(lambda i: rng.choice([None, 0.5, 2.0, 1.0])),
          "axis_offset": lst(lambda i: rng.choice([None, -1.5, 10.0, 0.0]))}
    sc = ov["axis_scales"]
    ov["scaled_units"] = None if sc is None or rng.random() < 0.5 else [
        (rng.choice([None, "minute" if axn[i] == "t" else "nanometer"]) if sc[i] is not None else None) for i in range(len(axn))]
    md = None
    if rng.random() < 0.4:
        md = {"directed": rng.random() < 0.5, "extra": {"who": "c10"},
              "axes": [{"name": a, "offset": 7.0, "scale": 3.0, "min": 0.0, "max": 999.0} for a in axn[:1]]}
    return {"kind": "write", "wf": True, "stale": False, "entry": rng.choice(["nx", "rx"]), "fmt": rng.choice([2, 3]), "nodes": nodes,
            "edges": edges, "md": md, "ov": ov, "directed": rng.random() < 0.5, "validate": True}


def dict_case(rng):
    n = rng.randint(0, 5)
    ids = rng.sample(range(0, 300), n)
    nodes = []
    for i in ids:
        d = {"t": float(rng.randint(0, 9)), "x": rng.randint(-40, 40) / 4}
        if rng.random() < 0.6:
            d["score"] = rng.randint(-5, 5) / 2
        if rng.random() < 0.5:
            d["label"] = rng.choice(["a", "bb", ""])
        nodes.append([i, d])
    edges = []
    for _ in range(rng.randint(0, 4) if n >= 2 else 0):
        a, b = rng.sample(ids, 2)
        edges.append([[a, b], {"w": rng.randint(0, 8) / 2} if rng.random() < 0.7 else {}])
    md = {"directed": rng.random() < 0.5, "axes": [{"name": "t", "type": "time", "min": 0.0, "max": 999.0}, {"name": "x", "type": "space"}],
          "extra": {"who": "c10"}}
    return {"kind": "write", "wf": True, "stale": False, "entry": "write_dicts", "fmt": rng.choice([2, 3]), "nodes": nodes, "edges": edges,
            "md": md, "nnames": ["t", "x", "score", "label"], "enames": ["w"], "validate": True}


def stored_view(st):
    """What is stored, through the zarr API only: metadata JSON, prop group -> (dtype name, has data, values array)."""
    import zarr

    from harness.storelib import zdtype_name

    root = zarr.open_group(st, mode="r")
    md = json.loads(json.dumps(dict(root.attrs).get("geff")))
    out = {"md": md, "nodes": {}, "edges": {}}
    for grp in ("nodes", "edges"):
        g = root.get(grp)
        out[grp + "_n"] = int(g["ids"].shape[0]) if g is not None and "ids" in g else None
        pg = g.get("props") if g is not None else None
        if pg is not None:
            for name in pg.keys():
                sub = pg[name]
                vals = sub["values"][...]
                has_data = "data" in sub
                dt = zdtype_name(sub["data"].dtype if has_data else sub["values"].dtype)
                miss = sub["missing"][...] if "missing" in sub else None
                out[grp][name] = (dt, has_data, vals, miss)
    return out


def metadata_diff(view, caller_md: dict) -> str | None:
    """The statement of C10 on the stored data (independent of geff and of the model)."""
    md = view["md"]
    if md is None:
        return "no geff attribute stored"
    for grp, key in (("nodes", "node_props_metadata"), ("edges", "edge_props_metadata")):
        entries = md.get(key) or {}
        if set(entries) != set(view[grp]):
            return f"{key} has entries {sorted(entries)} but stored properties are {sorted(view[grp])}"
        caller = (caller_md.get("nprops_md") if grp == "nodes" else caller_md.get("eprops_md")) or {}
        for name, (dt, has_data, _, _) in view[grp].items():
            e = entries[name]
            if e.get("identifier") != name:
                return f"{key}[{name!r}].identifier = {e.get('identifier')!r}"
            if e.get("dtype") != dt:
                return f"{key}[{name!r}].dtype = {e.get('dtype')!r}, stored {dt!r}"
            if bool(e.get("varlength", False)) != has_data:
                return f"{key}[{name!r}].varlength = {e.get('varlength')!r}, data array {'present' if has_data else 'absent'}"
            for f in ("unit", "name", "description"):
                want = caller.get(name, {}).get(f)
                if e.get(f) != want:
                    return f"{key}[{name!r}].{f} = {e.get(f)!r}, caller gave {want!r}"
    if bool(md.get("directed")) != bool(caller_md["directed"]):
        return "directed flag changed"
    caxes = caller_md.get("axes")
    saxes = md.get("axes")
    if (caxes is None) != (saxes is None) or (caxes is not None and len(caxes) != len(saxes)):
        return "axes list changed"
    for ca, sa in zip(caxes or [], saxes or []):
        for f in ("name", "type", "unit", "scale", "scaled_unit", "offset"):
            if sa.get(f) != ca.get(f):
                return f"axis {ca['name']!r}.{f} = {sa.get(f)!r}, caller gave {ca.get(f)!r}"
        if view["nodes_n"]:
            if ca["name"] not in view["nodes"]:
                return f"axis {ca['name']!r} has no stored property"
            _, _, vals, miss = view["nodes"][ca["name"]]
            if miss is not None:
                vals = vals[np.logical_not(miss)]
            lo, hi = float(np.min(vals)), float(np.max(vals))
            if sa.get("min") is None or sa.get("max") is None or float(sa["min"]) != lo or float(sa["max"]) != hi:
                return f"axis {ca['name']!r} range [{sa.get('min')}, {sa.get('max')}], stored coordinates span [{lo}, {hi}]"
    for f in ("extra", "related_objects", "display_hints", "sphere", "ellipsoid", "track_node_props"):
        want = caller_md.get(f)
        got = md.get(f)
        if f == "extra":
            want = want or {}
        if f == "related_objects" and want is not None:
            want = [{**{"label_prop": None}, **w} for w in want]
        if f == "display_hints" and want is not None:
            want = {**{"display_depth": None, "display_time": None}, **want}
        if got != want:
            return f"{f} = {got!r}, caller gave {want!r}"
    return None


# --------------------------------------------------------------------------
# full-metadata cases: the caller's complete GeffMetadata keyword arguments + the graph; the COMPLETE stored document is compared
# with MetaBridge.stored_doc (full pydantic pipeline) evaluated in Coq
# --------------------------------------------------------------------------
VERSIONS = [None, None, "0.9", "1.3", "1.0.0.dev1", "2.3.4+local", "0.1.0", "10.20"]


def _f(v):
    from harness import c07 as mj

    return mj.F(v) if isinstance(v, float) else v


def _fdeep(v):
    if isinstance(v, dict):
        return {k: _fdeep(x) for k, x in v.items()}
    if isinstance(v, list):
        return [_fdeep(x) for x in v]
    return _f(v)


def full_case(rng):
    g = gg.rand_graph(rng)
    md0, stale = rich_md(rng, g)
    n = g["nids"]["shape"][0]
    kw = {"directed": md0["directed"]}
    v = rng.choice(VERSIONS)
    if v is not None:
        kw["geff_version"] = v
    special = None
    masked = False
    if md0.get("axes") is not None:
        axes = []
        for ax in md0["axes"]:
            a = dict(ax)
            if "type" not in a and rng.random() < 0.25:
                a["type"] = "channel"
            if "min" not in a and rng.random() < 0.15:
                a["min"], a["max"] = rng.choice([(5, 5), (-2.5, 1.0), (0, 1)])  # ints are coerced to float by the field
            axes.append(_fdeep(a))
        kw["axes"] = axes
        # coordinates outside the comfortable range: NaN / inf (open finding nan-axis-bound), integers beyond 2^53, a masked axis
        if n > 0 and rng.random() < 0.5:
            nm = rng.choice(md0["axes"])["name"]
            arr = g["nprops"][nm]["values"]
            r = rng.random()
            if arr["dtype"].startswith("float") and r < 0.4:
                special = rng.choice(["nan", "inf", "-inf"])
                arr["data"][rng.randrange(n)] = special
            elif arr["dtype"] == "int64" and r < 0.7:
                special = "big"
                arr["data"][rng.randrange(n)] = rng.choice([2 ** 53 + 1, -(2 ** 60) - 3, 2 ** 62 + 2 ** 8 + 1, 2 ** 53 + 3])
            elif n >= 2:
                special = "masked"
                masked = True
                keep = rng.randrange(n)
                g["nprops"][nm]["missing"] = {"dtype": "bool", "shape": [n], "data": [i != keep and rng.random() < 0.6 for i in range(n)]}
    kw["node_props_metadata"] = md0["nprops_md"]
    kw["edge_props_metadata"] = md0["eprops_md"]
    names = list((g["nprops"] or {}).keys())
    for k in ("sphere", "track_node_props", "related_objects", "display_hints"):
        if md0.get(k) is not None:
            kw[k] = md0[k]
    if names and rng.random() < 0.2:
        kw["ellipsoid"] = rng.choice(names)
    if names and "track_node_props" not in kw and rng.random() < 0.25:
        kw["track_node_props"] = {"tracklet": rng.choice(names), **({"lineage": rng.choice(names)} if rng.random() < 0.5 else {})}
    if md0.get("extra") is not None or rng.random() < 0.3:
        ex = dict(md0.get("extra") or {})
        if rng.random() < 0.5:
            ex["scale"] = 0.5
            ex["deep"] = {"l": [1.5, None, True, "s"], "axes": "not a field"}
        kw["extra"] = _fdeep(ex)
    validate = rng.random() < (0.5 if stale else 0.85)
    if masked:
        validate = rng.random() < 0.25  # structural validation rejects a masked axis: mostly switched off to see the stored range
    return {"kind": "full", "entry": "full", "wf": True, "stale": stale, "special": special, "fmt": rng.choice([2, 3]), "validate": validate,
            "kw": kw, **{k: g[k] for k in ("nids", "eids", "nprops", "eprops")}}


def full_fixed_cases():
    """Hand-written corners: every optional field at once; no axes but track properties; an empty graph with axes (back-fill); a caller
    entry for a property on nodes AND edges; a version with a local part."""
    from harness import c07 as mj

    F = mj.F
    ids = {"dtype": "uint16", "shape": [3], "data": [7, 65535, 0]}
    eids = {"dtype": "uint16", "shape": [2, 2], "data": [7, 0, 0, 65535]}

    def arr(dt, data, shape=None):
        return {"dtype": dt, "shape": shape or [len(data)], "data": data}

    nprops = {"t": {"values": arr("int32", [2, 0, 9]), "missing": None}, "x": {"values": arr("float32", [1.5, -0.25, 8.0]), "missing": None},
              "r": {"values": arr("float64", [1.0, 2.0, 0.5]), "missing": None}, "lab": {"values": arr("str", ["a", "", "ü"]), "missing": None},
              "score": {"values": arr("float16", [0.5, 1.0, 2.0]), "missing": {"dtype": "bool", "shape": [3], "data": [False, True, False]}}}
    eprops = {"score": {"values": arr("uint8", [1, 2]), "missing": None}}
    pm = lambda i, dt, **k: {"identifier": i, "dtype": dt, **k}  # noqa: E731
    kw_all = {"geff_version": "0.9.1+local", "directed": True,
              "axes": [{"name": "t", "type": "time", "unit": "second", "min": 100, "max": F(200.5), "scale": F(0.5), "scaled_unit": "minute", "offset": -3},
                       {"name": "x", "type": "space", "unit": "micrometer", "offset": F(2.25)}],
              "node_props_metadata": {"t": pm("t", "float64", unit="second", name="time", description="frame"),
                                      "score": pm("score", "int8", varlength=True, description="quality")},
              "edge_props_metadata": {"score": pm("score", "str", unit="a.u.", name="edge score")},
              "sphere": "r", "ellipsoid": "lab", "track_node_props": {"lineage": "t", "tracklet": "lab"},
              "related_objects": [{"type": "labels", "path": "../seg", "label_prop": "lab"}, {"type": "image", "path": "../raw"}],
              "display_hints": {"display_horizontal": "x", "display_vertical": "t", "display_time": "t"},
              "extra": {"k": 3, "f": F(0.5), "deep": {"l": [1, None, "ü", F(-1.5)], "node_props_metadata": {}}}}
    base = {"kind": "full", "entry": "full", "wf": True, "stale": False, "special": None, "validate": True, "nids": ids, "eids": eids}
    for fmt in (2, 3):
        yield {**base, "fmt": fmt, "kw": copy.deepcopy(kw_all), "nprops": copy.deepcopy(nprops), "eprops": copy.deepcopy(eprops)}
        kw2 = {k: copy.deepcopy(v) for k, v in kw_all.items() if k not in ("axes", "display_hints", "geff_version")}
        yield {**base, "fmt": fmt, "kw": kw2, "nprops": copy.deepcopy(nprops), "eprops": copy.deepcopy(eprops)}
        kw3 = {"directed": False, "axes": [{"name": "x", "min": 1, "max": 2, "unit": "pixel"}, {"name": "new", "type": "space"}],
               "node_props_metadata": {}, "edge_props_metadata": {}, "track_node_props": {"lineage": "x"}}
        yield {**base, "fmt": fmt, "kw": kw3, "nids": arr("uint16", []), "eids": {"dtype": "uint16", "shape": [0, 2], "data": []},
               "nprops": {"x": {"values": arr("float64", []), "missing": None}}, "eprops": {}}


def caller_of(c):
    """The caller's metadata in the shape metadata_diff compares with (plain python values)."""
    from harness import c07 as mj

    kw = mj.to_py(c["kw"])
    out = {"directed": kw["directed"], "axes": kw.get("axes"), "nprops_md": kw["node_props_metadata"], "eprops_md": kw["edge_props_metadata"]}
    for k in ("extra", "related_objects", "display_hints", "sphere", "ellipsoid", "track_node_props"):
        out[k] = kw.get(k)
    return out


def nan_coordinate(c) -> bool:
    """Does a declared axis have a NaN among its non-missing coordinates?"""
    for ax in c["kw"].get("axes") or []:
        p = (c["nprops"] or {}).get(ax["name"])
        if p is None or "vlen" in p["values"]:
            continue
        miss = p["missing"]["data"] if p["missing"] is not None else None
        for i, v in enumerate(p["values"]["data"]):
            if v == "nan" and not (miss is not None and i < len(miss) and miss[i]):
                return True
    return False


def run_full(c):
    import zarr
    from zarr.storage import MemoryStore

    from geff.core_io import write_arrays
    from geff_spec import GeffMetadata
    from geff_spec._schema import GEFF_VERSION
    from harness import c07 as mj
    from harness.common import HarnessError, cbool, cstr
    from harness.storelib import Interner

    it = Interner()
    nids, eids = gg.to_np(c["nids"]), gg.to_np(c["eids"])
    nprops, eprops = gg.props_to_np(c["nprops"]), gg.props_to_np(c["eprops"])
    obs = {}
    coq_in = None
    printable = all(gg.printable_np(p["values"]) for ps in (nprops, eprops) if ps for p in ps.values()) and \
        all("/" not in k and not k.startswith(".") and k != "zarr.json" for ps in (nprops, eprops) if ps for k in ps)
    if printable:
        try:  # printed before the call: the writer may touch its arguments
            coq_in = f"IFull {cstr(GEFF_VERSION)} {mj.to_jv(c['kw'])} {gg.c_wgraph(nids, eids, nprops, eprops, it)} {cbool(c['validate'])}"
        except HarnessError:
            coq_in = None
    st = MemoryStore()
    doc = None
    try:
        md = GeffMetadata(**mj.to_py(c["kw"]))
        write_arrays(st, nids, nprops, eids, eprops, md, zarr_format=c["fmt"], structure_validation=c["validate"])
        obs["res"] = ["ok"]
    except Exception as e:
        obs["res"] = ["err", exn_name(e), str(e)[:160]]
    if obs["res"][0] == "ok":
        view = stored_view(st)
        doc = view["md"]
        obs["mdiff"] = metadata_diff(view, caller_of(c))
        obs["doc"] = None
        try:
            obs["doc"] = mj.enc(doc)
        except HarnessError:
            pass
        try:  # GeffMetadata.read of the store just written: the same document again
            back = json.loads(json.dumps(GeffMetadata.read(st).model_dump(mode="json")))
            obs["readback"] = (mj.enc(back) == obs["doc"]) if obs["doc"] is not None else None
        except HarnessError:
            obs["readback"] = None
        except Exception as e:
            obs["readback"] = f"{type(e).__name__}: {str(e)[:100]}"
    if coq_in is not None:
        if obs["res"][0] != "ok":
            obs["coq"] = f"({coq_in}, OFull (Err {obs['res'][1]}))"
        elif obs["doc"] is not None:
            obs["coq"] = f"({coq_in}, OFull (Ok {mj.to_jv(obs['doc'])}))"
    return obs


def oracle_full(c, o):
    from harness import c07 as mj

    has_nan = nan_coordinate(c)
    if o["res"][0] != "ok":
        if c["stale"] and c["validate"]:
            return None  # structural validation rejects a stale entry: no successful write, nothing to claim
        if c.get("special") == "masked" and c["validate"]:
            return None  # ... and an axis property with a missing mask
        return Failure(c, c01.strip(o), f"write raised {o['res'][1]}: {o['res'][2]}", {"why": "write-raises", "exc": o["res"][1]})
    doc = mj.to_py(o["doc"]) if o.get("doc") is not None else None
    problems = []
    if o.get("mdiff"):
        problems.append(o["mdiff"])
    if doc is not None:
        want = c["kw"].get("geff_version")
        if want is not None and doc.get("geff_version") != want:
            problems.append(f"geff_version = {doc.get('geff_version')!r}, caller gave {want!r}")
        for ax in doc.get("axes") or []:
            lo, hi = ax.get("min"), ax.get("max")
            if (lo is None) != (hi is None) or (lo is not None and not (lo <= hi)):
                problems.append(f"invariant: axis {ax['name']!r} has min {lo}, max {hi}: min <= max does not hold")
    if o.get("readback") not in (None, True):
        problems.append(f"readback: GeffMetadata.read of the written store does not return the stored document ({o['readback']})")
    if not problems:
        return None
    if has_nan:
        tags = {"why": "metadata-full", "nan": True}
    elif o.get("mdiff"):
        tags = {"why": "metadata", "stale": bool(c.get("stale")), "validate": bool(c["validate"]), "what": o["mdiff"].split(" ")[0][:24]}
    else:
        tags = {"why": "metadata-full", "nan": False, "what": problems[0].split(" ")[0][:24]}
    return Failure(c, c01.strip(o), "stored metadata does not describe the stored data: " + "; ".join(problems[:3]), tags)


def run_impl(c):
    from zarr.storage import MemoryStore

    if c["entry"] == "full":
        return run_full(c)
    if c["entry"] == "write_arrays":
        # same execution as C01 (gives the Coq term); the stored view is taken from a second, identical write
        obs = c01.run_impl(c)
        from geff.core_io import write_arrays

        st = MemoryStore()
        try:
            write_arrays(st, gg.to_np(c["nids"]), gg.props_to_np(c["nprops"]), gg.to_np(c["eids"]), gg.props_to_np(c["eprops"]),
                         gg.make_metadata(c["md"]), zarr_format=c["fmt"], structure_validation=c["validate"])
            obs["mdiff"] = metadata_diff(stored_view(st), c["md"])
        except Exception as e:
            obs["mdiff"] = None
        return obs
    if c["entry"] in ("nx", "rx"):
        return run_backend(c)
    from geff.core_io import write_dicts

    st = MemoryStore()
    obs = {}
    try:
        write_dicts(st, [(i, d) for i, d in c["nodes"]], [(tuple(e), d) for e, d in c["edges"]], c["nnames"], c["enames"],
                    gg.make_metadata(c["md"]), zarr_format=c["fmt"])
        obs["res"] = ["ok"]
        obs["mdiff"] = metadata_diff(stored_view(st), c["md"])
    except Exception as e:
        obs["res"] = ["err", exn_name(e), str(e)[:120]]
    return obs


def run_backend(c):
    from zarr.storage import MemoryStore

    import geff

    st = MemoryStore()
    obs = {}
    try:
        if c["entry"] == "nx":
            import networkx as nx

            G = nx.DiGraph() if c["directed"] else nx.Graph()
            for i, d in c["nodes"]:
                G.add_node(i, **d)
            for (a, b), d in c["edges"]:
                G.add_edge(a, b, **d)
            kw = {}
        else:
            import rustworkx as rx

            G = rx.PyDiGraph() if c["directed"] else rx.PyGraph()
            idx = {i: G.add_node(dict(d)) for i, d in c["nodes"]}
            for (a, b), d in c["edges"]:
                G.add_edge(idx[a], idx[b], dict(d))
            kw = {"node_id_dict": {v: k for k, v in idx.items()}}
        md = None if c["md"] is None else gg.make_metadata(c["md"])
        geff.write(G, st, metadata=md, zarr_format=c["fmt"], **{k: v for k, v in c["ov"].items() if v is not None}, **kw)
        obs["res"] = ["ok"]
        ov = c["ov"]
        want_axes = []
        for i, nm in enumerate(ov["axis_names"]):
            ax = {"name": nm}
            for f, key in (("type", "axis_types"), ("unit", "axis_units"), ("scale", "axis_scales"), ("scaled_unit", "scaled_units"),
                           ("offset", "axis_offset")):
                ax[f] = None if ov[key] is None else ov[key][i]
            want_axes.append(ax)
        caller = {"directed": c["directed"], "axes": want_axes, "nprops_md": {}, "eprops_md": {},
                  "extra": (c["md"] or {}).get("extra")}
        obs["mdiff"] = metadata_diff(stored_view(st), caller)
    except Exception as e:
        obs["res"] = ["err", exn_name(e), str(e)[:160]]
    return obs


def coq_case(c, o):
    t = o.get("coq")
    if t is None or c["entry"] == "full":
        return t
    return f"(old_case {t})"  # Corr/C10.v: the C01-style observation inside C10's own input / obs types


def oracle(c, o):
    if c["entry"] == "full":
        return oracle_full(c, o)
    if o["res"][0] != "ok":
        if c["entry"] == "write_dicts" and not c["nodes"]:
            return None
        if c.get("stale") and c["validate"]:
            return None  # a stale entry makes structural validation reject the write: no successful write, nothing to claim
        return Failure(c, c01.strip(o), f"write raised {o['res'][1]}: {o['res'][2]}", {"why": "write-raises", "exc": o["res"][1]})
    if o.get("mdiff"):
        return Failure(c, c01.strip(o), f"stored metadata does not describe the stored data: {o['mdiff']}",
                       {"why": "metadata", "stale": bool(c.get("stale")), "validate": bool(c["validate"]), "what": o["mdiff"].split(" ")[0][:24]})
    return None


def nontrivial(c, o):
    if c["entry"] == "full":
        return bool(c["nprops"] or c["eprops"])
    if c["entry"] in ("write_dicts", "nx", "rx"):
        return bool(c["nodes"])
    return bool(c["nprops"] or c["eprops"])


def describe(c, o):
    if c["entry"] == "full":
        kw = c["kw"]
        return (f"full:v{c['fmt']}:N={c['nids']['shape'][0]}:axes={len(kw.get('axes') or [])}:entries={len(kw['node_props_metadata'])}+"
                f"{len(kw['edge_props_metadata'])}:ver={'geff_version' in kw}:special={c.get('special')}:stale={c['stale']}:val={c['validate']}:"
                f"{o['res'][0] if o['res'][0] == 'ok' else o['res'][1]}")
    if c["entry"] in ("nx", "rx"):
        ov = c["ov"]
        return (f"{c['entry']}:v{c['fmt']}:axes={len(ov['axis_names'])}:" + "".join(k[5] if ov[k] is not None else "-" for k in
                ("axis_types", "axis_units", "axis_scales", "axis_offset")) + ("S" if ov["scaled_units"] else "-") + f":md={c['md'] is not None}:{o['res'][0]}")
    if c["entry"] == "write_dicts":
        return f"write_dicts:v{c['fmt']}:N={len(c['nodes'])}:{o['res'][0]}"
    return (f"write_arrays:v{c['fmt']}:N={c['nids']['shape'][0]}:axes={len(c['md'].get('axes') or [])}:entries={len(c['md']['nprops_md'])}+{len(c['md']['eprops_md'])}"
            f":stale={c['stale']}:val={c['validate']}:{o['res'][0] if o['res'][0] == 'ok' else o['res'][1]}")
