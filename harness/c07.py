"""C07 -- metadata objects always satisfy the format's invariants.

A case is a sequence of operations on a pool of live GeffMetadata objects: constructions
(keyword arguments, model_validate, JSON text, zarr attributes, nested instances), top-level
field assignments with valid and invalid values, copies, and the helpers of geff_spec.utils.
After every operation every live object is dumped (model_dump()).

Correspondence: outcome (ok / exception class) and the dumps that changed, step by step,
against Meta.v evaluated in Coq.  Oracle: an independent predicate on the dumps, written from
the property text, plus "a failed operation changes nothing".
"""
from __future__ import annotations

import copy
import itertools
import json
import math
import random
import re

from harness.common import Failure, HarnessError, cbool, clist, cnat, copt, cstr, cz, exn_name

PROP = "C07"
FS = 1024  # float scale shared with Meta.v

RULE = ("bounded-exhaustive: every sequence of <=3 top-level assignments over a 14-value alphabet (6 axes lists, 5 display hints, "
        "3 node-property dicts) from two start objects; every Axis with min,max in {None,-1,0,1,nan,inf,-inf} x scaled_unit in "
        "{None,'',meter} x scale in {None,2}; every RelatedObject type x label_prop; every dtype spelling of the model's table x "
        "key=/!=identifier; random op sequences (<=8 ops: construct via kwargs / model_validate / JSON / zarr-2 / zarr-3 attributes / "
        "nested instances, assign to each of the 11 fields + an unknown one, deepcopy / model_copy / copy / zarr round trip, "
        "update_metadata_axes, create_or_update_metadata, add_or_update_props_metadata, axes_from_lists) with mostly-valid values "
        "and a malformed stream (wrong types, missing keys, boundary floats +-2^53, nan, +-inf); "
        "non-trivial = at least 2 executed ops and a live object; distinct by structural input")
EXHAUSTIVE_BLOCKS = [
    "all sequences of <=3 assignments over {axes: None,[],[x],[x,y],[x,x],[y,x,z]; display_hints: None,(x,y),(y,z),(x,x,depth z),(x,y,time t); "
    "node_props_metadata: {},{a:a},{a:b}} from 2 start objects (quick tier: <=2 from both, 3 from the object with axes and hints)",
    "Axis: min x max over {None,-1,0,1,nan,inf,-inf} x scaled_unit {None,'',meter} x scale {None,2} (294)",
    "RelatedObject: type {labels,image,foo,''} x label_prop {None,'',l} (12)",
    "PropMetadata: every dtype spelling in Meta.np_names + unparsable ones (incl. the comma strings numpy answers with SyntaxError) x key = / != "
    "identifier; the dtype grammar family: {'',<,>,=,|} x 33 type characters, x 17 kind characters x 18 size forms (0 1 2 3 4 8 16 04 008 ' 4' +4 -4 "
    "' +8' '4 ' 4. 12 32 64), U/S with sizes at the 2^29 / 2^31 / 2^32 / 2^63 boundaries and signed zero, 73 dictionary and near-miss names x 5 mutations",
    "bool: the twelve strings of pydantic's table in four cases each + 20 near misses, for directed (construct, assign) and varlength (construct, add_props)",
]
ASSUMPTIONS = [
    "pydantic 2 lax-mode coercions are modelled for the generated value classes only: JSON-like values (None, bool, int, float, str, "
    "list, dict with distinct str keys); strings offered to float fields are non-numeric; ints offered to float fields are exactly "
    "representable (|n| <= 2^53); floats are multiples of 2^-10 or nan/+-inf; no bytes, no control characters",
    "the version regex is evaluated by pydantic-core's regex engine (search semantics, Unicode \\d); the model decides it on ASCII "
    "digits; generated version strings contain non-ASCII characters only after the matched prefix or where no digit is involved",
    "'matches the version pattern' is read as JSON-Schema pattern matching (a match of the ^-anchored pattern, not a full match): the "
    "published schema and the field use the same unanchored pattern",
    "'a scaled unit comes with a scale' is read with the empty string as no unit (the code tests truthiness); lenient reading",
    "numpy's reading of a dtype string is modelled as far as it can end in an allowed name (Meta.np_valid_name: optional byte-order "
    "character, then one type character, or kind character + a size read by C strtol, or a name of np.sctypeDict), transcribed "
    "from numpy/_core/src/multiarray/descriptor.c and tied here on every such string of <= 3 characters over a 40-character "
    "alphabet, every kind x size x sign/blank/zero-padding form and ~600 mutated names; strings numpy hands to its comma-string "
    "parser (a comma, a leading digit, a leading '()') are outside that description (Meta.dtype_in_scope): of those only the "
    "'()'-prefixed ones can be accepted ('()i4' is int32 for numpy, rejected by the model) and they are not generated; comma and "
    "leading-digit strings are generated (always rejected: structured / sub-array dtypes are called void)",
    "pydantic's lax bool parsing is modelled as documented (bool; int 0/1; float 0.0/1.0; the twelve strings 0 1 f t n y no on "
    "off yes true false compared ignoring ASCII case) and tied on mixed-case, padded, full-width and numeric-looking spellings",
    "GEFF_VERSION (default of geff_version, not validated by pydantic) matches the version pattern in this environment; it is passed "
    "to the model as an input",
    "out of the claim: assignment to fields of nested Axis/PropMetadata/RelatedObject/DisplayHint objects, model_construct, "
    "model_copy(update=...), in-place mutation of the containers held by a field",
]

AX_KEYS = ["name", "type", "unit", "min", "max", "scale", "scaled_unit", "offset"]
PM_KEYS = ["identifier", "dtype", "varlength", "unit", "name", "description"]
RO_KEYS = ["type", "path", "label_prop"]
DH_KEYS = ["display_horizontal", "display_vertical", "display_depth", "display_time"]
MD_KEYS = ["geff_version", "directed", "axes", "node_props_metadata", "edge_props_metadata", "sphere", "ellipsoid",
           "track_node_props", "related_objects", "display_hints", "extra"]
FIELD_COQ = {"geff_version": "FVersion", "directed": "FDirected", "axes": "FAxes", "node_props_metadata": "FNodeProps",
             "edge_props_metadata": "FEdgeProps", "sphere": "FSphere", "ellipsoid": "FEllipsoid", "track_node_props": "FTrack",
             "related_objects": "FRelated", "display_hints": "FHints", "extra": "FExtra", "bogus_field": "FUnknown"}

# ---- written from the format description, not imported from geff ----
ALLOWED_DTYPES = {"bool", "int8", "int16", "int32", "int64", "uint8", "uint16", "uint32", "uint64", "float32", "float64", "bytes", "str"}
VERSION_RE = re.compile(r"^\d+\.\d+(?:\.\d+)?(?:\.dev\d+)?(?:\+[a-zA-Z0-9]+)?")

# spellings of Meta.np_names (kept in step by the exhaustive dtype block: a spelling unknown to the model is a mismatch)
DTYPE_SPELLINGS = ["bool", "?", "b1", "bool_", "int8", "i1", "b", "byte", "int16", "i2", "<i2", "short", "int32", "i4", "<i4", ">i4",
                   "intc", "int64", "i8", "<i8", "int", "int_", "intp", "longlong", "uint8", "u1", "B", "ubyte", "uint16", "u2",
                   "ushort", "uint32", "u4", "uintc", "uint64", "u8", "uint", ">u8", "float16", "f2", "e", "half", "float32", "f4",
                   "<f4", "single", "float64", "f8", "float", "double", "d", "float128", "longdouble", "complex64", "complex128",
                   "c16", "str", "U", "<U5", "U12", "str_", "unicode", "bytes", "S", "bytes_", "S5", "c", "object", "O", "V", "void",
                   "i4,f8", "datetime64[ns]", "m8", "M8"]
DTYPE_GARBAGE = ["", "garbage", "Int8", "INT8", " int8", "int8 ", "string", "StringDType", "a", "float 32", "u16", "int128",
                 # numpy's comma-string parser: SyntaxError / ValueError / structured (void) dtypes -- all validation errors
                 ",", "i4,,", ",,", "i4,", ",i4", "<,", "i4, i4", "f8,f8", "?,?", "int8, ", "01i4", "1i4", "0i4", "2i4", "3f8", "4i", "8",
                 "(2", "i(4)", "i4)", "[", "i4[", "m8[xx]", "M8[ns", "S-1", "U-1", "U99999999999999999999", "i18446744073709551620"]


def dtype_family():
    """Spellings of Meta.np_valid_name's grammar and their near misses (all inside Meta.dtype_in_scope)."""
    out = []
    singles = list("?bhilqpnBHILQPNfdUSacegFDGOVMmTxz")
    for e in ("", "<", ">", "=", "|"):
        for ch in singles:
            out.append(e + ch)
        for k in "iufbcSUVOaMm?hlqd":
            for sz in ("0", "1", "2", "3", "4", "8", "16", "04", "008", " 4", "+4", "-4", " +8", "4 ", "4.", "12", "32", "64"):
                out.append(e + k + sz)
    for e in ("<", ">", "=", "|", "<<", "<|", " "):
        out.append(e)
        for nm in ("int8", "bool", "str", "float64", "U5"):
            out.append(e + nm)
    for sz in ("536870911", "536870912", "2147483647", "4294967296", "9223372036854775807", "9223372036854775808",
               "-0", "+0", " 0", "00", "-1"):
        out.append("U" + sz)
        out.append("S" + sz)
    names = ["bool", "bool_", "byte", "bytes", "bytes_", "double", "float", "float32", "float64", "int", "int16", "int32", "int64", "int8",
             "int_", "intc", "intp", "long", "longlong", "short", "single", "str", "str_", "ubyte", "uint", "uint16", "uint32", "uint64",
             "uint8", "uintc", "uintp", "ulong", "ulonglong", "unicode", "ushort",
             # names of other dtypes, removed aliases, near misses
             "half", "float16", "float128", "longdouble", "complex", "complex64", "complex128", "cdouble", "csingle", "object", "object_",
             "void", "datetime64", "timedelta64", "uint0", "int0", "bool8", "float_", "complex_", "unicode_", "string_", "longfloat",
             "Float64", "Bool", "BOOL", "Str", "a5", "bytes3", "str3", "i16", "i3", "O8", "O4", "T", "T8", "long long", "u int8"]
    for nm in names:
        out += [nm, nm + " ", nm + "_", nm.capitalize(), nm + "0"]
    out += ["l", "q", "i", "L", "Q", "I", "h", "H", "f", "g", "p", "P", "=i4", "|i1", "|u1", "|b1", "long", "ulong", "ulonglong", "U0", "U1",
            "<U", ">U3", "=U2", "S0", "|S3", "|S", "é", "Ｕ", "U٣", "i٤", "i4 ", "I4", "U_", "UX", "ii", "i4i4", "i4 i4", "i.4", "b", "?1", "h2"]
    seen, res = set(), []
    for x in out:
        if x not in seen:
            seen.add(x)
            res.append(x)
    return res


def dtype_model_ok(s: str) -> bool:
    """dtype strings on which the metadata model (Meta.np_valid_name + the agreement on comma / leading-digit strings, which numpy
    always answers with a structured or sub-array dtype or an error) is tied to numpy: everything printable without a parenthesis
    (numpy's comma-string parser accepts '()i4' as int32; the model does not read that notation)."""
    return isinstance(s, str) and "(" not in s and ")" not in s and all(ord(ch) >= 32 and ord(ch) != 127 for ch in s)


def dtype_short_strings(rng, n):
    """Random strings over the alphabet of the grammar (inside Meta.dtype_in_scope)."""
    al = list("<>=|?bhilqpnBHILQPNfdUSVOMmeg 0123456789+-_[]sntuoxyacr.") + ["int", "uint", "float", "bool", "str", "bytes", "8", "16", "32", "64"]
    out = []
    while len(out) < n:
        x = "".join(rng.choice(al) for _ in range(rng.randrange(1, 6)))
        t = x[1:] if x[:1] in "<>=|" and len(x) > 1 else x
        if not t[:1].isdigit():
            out.append(x)
    return out


BOOL_TRUE = ["1", "true", "t", "yes", "y", "on"]
BOOL_FALSE = ["0", "false", "f", "no", "n", "off"]


def bool_spellings():
    """pydantic's twelve strings in several cases (accepted) and near misses (rejected)."""
    ok = []
    for w in BOOL_TRUE + BOOL_FALSE:
        ok += [w, w.upper(), w.capitalize(), w[:-1] + w[-1:].upper()]
    bad = [" yes", "yes ", "1.0", "0.0", "01", "+1", "ＴＲＵＥ", "ｙ", "ı", "K", "", "tİ", "true.", "ye", "of", "tru", "2", "-1", "nope", "yess"]
    return sorted(set(ok)), bad
MORE_VALID_DTYPE_SPELLINGS = ["l", "q", "=i4", "|u1", "U0", ">U3", "?", "|b1", "i 4", "f+8", "S0", "ulonglong", "p", "N", "i08"]
VALID_DTYPE_SPELLINGS = ["int8", "int16", "int32", "int64", "uint8", "uint16", "uint32", "uint64", "float32", "float64", "bool", "str",
                         "bytes", "int", "float", "i4", "<f4", "u8", "U", "<U5", "S", "?", "double"]


# ------------------------------------------------------------------ value encoding
def F(x):
    """Encode a float for a case (JSON-able, exact)."""
    if isinstance(x, str):
        return {"__f__": x}
    k = x * FS
    if k != int(k):
        raise HarnessError(f"float {x!r} is not a multiple of 2^-10")
    return {"__f__": int(k)}


def is_f(v):
    return isinstance(v, dict) and set(v) == {"__f__"}


def to_py(v):
    if is_f(v):
        k = v["__f__"]
        return float(k[4:] if k.startswith("off:") else k) if isinstance(k, str) else k / FS
    if isinstance(v, list):
        return [to_py(x) for x in v]
    if isinstance(v, dict):
        return {k: to_py(x) for k, x in v.items()}
    return v


def enc(v):
    """Python value (from model_dump) -> case encoding."""
    if isinstance(v, bool) or v is None or isinstance(v, (int, str)):
        return v
    if isinstance(v, float):
        if math.isnan(v):
            return F("nan")
        if math.isinf(v):
            return F("inf" if v > 0 else "-inf")
        if v * FS != int(v * FS):
            # a float the IMPLEMENTATION produced that is outside the exact encoding (the generated inputs are inside it): kept as text;
            # it equals no value of the model, so the term printer reports the case as a correspondence mismatch (cfl raises HarnessError,
            # which run_property turns into a mismatch) and the oracles compare it as the float it is (to_py)
            return {"__f__": "off:" + repr(v)}
        return F(v)
    if isinstance(v, (list, tuple)):
        return [enc(x) for x in v]
    if isinstance(v, dict):
        return {str(k): enc(x) for k, x in v.items()}
    raise HarnessError(f"value outside the modelled domain in a dump: {v!r}")


def has_nonfinite(v) -> bool:
    if is_f(v):
        return isinstance(v["__f__"], str) and not v["__f__"].startswith("off:")
    if isinstance(v, list):
        return any(has_nonfinite(x) for x in v)
    if isinstance(v, dict):
        return any(has_nonfinite(x) for x in v.values())
    return False


def cfl(k) -> str:
    if isinstance(k, str):
        if k.startswith("off:"):
            raise HarnessError(f"float {k[4:]} returned by the implementation is not a multiple of 2^-10")
        return {"nan": "NaN", "inf": "PInf", "-inf": "NInf"}[k]
    return f"(Fin {cz(k)})"


def to_jv(v) -> str:
    if v is None:
        return "JNull"
    if isinstance(v, bool):
        return f"(JBool {cbool(v)})"
    if isinstance(v, int):
        return f"(JInt {cz(v)})"
    if isinstance(v, str):
        return f"(JStr {cstr8(v)})"
    if is_f(v):
        return f"(JFlt {cfl(v['__f__'])})"
    if isinstance(v, list):
        return f"(JList {clist(v, to_jv)})"
    if isinstance(v, dict):
        return "(JObj " + clist(list(v.items()), lambda kv: f"({cstr8(kv[0])}, {to_jv(kv[1])})") + ")"
    raise HarnessError(f"cannot encode {v!r}")


def cstr8(s: str) -> str:
    """Coq string literal holding the UTF-8 bytes of s."""
    return cstr(s)


def copts(s):
    return copt(s, cstr8)


def coptf(v):
    return "None" if v is None else f"(Some {cfl(v['__f__'])})"


def c_axis(a) -> str:
    return (f"(mkAxis {cstr8(a['name'])} {copts(a['type'])} {copts(a['unit'])} {coptf(a['min'])} {coptf(a['max'])} "
            f"{coptf(a['scale'])} {copts(a['scaled_unit'])} {coptf(a['offset'])})")


def c_pm(p) -> str:
    return (f"(mkPM {cstr8(p['identifier'])} {cstr8(p['dtype'])} {cbool(p['varlength'])} {copts(p['unit'])} "
            f"{copts(p['name'])} {copts(p['description'])})")


def c_pmdict(d) -> str:
    return clist(list(d.items()), lambda kv: f"({cstr8(kv[0])}, {c_pm(kv[1])})")


def c_md(d) -> str:
    axes = copt(d["axes"], lambda l: clist(l, c_axis))
    track = copt(d["track_node_props"], lambda t: clist(list(t.items()), lambda kv: f"({cstr8(kv[0])}, {cstr8(kv[1])})"))
    rel = copt(d["related_objects"], lambda l: clist(l, lambda r: f"(mkRO {cstr8(r['type'])} {cstr8(r['path'])} {copts(r['label_prop'])})"))
    dh = copt(d["display_hints"], lambda h: f"(mkDH {cstr8(h['display_horizontal'])} {cstr8(h['display_vertical'])} "
                                            f"{copts(h['display_depth'])} {copts(h['display_time'])})")
    extra = clist(list(d["extra"].items()), lambda kv: f"({cstr8(kv[0])}, {to_jv(kv[1])})")
    return (f"(mkMD {cstr8(d['geff_version'])} {cbool(d['directed'])} {axes} {c_pmdict(d['node_props_metadata'])} "
            f"{c_pmdict(d['edge_props_metadata'])} {copts(d['sphere'])} {copts(d['ellipsoid'])} {track} {rel} {dh} {extra})")


def c_lists(ls) -> str:
    def f(k):
        return copt(ls.get(k), lambda l: clist(l, to_jv))
    return (f"(mkAL {f('names')} {f('units')} {f('types')} {f('scales')} {f('scaled_units')} {f('offset')} "
            f"{f('roi_min')} {f('roi_max')})")


# ------------------------------------------------------------------ generators
NAMES = ["x", "y", "z", "t"]
ODD_NAMES = ["", "a b", "é", "x" * 40]
VERSIONS_OK = ["1.3", "0.1.0", "1.0.0.dev1", "2.3.4+local", "3.4.5.dev6+g61d5f18", "10.20.30", "0.0", "01.02", "1.2x", "1.2.3.4",
               "1.2+", "1.2.dev", "1.2+é", "1.2 ", "9.9.9.9.9", "1.3.dev", "12345678901234567890.0"]
VERSIONS_BAD = ["", "1", "1.", ".1.2", "x1.2", " 1.2", "1..2", "abc.def", "aljkdf", "v1.2", "1,2", "-1.2", "1.a", "é1.2", "+1.2", "1"]
NONNUM_STRS = ["abc", "", "one", "1.5.0", "nanx"]
BAD_SCALARS = [[], {}, ["x"], {"a": 1}]


def pick(rng, xs):
    return xs[rng.randrange(len(xs))]


def gen_float(rng, allow_special=True):
    r = rng.random()
    if r < 0.55:
        return pick(rng, [0, 1, -1, 2, 10, 100, 3])
    if r < 0.8:
        return F(pick(rng, [0.0, 0.5, -1.5, 2.25, 1.0, 1000.0, -0.0009765625, 1023.9990234375]))
    if r < 0.88:
        return pick(rng, [2**53, -(2**53), 2**53 - 1, 2**31, -(2**31) - 1, 2**24 + 1])
    if allow_special:
        return F(pick(rng, ["nan", "inf", "-inf"]))
    return 5


def gen_axis(rng, name=None, valid=True):
    a = {"name": name if name is not None else pick(rng, NAMES + NAMES + ODD_NAMES)}
    if rng.random() < 0.5:
        a["type"] = pick(rng, ["space", "time", "channel", None])
    if rng.random() < 0.4:
        a["unit"] = pick(rng, ["meter", "micrometer", "second", "frame", "pixel", "foo", "", None])
    r = rng.random()
    if r < 0.35:
        lo, hi = sorted([rng.randrange(-20, 20), rng.randrange(-20, 20)])
        if rng.random() < 0.4:
            a["min"], a["max"] = F(lo / 2), F(hi / 2 if hi / 2 >= lo / 2 else lo / 2)
        else:
            a["min"], a["max"] = lo, hi
    elif r < 0.42:
        a["min"], a["max"] = pick(rng, [(F("-inf"), F("inf")), (F("-inf"), 0), (3, F("inf")), (0, 0), (F(1.5), F(1.5)), (-(2**53), 2**53)])
    elif r < 0.5:
        a["min"], a["max"] = None, None
    if rng.random() < 0.35:
        a["scale"] = pick(rng, [F(0.5), 2, F(0.25), 1, F("inf")])
        if rng.random() < 0.6:
            a["scaled_unit"] = pick(rng, ["micrometer", "minute", "foo", ""])
    elif rng.random() < 0.1:
        a["scaled_unit"] = pick(rng, ["", None])
    if rng.random() < 0.25:
        a["offset"] = pick(rng, [0, F(-3.25), 7, F("nan")])
    if not valid:
        k = rng.randrange(16)
        if k == 0:
            a["min"], a["max"] = gen_float(rng, False), None
        elif k == 1:
            a["min"], a["max"] = None, gen_float(rng, False)
        elif k == 2:
            a["min"], a["max"] = pick(rng, [(1, 0), (F(0.5), 0), (F("inf"), 0), (0, F("-inf")), (2**53, 2**53 - 1), (F("inf"), F("-inf")), (1, -1)])
        elif k == 3:
            a["min"], a["max"] = pick(rng, [(F("nan"), 1), (0, F("nan")), (F("nan"), F("nan")), (F("nan"), F("-inf")), (F("inf"), F("nan"))])
        elif k == 4:
            a.pop("scale", None)
            a["scaled_unit"] = pick(rng, ["micrometer", "foo", " "])
        elif k == 5:
            a["scale"] = None
            a["scaled_unit"] = "meter"
        elif k == 6:
            a["type"] = pick(rng, ["Space", "", "spatial", 1, [], "SPACE"])
        elif k == 7:
            a.pop("name")
        elif k == 8:
            a["name"] = pick(rng, [None, 1, [], {}, True, F(1.5)])
        elif k == 9:
            a[pick(rng, ["min", "max", "scale", "offset"])] = pick(rng, NONNUM_STRS + BAD_SCALARS)
            if "min" in a and "max" not in a:
                a["max"] = 0
        elif k == 10:
            a[pick(rng, ["unit", "scaled_unit"])] = pick(rng, [1, [], {}, True, F(2.0)])
        elif k == 11:
            return pick(rng, [None, "x", 5, [], True, ["name", "x"]])
        elif k == 12:
            a["min"] = gen_float(rng, False)
            a.pop("max", None)
        elif k == 13:
            a["min"], a["max"] = True, False
        elif k == 14:
            a["min"], a["max"] = 2, F(1.5)
        else:
            a["min"], a["max"] = F("inf"), F("inf")  # valid after all: inf <= inf
    if rng.random() < 0.1 and isinstance(a, dict):
        a["unknown_key"] = 1
    return a


def gen_axes(rng, valid=True):
    r = rng.random()
    if r < 0.08:
        return None
    if r < 0.13:
        return []
    n = pick(rng, [1, 2, 2, 3, 3, 4])
    if valid:
        names = rng.sample(NAMES + ODD_NAMES[:2], n)
        return [gen_axis(rng, nm) for nm in names]
    k = rng.randrange(5)
    if k == 0:  # duplicate names
        names = [pick(rng, NAMES[:2]) for _ in range(max(2, n))]
        if len(set(names)) == len(names):
            names[-1] = names[0]
        return [gen_axis(rng, nm) for nm in names]
    if k == 1:  # one bad axis
        axes = [gen_axis(rng, nm) for nm in rng.sample(NAMES, n)]
        axes[rng.randrange(n)] = gen_axis(rng, None, valid=False)
        return axes
    if k == 2:
        return pick(rng, ["xy", 5, {}, {"name": "x"}, True])
    if k == 3:
        return [gen_axis(rng, nm) for nm in rng.sample(NAMES, min(n, 4))][:1]  # valid but may orphan hints
    return [gen_axis(rng, None, valid=False)]


def gen_pm(rng, ident=None, valid=True):
    ident = ident if ident is not None else pick(rng, ["a", "b", "c", "pos", "x", "t"])
    p = {"identifier": ident, "dtype": pick(rng, VALID_DTYPE_SPELLINGS + MORE_VALID_DTYPE_SPELLINGS)}
    if rng.random() < 0.4:
        p["varlength"] = pick(rng, [True, False, 0, 1, "yes", "no", "false", "TRUE", "Off", "N", "t"])
    for k in ("unit", "name", "description"):
        if rng.random() < 0.25:
            p[k] = pick(rng, ["u", "A name", "", None])
    if not valid:
        k = rng.randrange(9)
        if k == 0:
            p["dtype"] = pick(rng, ["float16", "f2", "object", "complex64", "S5", "datetime64[ns]", "V", "half", "O", "c", "i4,f8", "float128"])
        elif k == 1:
            p["dtype"] = pick(rng, DTYPE_GARBAGE)
        elif k == 2:
            p["dtype"] = pick(rng, [None, 5, F(5.0), True, [], {}])
        elif k == 3:
            p.pop("dtype")
        elif k == 4:
            p["identifier"] = pick(rng, ["", None, 1, []])
        elif k == 5:
            p.pop("identifier")
        elif k == 6:
            p["varlength"] = pick(rng, [None, 2, "abc", [], F(0.5), F("nan"), " yes", "1.0", "ｙ", -1])
        elif k == 7:
            p[pick(rng, ["unit", "name", "description"])] = pick(rng, [1, [], True])
        else:
            return pick(rng, [None, "int8", 5, []])
    return p


def gen_pmdict(rng, valid=True):
    n = pick(rng, [0, 1, 1, 2, 3])
    keys = rng.sample(["a", "b", "c", "pos", "x", "t", "", "é"], n)
    d = {}
    for k in keys:
        d[k] = gen_pm(rng, k if k else "e")
        if k == "":
            d[k] = gen_pm(rng, "")  # empty identifier: rejected by MinLen
    if "" in d and valid:
        d.pop("")
    if not valid:
        k = rng.randrange(4)
        if k == 0 or not d:
            d[pick(rng, ["k1", "a", "zz"])] = gen_pm(rng, pick(rng, ["other", "A", "zz "]))
        elif k == 1:
            kk = pick(rng, sorted(d))
            d[kk] = gen_pm(rng, kk, valid=False)
        elif k == 2:
            return pick(rng, [None, [], "a", 5])
        else:
            kk = pick(rng, sorted(d))
            d[kk] = gen_pm(rng, kk + "_")
    return d


def gen_related(rng, valid=True):
    r = rng.random()
    if r < 0.1:
        return None
    n = pick(rng, [0, 1, 1, 2])
    out = []
    for _ in range(n):
        t = pick(rng, ["labels", "labels", "image", "foo", ""])
        o = {"type": t, "path": pick(rng, ["seg/", "raw/", "", "../img"])}
        if t == "labels" and rng.random() < 0.7:
            o["label_prop"] = pick(rng, ["seg_id", "", "a"])
        elif rng.random() < 0.3:
            o["label_prop"] = None
        out.append(o)
    if not valid:
        k = rng.randrange(5)
        if k == 0:
            out.append({"type": pick(rng, ["image", "foo", "", "Labels", "label"]), "path": "p", "label_prop": pick(rng, ["seg_id", ""])})
        elif k == 1:
            out.append({"type": "labels"})
        elif k == 2:
            out.append({"type": pick(rng, [None, 1, []]), "path": "p"})
        elif k == 3:
            return pick(rng, [{}, "x", 5])
        else:
            out.append(pick(rng, [None, "labels", 3]))
    return out


def gen_hints(rng, valid=True):
    if rng.random() < 0.1:
        return None
    names = rng.sample(NAMES, 4)
    h = {"display_horizontal": names[0], "display_vertical": names[1]}
    if rng.random() < 0.4:
        h["display_depth"] = pick(rng, [names[2], None, names[0]])
    if rng.random() < 0.4:
        h["display_time"] = pick(rng, [names[3], None, "t"])
    if not valid:
        k = rng.randrange(5)
        if k == 0:
            h[pick(rng, DH_KEYS)] = pick(rng, ["q", "", "X", "nope"])
        elif k == 1:
            h.pop(pick(rng, DH_KEYS[:2]))
        elif k == 2:
            h[pick(rng, DH_KEYS)] = pick(rng, [1, [], True])
        elif k == 3:
            return pick(rng, ["x", 5, [], ["x", "y"]])
        else:
            h["display_horizontal"] = None
    return h


def gen_extra(rng, valid=True):
    if not valid:
        return pick(rng, [None, [], "x", 5])
    return pick(rng, [{}, {"foo": "bar"}, {"bar": {"baz": "qux", "n": [1, 2, {"k": None}]}}, {"a": 1, "b": True, "c": None},
                      {"f": F(0.5), "g": [F("inf")]}, {"": ""}, {"geff_version": "junk", "axes": 7}])


def gen_track(rng, valid=True):
    if not valid:
        return pick(rng, [{"foo": "a"}, {"lineage": 1}, [], "x", {"lineage": None}, {"Lineage": "a"}, {"tracklet": []}])
    return pick(rng, [None, {}, {"lineage": "a"}, {"tracklet": "t", "lineage": "l"}, {"tracklet": ""}])


def gen_optstr(rng, valid=True):
    if not valid:
        return pick(rng, [1, [], {}, True, F(1.0)])
    return pick(rng, [None, "r", "cov", "", "a"])


def gen_version(rng, valid=True):
    return pick(rng, VERSIONS_OK) if valid else pick(rng, VERSIONS_BAD + [None, 1, F(1.5), [], True])


def gen_directed(rng, valid=True):
    if valid:
        return pick(rng, [True, False, True, False, 0, 1, "yes", "no", "true", "off", F(1.0), F(0.0), "TRUE", "Yes", "ON", "T", "oFf", "N", "False"])
    return pick(rng, [None, 2, "abc", [], {}, F(0.5), -1, "", F("nan"), "maybe", " yes", "yes ", "1.0", "ＴＲＵＥ", F("inf"), 2**64])


FIELD_GEN = {"geff_version": gen_version, "directed": gen_directed, "axes": gen_axes, "node_props_metadata": gen_pmdict,
             "edge_props_metadata": gen_pmdict, "sphere": gen_optstr, "ellipsoid": gen_optstr, "track_node_props": gen_track,
             "related_objects": gen_related, "display_hints": gen_hints, "extra": gen_extra}


def gen_kw(rng, valid=True):
    kw = {"directed": gen_directed(rng), "node_props_metadata": gen_pmdict(rng), "edge_props_metadata": gen_pmdict(rng)}
    if rng.random() < 0.5:
        kw["geff_version"] = gen_version(rng)
    axes = None
    if rng.random() < 0.75:
        axes = gen_axes(rng)
        kw["axes"] = axes
    if rng.random() < 0.4:
        names = [a["name"] for a in axes] if axes else []
        if len(names) >= 2 and rng.random() < 0.85:
            h = {"display_horizontal": names[0], "display_vertical": names[1]}
            if len(names) >= 3 and rng.random() < 0.5:
                h["display_depth"] = names[2]
            if len(names) >= 4 and rng.random() < 0.5:
                h["display_time"] = names[3]
            kw["display_hints"] = h
        else:
            kw["display_hints"] = gen_hints(rng)  # may or may not fit
    for k, g, p in (("sphere", gen_optstr, 0.2), ("ellipsoid", gen_optstr, 0.2), ("track_node_props", gen_track, 0.25),
                    ("related_objects", gen_related, 0.35), ("extra", gen_extra, 0.3)):
        if rng.random() < p:
            kw[k] = g(rng)
    if not valid:
        k = rng.randrange(4)
        if k == 0:
            kw.pop(pick(rng, ["directed", "node_props_metadata", "edge_props_metadata"]))
        elif k == 1:
            return pick(rng, [None, [], "x", 5])
        else:
            f = pick(rng, MD_KEYS)
            kw[f] = FIELD_GEN[f](rng, valid=False)
    if rng.random() < 0.1 and isinstance(kw, dict):
        kw["unknown_top_level"] = {"x": 1}
    return kw


def gen_lists(rng, with_roi):
    r = rng.random()
    if r < 0.05:
        return {"names": None}
    n = pick(rng, [0, 1, 2, 2, 3])
    dup = rng.random() < 0.12
    names = [pick(rng, NAMES[:2]) for _ in range(n)] if dup else rng.sample(NAMES, n)
    if rng.random() < 0.06 and n:
        names[rng.randrange(n)] = pick(rng, [None, 1, []])
    ls = {"names": names}

    def col(g, p_len_bad):
        m = n
        if rng.random() < p_len_bad:
            m = max(0, n + pick(rng, [-1, 1, 2]))
        return [g() for _ in range(m)]

    if rng.random() < 0.4:
        ls["units"] = col(lambda: pick(rng, ["meter", "second", None, "foo", "", 3 if rng.random() < 0.1 else "pixel"]), 0.12)
    if rng.random() < 0.4:
        ls["types"] = col(lambda: pick(rng, ["space", "time", "channel", None, "space", "Space" if rng.random() < 0.15 else "time"]), 0.12)
    if rng.random() < 0.4:
        ls["scales"] = col(lambda: pick(rng, [F(0.5), 2, None, 1, "abc" if rng.random() < 0.1 else 3]), 0.12)
    if rng.random() < 0.35:
        ls["scaled_units"] = col(lambda: pick(rng, ["micrometer", None, "", None, "minute"]), 0.12)
    if rng.random() < 0.35:
        ls["offset"] = col(lambda: pick(rng, [0, F(-3.25), None, 7]), 0.3)
    if with_roi and rng.random() < 0.5:
        los = [rng.randrange(-5, 5) for _ in range(n)]
        his = [lo + pick(rng, [0, 1, 5, -1 if rng.random() < 0.2 else 2]) for lo in los]
        r = rng.random()
        if r < 0.15:
            los = los[:-1] if los else [0]
        elif r < 0.3:
            his = his + [1]
        elif r < 0.4:
            his = his[:-1] if his else [0]
        if rng.random() < 0.12:
            ls["roi_min"] = los  # one-sided
        elif rng.random() < 0.12:
            ls["roi_max"] = his
        else:
            ls["roi_min"], ls["roi_max"] = los, his
        if rng.random() < 0.1 and ls.get("roi_min"):
            ls["roi_min"][0] = F("nan")
    return ls


def gen_op(rng, first=False):
    r = rng.random()
    if first or r < 0.12:
        o = {"op": "construct", "via": pick(rng, ["kwargs", "kwargs", "validate", "json", "zarr2", "zarr3", "instances", "instances"]),
             "kw": gen_kw(rng, valid=(rng.random() < (0.9 if first else 0.65)))}
        kw = o["kw"]
        if (o["via"] == "instances" and isinstance(kw, dict) and isinstance(kw.get("node_props_metadata"), dict)
                and isinstance(kw.get("edge_props_metadata"), dict) and kw["node_props_metadata"] and rng.random() < 0.5):
            # one PropMetadata instance passed in both dictionaries
            ks = [k for k in kw["node_props_metadata"] if rng.random() < 0.7]
            for k in ks:
                kw["edge_props_metadata"][k] = copy.deepcopy(kw["node_props_metadata"][k])
            o["sh"] = ks
        return o
    i = rng.randrange(1 << 16)
    if r < 0.55:
        f = pick(rng, MD_KEYS + ["axes", "axes", "display_hints", "display_hints", "node_props_metadata", "edge_props_metadata"])
        if rng.random() < 0.04:
            return {"op": "assign", "i": i, "field": "bogus_field", "v": 1, "inst": False}
        o = {"op": "assign", "i": i, "field": f, "v": FIELD_GEN[f](rng, valid=(rng.random() < 0.55)), "inst": rng.random() < 0.4}
        if f in ("node_props_metadata", "edge_props_metadata") and isinstance(o["v"], dict) and o["v"] and rng.random() < 0.4:
            o["sh"] = [k for k in o["v"] if rng.random() < 0.8]   # effective where the other dictionary holds the key
        return o
    if r < 0.63:
        return {"op": "copy", "i": i, "how": pick(rng, ["deepcopy", "model_copy", "copy", "model_copy_deep", "zarr_roundtrip", "json_roundtrip"])}
    if r < 0.75:
        return {"op": "update_axes", "i": i, "lists": gen_lists(rng, False)}
    if r < 0.85:
        axes = gen_axes(rng, valid=(rng.random() < 0.7))
        return {"op": "create_or_update", "i": (None if rng.random() < 0.3 else i), "directed": gen_directed(rng, valid=(rng.random() < 0.85)),
                "axes": axes, "inst": rng.random() < 0.4}
    if r < 0.95:
        n = pick(rng, [0, 1, 2, 3, 4])
        props = [gen_pm(rng, valid=(rng.random() < 0.9)) for _ in range(n)]
        if rng.random() < 0.08:
            props = pick(rng, [None, "ab", {}, {"b": {"identifier": "b", "dtype": "int"}}])
        return {"op": "add_props", "i": i, "props": props, "ctype": pick(rng, ["node", "edge", "node", "edge", "Node", "", None, 1, "tracklet"]
                                                                         if rng.random() < 0.15 else ["node", "edge"]),
                "inst": rng.random() < 0.4}
    return {"op": "axes_from_lists", "lists": gen_lists(rng, True)}


def ax(name, **kw):
    return dict({"name": name}, **kw)


def exhaustive_assign_block(tier):
    axes_vals = [None, [], [ax("x")], [ax("x"), ax("y")], [ax("x"), ax("x")], [ax("y"), ax("x"), ax("z")]]
    hint_vals = [None, {"display_horizontal": "x", "display_vertical": "y"}, {"display_horizontal": "y", "display_vertical": "z"},
                 {"display_horizontal": "x", "display_vertical": "x", "display_depth": "z"},
                 {"display_horizontal": "x", "display_vertical": "y", "display_time": "t"}]
    pm_vals = [{}, {"a": {"identifier": "a", "dtype": "int8"}}, {"a": {"identifier": "b", "dtype": "int8"}}]
    alphabet = ([("axes", v) for v in axes_vals] + [("display_hints", v) for v in hint_vals]
                + [("node_props_metadata", v) for v in pm_vals])
    starts = [
        {"directed": True, "node_props_metadata": {}, "edge_props_metadata": {}},
        {"directed": False, "node_props_metadata": {"a": {"identifier": "a", "dtype": "float64"}}, "edge_props_metadata": {},
         "axes": [ax("x"), ax("y")], "display_hints": {"display_horizontal": "x", "display_vertical": "y"}},
    ]
    for si, kw in enumerate(starts):
        maxlen = 3 if (tier == "thorough" or si == 1) else 2
        for n in range(1, maxlen + 1):
            for seq in itertools.product(alphabet, repeat=n):
                ops = [{"op": "construct", "via": "kwargs", "kw": copy.deepcopy(kw)}]
                for j, (f, v) in enumerate(seq):
                    ops.append({"op": "assign", "i": 0, "field": f, "v": copy.deepcopy(v), "inst": (j + n) % 2 == 0, "canon": True})
                yield {"kind": "run", "block": "assign3", "ops": ops}


def exhaustive_small_blocks():
    vals = [None, -1, 0, 1, F("nan"), F("inf"), F("-inf")]
    vias = ["kwargs", "validate", "json", "zarr2", "zarr3", "instances"]
    k = 0
    for lo in vals:
        for hi in vals:
            for su in (None, "", "meter"):
                for sc in (None, 2):
                    a = {"name": "x", "min": lo, "max": hi, "scaled_unit": su, "scale": sc}
                    yield {"kind": "run", "block": "axis", "ops": [
                        {"op": "construct", "via": vias[k % len(vias)],
                         "kw": {"directed": True, "node_props_metadata": {}, "edge_props_metadata": {}, "axes": [a]}},
                        {"op": "axes_from_lists", "lists": {"names": ["x"], "scales": [sc], "scaled_units": [su],
                                                            **({} if lo is None and k % 2 else {"roi_min": [lo]}),
                                                            **({} if hi is None and k % 2 else {"roi_max": [hi]})}}]}
                    k += 1
    for t in ("labels", "image", "foo", ""):
        for lp in (None, "", "l"):
            yield {"kind": "run", "block": "related", "ops": [
                {"op": "construct", "via": vias[k % len(vias)],
                 "kw": {"directed": True, "node_props_metadata": {}, "edge_props_metadata": {},
                        "related_objects": [{"type": t, "path": "p", "label_prop": lp}]}}]}
            k += 1
    fam = [d for d in dtype_family() if d not in DTYPE_SPELLINGS and d not in DTYPE_GARBAGE]
    for g in range(0, len(fam), 4):
        yield {"kind": "run", "block": "dtype-family", "ops": [
            {"op": "construct", "via": vias[(g // 4 + j) % len(vias)],
             "kw": {"directed": True, "node_props_metadata": {"a": {"identifier": "a", "dtype": dt}}, "edge_props_metadata": {}}}
            for j, dt in enumerate(fam[g:g + 4])]}
    for dt in DTYPE_SPELLINGS + DTYPE_GARBAGE:
        for key in ("a", "b"):
            yield {"kind": "run", "block": "dtype", "ops": [
                {"op": "construct", "via": vias[k % len(vias)],
                 "kw": {"directed": True, "node_props_metadata": {}, "edge_props_metadata": {key: {"identifier": "a", "dtype": dt}}}},
                {"op": "construct", "via": "kwargs", "kw": {"directed": True, "node_props_metadata": {}, "edge_props_metadata": {}}},
                {"op": "add_props", "i": 0, "props": [{"identifier": "q", "dtype": dt}], "ctype": "node", "inst": k % 2 == 0}]}
            k += 1


def bool_block():
    ok, bad = bool_spellings()
    vias = ["kwargs", "validate", "json", "zarr2", "zarr3", "instances"]
    for k, w in enumerate(ok + bad):
        yield {"kind": "run", "block": "bool", "ops": [
            {"op": "construct", "via": vias[k % len(vias)],
             "kw": {"directed": w, "node_props_metadata": {}, "edge_props_metadata": {}}},
            {"op": "construct", "via": vias[(k + 1) % len(vias)],
             "kw": {"directed": True, "node_props_metadata": {"a": {"identifier": "a", "dtype": "int8", "varlength": w}}, "edge_props_metadata": {}}},
            {"op": "assign", "i": 0, "field": "directed", "v": w, "inst": False},
            {"op": "add_props", "i": 0, "props": [{"identifier": "q", "dtype": "int8", "varlength": w}], "ctype": "node", "inst": k % 2 == 0}]}


def dtype_random_block(rng, tier):
    vias = ["kwargs", "validate", "json", "zarr2", "zarr3", "instances"]
    strs = dtype_short_strings(rng, 400 if tier == "quick" else 6000)
    for k in range(0, len(strs), 4):
        grp = strs[k:k + 4]
        yield {"kind": "run", "block": "dtype-random", "ops": [
            {"op": "construct", "via": vias[(k + j) % len(vias)],
             "kw": {"directed": True, "node_props_metadata": {"a": {"identifier": "a", "dtype": dt}}, "edge_props_metadata": {}}}
            for j, dt in enumerate(grp)]}


def directed_scenarios():
    """Hand-picked histories aimed at the places where invariants interact."""
    base = {"directed": True, "node_props_metadata": {"a": {"identifier": "a", "dtype": "int8"}}, "edge_props_metadata": {},
            "axes": [ax("x"), ax("y")], "display_hints": {"display_horizontal": "x", "display_vertical": "y"}}
    C = {"op": "construct", "via": "kwargs", "kw": base}

    def A(f, v, inst=False):
        return {"op": "assign", "i": 0, "field": f, "v": v, "inst": inst, "canon": True}
    yield [C, A("axes", [ax("x"), ax("x")]), A("axes", [ax("x")]), A("axes", None), A("axes", [])]
    yield [C, A("display_hints", {"display_horizontal": "q", "display_vertical": "y"}), A("display_hints", None), A("axes", None),
           A("display_hints", {"display_horizontal": "x", "display_vertical": "y"})]
    yield [C, A("node_props_metadata", {"b": {"identifier": "a", "dtype": "int8"}}), A("edge_props_metadata", {"b": {"identifier": "a", "dtype": "int8"}}),
           A("node_props_metadata", {"b": {"identifier": "b", "dtype": "float16"}})]
    yield [C, A("geff_version", "abc"), A("geff_version", "2.0"), A("directed", None), A("bogus_field", 1)]
    yield [C, {"op": "copy", "i": 0, "how": "model_copy"}, {"op": "assign", "i": 1, "field": "axes", "v": [ax("x")], "inst": True},
           {"op": "assign", "i": 1, "field": "display_hints", "v": None, "inst": False}, {"op": "assign", "i": 1, "field": "axes", "v": [ax("z")], "inst": True}]
    yield [C, {"op": "update_axes", "i": 0, "lists": {"names": ["x"]}}, {"op": "update_axes", "i": 0, "lists": {"names": ["x", "x"]}},
           {"op": "update_axes", "i": 0, "lists": {"names": None}},
           {"op": "update_axes", "i": 0, "lists": {"names": ["y", "x"], "units": ["meter", None], "types": ["space", "space"],
                                                   "scales": [F(0.5), None], "scaled_units": ["micrometer", None], "offset": [1, 2, 3]}},
           {"op": "update_axes", "i": 0, "lists": {"names": ["y", "x"], "offset": [1]}},
           {"op": "update_axes", "i": 0, "lists": {"names": ["y", "x"], "scaled_units": ["micrometer", None]}}]
    yield [C, {"op": "create_or_update", "i": 0, "directed": False, "axes": [ax("x")], "inst": False},
           {"op": "create_or_update", "i": 0, "directed": False, "axes": [ax("x"), ax("y"), ax("z")], "inst": True},
           {"op": "create_or_update", "i": None, "directed": "yes", "axes": [ax("x"), ax("x")], "inst": False},
           {"op": "create_or_update", "i": None, "directed": 1, "axes": None, "inst": False},
           {"op": "create_or_update", "i": 0, "directed": None, "axes": None, "inst": False}]
    yield [C, {"op": "add_props", "i": 0, "props": [{"identifier": "c", "dtype": "int"}, {"identifier": "a", "dtype": "uint8", "varlength": True},
                                                     {"identifier": "b", "dtype": "int"}, {"identifier": "c", "dtype": "str", "unit": "u"}],
               "ctype": "node", "inst": False},
           {"op": "add_props", "i": 1, "props": [{"identifier": "a", "dtype": "float16"}], "ctype": "node", "inst": False},
           {"op": "add_props", "i": 1, "props": [{"identifier": "a", "dtype": "f4"}, {"identifier": "a", "dtype": "f8"}], "ctype": "edge", "inst": True}]


def sharing_scenarios():
    """One PropMetadata instance in the node and in the edge dictionary (pydantic keeps instances, deepcopy keeps the
    sharing inside the copy, add_or_update_props_metadata assigns through the instance)."""
    pa = {"identifier": "a", "dtype": "int8"}
    pb = {"identifier": "b", "dtype": "float32", "unit": "u"}
    kw = {"directed": True, "node_props_metadata": {"a": dict(pa), "b": dict(pb)}, "edge_props_metadata": {"a": dict(pa), "b": dict(pb)}}

    def C(sh, via="instances"):
        return {"op": "construct", "via": via, "kw": copy.deepcopy(kw), "sh": sh}

    def AP(i, props, ct, inst=False):
        return {"op": "add_props", "i": i, "props": props, "ctype": ct, "inst": inst}
    up_a = [{"identifier": "a", "dtype": "float64", "varlength": True}]
    up_b = [{"identifier": "b", "dtype": "uint8"}, {"identifier": "c", "dtype": "str"}]
    for sh in ([], ["a"], ["b"], ["a", "b"]):
        for ct in ("node", "edge"):
            yield [C(sh), AP(0, up_a, ct), AP(1, up_b, "edge" if ct == "node" else "node", True), AP(0, up_b, ct)]
        for how in ("deepcopy", "model_copy_deep", "copy", "model_copy", "zarr_roundtrip", "json_roundtrip"):
            yield [C(sh), {"op": "copy", "i": 0, "how": how}, AP(1, up_a, "node"), AP(2, up_b, "edge"), AP(0, up_a, "edge")]
        yield [C(sh), {"op": "update_axes", "i": 0, "lists": {"names": ["x"]}}, AP(1, up_a, "node"),
               {"op": "create_or_update", "i": 0, "directed": False, "axes": None, "inst": False}, AP(3, up_a + up_b, "edge")]
        # the same dictionaries without instances (kwargs): pydantic builds separate instances, nothing is shared
        yield [C(sh, "kwargs"), AP(0, up_a, "node")]
    # sharing created by an assignment: the edge dictionary is given the node dictionary's own instance
    base = {"op": "construct", "via": "instances", "kw": copy.deepcopy(kw)}
    for fld in ("node_props_metadata", "edge_props_metadata"):
        for sh in (["a"], ["a", "b"], ["zz"]):
            for inst in (False, True):
                yield [copy.deepcopy(base),
                       {"op": "assign", "i": 0, "field": fld, "v": {"a": dict(pa), "b": dict(pb)}, "inst": inst, "sh": sh},
                       AP(0, up_a, "node"), AP(0, up_b, "edge"),
                       {"op": "assign", "i": 0, "field": fld, "v": {"a": dict(pa)}, "inst": inst},       # sharing ends
                       AP(0, up_a, "edge")]
    # a shared instance and a rejected assignment: nothing changes; then an accepted one
    yield [C(["a", "b"]),
           {"op": "assign", "i": 0, "field": "node_props_metadata", "v": {"a": dict(pb)}, "inst": True, "sh": ["a"]},
           {"op": "assign", "i": 0, "field": "edge_props_metadata", "v": {"a": dict(pa), "q": {"identifier": "q", "dtype": "i4,,"}}, "inst": False, "sh": ["a"]},
           AP(0, up_a, "node")]


def generate(rng: random.Random, tier: str):
    for ops in directed_scenarios():
        yield {"kind": "run", "block": "scenario", "ops": copy.deepcopy(ops)}
    for ops in sharing_scenarios():
        yield {"kind": "run", "block": "sharing", "ops": copy.deepcopy(ops)}
    yield from exhaustive_small_blocks()
    yield from bool_block()
    yield from dtype_random_block(rng, tier)
    yield from exhaustive_assign_block(tier)
    for _ in range(900 if tier == "quick" else 30000):
        n = pick(rng, [2, 3, 4, 5, 6, 8])
        ops = [gen_op(rng, first=True)]
        if rng.random() < 0.3:
            ops.append(gen_op(rng, first=True))
        while len(ops) < n:
            ops.append(gen_op(rng))
        yield {"kind": "run", "block": "random", "ops": ops}


def search(rng, budget):
    yield from generate(rng, "thorough")


# ------------------------------------------------------------------ implementation
def _instances(field, v):
    """Replace well-shaped nested dicts by pydantic instances (a constructor that raises makes the op raise)."""
    from geff_spec import Axis, DisplayHint, PropMetadata, RelatedObject

    if field == "axes" and isinstance(v, list):
        return [Axis(**a) if isinstance(a, dict) else a for a in v]
    if field in ("node_props_metadata", "edge_props_metadata") and isinstance(v, dict):
        return {k: PropMetadata(**p) if isinstance(p, dict) else p for k, p in v.items()}
    if field == "related_objects" and isinstance(v, list):
        return [RelatedObject(**r) if isinstance(r, dict) else r for r in v]
    if field == "display_hints" and isinstance(v, dict):
        return DisplayHint(**v)
    if field == "props" and isinstance(v, list):
        return [PropMetadata(**p) if isinstance(p, dict) else p for p in v]
    return v


def _share_construct(kw, sh):
    """Instances for a construction in which, for every key of sh present in both property dictionaries (as
    well-shaped dicts), ONE PropMetadata instance is passed in both.  Returns (kwargs, keys actually shared)."""
    from geff_spec import PropMetadata

    out = {k: _instances(k, v) for k, v in kw.items()}
    done = []
    nd, ed = out.get("node_props_metadata"), out.get("edge_props_metadata")
    if isinstance(nd, dict) and isinstance(ed, dict):
        for k in sh:
            if isinstance(nd.get(k), PropMetadata) and isinstance(ed.get(k), PropMetadata):
                ed[k] = nd[k]
                done.append(k)
    return out, done


def _construct(via, kw, sh=None, st=None):
    import zarr
    from geff_spec import GeffMetadata

    if sh and via == "instances" and isinstance(kw, dict):
        kwargs, done = _share_construct(kw, sh)
        if st is not None:
            st["sh_eff"] = done
        return GeffMetadata(**kwargs)

    if via == "kwargs":
        if not isinstance(kw, dict):
            return GeffMetadata.model_validate(kw)
        return GeffMetadata(**kw)
    if via == "instances":
        if not isinstance(kw, dict):
            return GeffMetadata.model_validate(kw)
        return GeffMetadata(**{k: _instances(k, v) for k, v in kw.items()})
    if via == "validate":
        return GeffMetadata.model_validate(kw)
    if via == "json":
        return GeffMetadata.model_validate_json(json.dumps(kw))
    if via in ("zarr2", "zarr3"):
        store = zarr.storage.MemoryStore()
        g = zarr.open_group(store, zarr_format=2 if via == "zarr2" else 3)
        g.attrs["geff"] = kw
        return GeffMetadata.read(store)
    raise HarnessError(via)


def _copy(m, how):
    import zarr
    from geff_spec import GeffMetadata

    if how in ("zarr_roundtrip", "json_roundtrip") and has_nonfinite(enc(m.model_dump())):
        how = "deepcopy"  # JSON has no inf/nan: what serialisation does to them is C08's subject, not a copy
    if how == "deepcopy":
        return copy.deepcopy(m)
    if how == "copy":
        return copy.copy(m)
    if how == "model_copy":
        return m.model_copy()
    if how == "model_copy_deep":
        return m.model_copy(deep=True)
    if how == "zarr_roundtrip":
        store = zarr.storage.MemoryStore()
        m.write(store)
        return GeffMetadata.read(store)
    if how == "json_roundtrip":
        return GeffMetadata.model_validate_json(m.model_dump_json())
    raise HarnessError(how)


def _lists_kwargs(ls, roi):
    out = {"axis_names": to_py(ls.get("names"))}
    for k, arg in (("units", "axis_units"), ("types", "axis_types"), ("scales", "axis_scales"), ("scaled_units", "scaled_units"),
                   ("offset", "axis_offset")):
        if ls.get(k) is not None:
            out[arg] = to_py(ls[k])
    if roi:
        for k in ("roi_min", "roi_max"):
            if ls.get(k) is not None:
                out[k] = to_py(ls[k])
    return out


def real_exc(e) -> str:
    import pydantic

    return "ValidationError" if isinstance(e, pydantic.ValidationError) else type(e).__name__


def run_impl(c):
    import warnings

    from geff_spec import utils as U
    from geff_spec._schema import GEFF_VERSION

    warnings.simplefilter("ignore")
    pool = []
    steps = []
    for o in c["ops"]:
        k = o["op"]
        needs = k in ("assign", "copy", "update_axes", "add_props") or (k == "create_or_update" and o["i"] is not None)
        if needs and not pool:
            steps.append({"skipped": True})
            continue
        idx = (o["i"] % len(pool)) if needs else None
        before = [enc(m.model_dump()) for m in pool]
        fs_before = [sorted(m.model_fields_set) for m in pool]     # "leaves the object as it was" includes which fields count as set
        st = {"skipped": False, "idx": idx, "exc": None, "real_exc": None, "axes": None}
        new = None
        try:
            if k == "construct":
                new = _construct(o["via"], to_py(o["kw"]), o.get("sh"), st)
            elif k == "assign":
                v = to_py(o["v"])
                if o.get("inst"):
                    v = _instances(o["field"], v)
                if o.get("sh") and o["field"] in ("node_props_metadata", "edge_props_metadata") and isinstance(v, dict):
                    # the caller passes, under a key of sh, the very instance the object holds under that key in its
                    # OTHER property dictionary
                    other = getattr(pool[idx], "edge_props_metadata" if o["field"] == "node_props_metadata" else "node_props_metadata")
                    v_eff = dict(o["v"])
                    done = []
                    for kk in o["sh"]:
                        if kk in v and kk in other:
                            v[kk] = other[kk]
                            v_eff[kk] = enc(other[kk].model_dump())
                            done.append(kk)
                    st["sh_eff"], st["v_eff"] = done, v_eff
                setattr(pool[idx], o["field"], v)
            elif k == "copy":
                how = o["how"]
                if how in ("zarr_roundtrip", "json_roundtrip") and has_nonfinite(enc(pool[idx].model_dump())):
                    how = "deepcopy"
                st["copy_kind"] = {"deepcopy": "CDeep", "model_copy_deep": "CDeep", "copy": "CShallow", "model_copy": "CShallow",
                                   "zarr_roundtrip": "CRebuild", "json_roundtrip": "CRebuild"}[how]
                new = _copy(pool[idx], o["how"])
            elif k == "update_axes":
                kw = _lists_kwargs(o["lists"], False)
                new = U.update_metadata_axes(pool[idx], kw.pop("axis_names"), **kw)
            elif k == "create_or_update":
                axes = to_py(o["axes"])
                if o.get("inst"):
                    axes = _instances("axes", axes)
                new = U.create_or_update_metadata(None if idx is None else pool[idx], to_py(o["directed"]), axes)
            elif k == "add_props":
                props = to_py(o["props"])
                if o.get("inst"):
                    props = _instances("props", props)
                new = U.add_or_update_props_metadata(pool[idx], props, to_py(o["ctype"]))
            elif k == "axes_from_lists":
                res = U.axes_from_lists(**_lists_kwargs(o["lists"], True))
                st["axes"] = [enc(a.model_dump()) for a in res]
            else:
                raise HarnessError(k)
        except HarnessError:
            raise
        except Exception as e:
            st["exc"] = exn_name(e)
            st["real_exc"] = real_exc(e)
            new = None
        if new is not None:
            # an operation that hands back one of the live objects (no copy made) is kept as a second
            # reference: from then on both pool entries change together, which the model does not do
            st["alias"] = next((i for i, m in enumerate(pool) if new is m), None)
            pool.append(new)
        after = [enc(m.model_dump()) for m in pool]
        st["changed"] = [[i, d] for i, d in enumerate(after) if i >= len(before) or before[i] != d]
        st["before"] = before
        st["after"] = after
        fs_after = [sorted(m.model_fields_set) for m in pool]
        st["fields_set_changed"] = [i for i in range(len(fs_before)) if fs_before[i] != fs_after[i]]
        steps.append(st)
    return {"gv": GEFF_VERSION, "steps": steps}


# ------------------------------------------------------------------ Coq terms
def c_op(o, st) -> str:
    """The operation as a term of MetaAlias.aop (PropMetadata instances explicit)."""
    k = o["op"]
    if k == "construct":
        return f"(AConstruct {to_jv(o['kw'])} {clist(st.get('sh_eff') or [], cstr8)})"
    if k == "assign":
        return (f"(AAssign {cnat(st['idx'])} {FIELD_COQ[o['field']]} {to_jv(st.get('v_eff', o['v']))} "
                f"{clist(st.get('sh_eff') or [], cstr8)})")
    if k == "copy":
        return f"(ACopy {cnat(st['idx'])} {st.get('copy_kind', 'CDeep')})"
    if k == "update_axes":
        return f"(AUpdateAxes {cnat(st['idx'])} {c_lists(o['lists'])})"
    if k == "create_or_update":
        return f"(ACreateOrUpdate {copt(st['idx'], cnat)} {to_jv(o['directed'])} {to_jv(o['axes'])})"
    if k == "add_props":
        return f"(AAddProps {cnat(st['idx'])} {to_jv(o['props'])} {to_jv(o['ctype'])})"
    if k == "axes_from_lists":
        return f"(AAxesFromLists {c_lists(o['lists'])})"
    raise HarnessError(k)


def coq_case(c, obs):
    try:
        return _coq_case(c, obs)
    except (KeyError, TypeError, AttributeError, ValueError):
        return None  # a dump that is not of the validated shape (the oracle reports it)


def _coq_case(c, obs):
    ops, sts = [], []
    for o, st in zip(c["ops"], obs["steps"]):
        if st["skipped"]:
            continue
        ops.append(c_op(o, st))
        out = "(Ok tt)" if st["exc"] is None else f"(Err {st['exc']})"
        ch = clist(st["changed"], lambda p: f"({cnat(p[0])}, {c_md(p[1])})")
        axes = copt(st["axes"], lambda l: clist(l, c_axis))
        sts.append(f"({out}, {ch}, {axes})")
    return f"(IRunA {cstr8(obs['gv'])} {clist(ops)}, ORun {clist(sts)})"


# ------------------------------------------------------------------ oracle (from the property text)
def fval(v):
    return to_py(v)


def is_num(x):
    return isinstance(x, (int, float)) and not isinstance(x, bool)


def axis_problems(a):
    if not (isinstance(a, dict) and set(a) == set(AX_KEYS) and isinstance(a["name"], str)
            and all(fval(a[k]) is None or is_num(fval(a[k])) for k in ("min", "max", "scale", "offset"))
            and all(a[k] is None or isinstance(a[k], str) for k in ("type", "unit", "scaled_unit"))):
        return ["shape"]
    probs = []
    mn, mx = fval(a["min"]), fval(a["max"])
    if (mn is None) != (mx is None):
        probs.append("min-max-pair")
    elif mn is not None and not (mn <= mx):
        probs.append("min-le-max")
    if a["scaled_unit"] and a["scale"] is None:
        probs.append("scaled-unit-without-scale")
    return probs


def inv_problems(d):
    """The format's invariants on a model_dump(), as listed in the property."""
    probs = []
    if not (isinstance(d, dict) and set(d) == set(MD_KEYS)):
        return ["shape"]
    v = d["geff_version"]
    if not isinstance(v, str) or not VERSION_RE.search(v):
        probs.append("version")
    axes = d["axes"] if d["axes"] is not None else []
    hs, ros = d["display_hints"], d["related_objects"]
    if (not isinstance(axes, list) or any(axis_problems(a) == ["shape"] for a in axes)
            or not (hs is None or (isinstance(hs, dict) and set(hs) == set(DH_KEYS)
                                   and all(isinstance(hs[k], str) for k in DH_KEYS[:2])
                                   and all(hs[k] is None or isinstance(hs[k], str) for k in DH_KEYS[2:])))
            or not all(isinstance(d[w], dict) and all(isinstance(p, dict) and set(p) == set(PM_KEYS) and isinstance(p["dtype"], str)
                                                      for p in d[w].values()) for w in ("node_props_metadata", "edge_props_metadata"))
            or not (ros is None or (isinstance(ros, list) and all(isinstance(r, dict) and set(r) == set(RO_KEYS) for r in ros)))):
        return probs + ["shape"]   # an unvalidated value sits in the object
    names = [a["name"] for a in axes]
    if len(set(names)) != len(names):
        probs.append("axis-names-unique")
    h = d["display_hints"]
    if h is not None:
        named = [h["display_horizontal"], h["display_vertical"]] + [h[k] for k in ("display_depth", "display_time") if h[k] is not None]
        if any(n not in names for n in named):
            probs.append("hints-name-axes")
    for which in ("node_props_metadata", "edge_props_metadata"):
        for k, p in d[which].items():
            if k != p["identifier"]:
                probs.append("key-identifier")
            if p["dtype"] not in ALLOWED_DTYPES:
                probs.append("dtype")
    for a in axes:
        probs += axis_problems(a)
    for r in d["related_objects"] or []:
        if r["label_prop"] is not None and r["type"] != "labels":
            probs.append("label-prop")
    return probs


def has_nan_bound(d):
    return any(isinstance(fval(a[k]), float) and math.isnan(fval(a[k])) for a in (d["axes"] or []) for k in ("min", "max"))


def canon_value(field, v):
    """Dump shape of a well-formed value offered to a field (only for ops marked canon)."""
    if v is None:
        return None
    if field == "axes":
        return [{k: (float(a[k]) if isinstance(a.get(k), int) and k in ("min", "max", "scale", "offset") else a.get(k)) for k in AX_KEYS} for a in v]
    if field == "display_hints":
        return {k: v.get(k) for k in DH_KEYS}
    if field in ("node_props_metadata", "edge_props_metadata"):
        return {k: {"identifier": p["identifier"], "dtype": p["dtype"], "varlength": p.get("varlength", False),
                    "unit": p.get("unit"), "name": p.get("name"), "description": p.get("description")} for k, p in v.items()}
    return v


def oracle(c, obs):
    for j, (o, st) in enumerate(zip(c["ops"], obs["steps"])):
        if st["skipped"]:
            continue
        k = o["op"]
        # 1. every live object satisfies the invariants
        for i, d in enumerate(st["after"]):
            probs = inv_problems(d)
            if probs:
                nan = probs == ["min-le-max"] * len(probs) and has_nan_bound(d)
                return Failure(c, obs, f"after op {j} ({k}) object {i} violates {sorted(set(probs))}: {json.dumps(d)[:600]}",
                               {"why": "invariant:" + sorted(set(probs))[0], "op": k, "nan": nan})
        for a in st["axes"] or []:
            probs = axis_problems(a)
            if probs:
                nan = probs == ["min-le-max"] and any(isinstance(fval(a[q]), float) and math.isnan(fval(a[q])) for q in ("min", "max"))
                return Failure(c, obs, f"op {j}: axes_from_lists returned an Axis violating {probs}: {json.dumps(a)}",
                               {"why": "invariant:" + probs[0], "op": k, "nan": nan})
        # 2. a failed operation leaves every object as it was
        if st["exc"] is not None and st["after"] != st["before"]:
            return Failure(c, obs, f"op {j} ({k} {o.get('field', '')}) raised {st['real_exc']} but changed an object: "
                                   f"before={json.dumps(st['before'])[:400]} after={json.dumps(st['after'])[:400]}",
                           {"why": "not-atomic", "op": k})
        if st["exc"] is not None and st.get("fields_set_changed"):
            return Failure(c, obs, f"op {j} ({k} {o.get('field', '')}) raised {st['real_exc']} but changed which fields of object(s) "
                                   f"{st['fields_set_changed']} count as set (model_fields_set; visible through exclude_unset dumps)",
                           {"why": "not-atomic", "op": k, "fields_set": True})
        # 3. an assignment that would break an invariant raises a validation error
        if k == "assign" and o.get("canon") and o["field"] in ("axes", "display_hints", "node_props_metadata", "edge_props_metadata"):
            wb = dict(st["before"][st["idx"]])
            wb[o["field"]] = enc(canon_value(o["field"], to_py(o["v"])))
            if inv_problems(wb):
                if st["exc"] is None:
                    return Failure(c, obs, f"op {j}: assignment of {o['field']} that breaks {inv_problems(wb)} did not raise",
                                   {"why": "no-error", "op": k})
                if st["real_exc"] != "ValidationError":
                    return Failure(c, obs, f"op {j}: invariant-breaking assignment raised {st['real_exc']}, not a validation error",
                                   {"why": "exception-class", "op": k})
        # 4. constructions and assignments fail with a validation error only
        if st["exc"] is not None and k in ("construct", "assign") and st["real_exc"] not in ("ValidationError", "ValueError"):
            return Failure(c, obs, f"op {j} ({k}) raised {st['real_exc']}", {"why": "exception-class", "op": k})
    return None


def nontrivial(c, obs):
    ex = [s for s in obs["steps"] if not s["skipped"]]
    return len(ex) >= 2 and bool(ex[-1]["after"])


def describe(c, obs):
    ex = [(o["op"], s) for o, s in zip(c["ops"], obs["steps"]) if not s["skipped"]]
    errs = sum(1 for _, s in ex if s["exc"] is not None)
    kinds = "+".join(sorted({k for k, _ in ex}))
    return f"{c.get('block', '?')}:ops={len(ex)}:errs={errs}:{kinds}"


def shrink(c):
    """Drop operations while the same kind of failure remains."""
    f0 = oracle(c, run_impl(c))
    if f0 is None:
        return c
    why = f0.tags.get("why")
    ops = list(c["ops"])
    changed = True
    while changed:
        changed = False
        for i in range(len(ops) - 1, -1, -1):
            cand = dict(c, ops=ops[:i] + ops[i + 1:])
            if not cand["ops"]:
                continue
            try:
                f = oracle(cand, run_impl(cand))
            except Exception:
                f = None
            if f is not None and f.tags.get("why") == why:
                ops = cand["ops"]
                changed = True
    return dict(c, ops=ops)


def extra_coverage():
    return {"oracle_checks": ["invariants on every live object after every op", "failed op changes no dump",
                              "invariant-breaking canonical assignment raises ValidationError",
                              "construct/assign raise validation errors only"]}
