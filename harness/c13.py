"""C13 -- tracklet validation decides the documented tracklet definition."""
from __future__ import annotations

import random

import numpy as np

from harness.common import Failure, clist, cz
from harness.tracks_gen import (respell, LABEL_IDS, NODE_IDS, all_dags, classes, components, cpairs, is_dag, mk_case, named_ids,
                                set_partitions)
from harness.tracks_gen import all_digraphs, has_directed_cycle, linking_components, parsed_msgs, planted_cyclic

PROP = "C13"
RULE = ("exhaustive: every DAG on <=4 labelled nodes x every labelling up to renaming (8278 cases, both tiers); sampled 5-node DAGs; "
        "random DAGs/forests up to 12 nodes with divisions, merges, parallel duplicate edges; labellings = reference partition "
        "perturbed by merge/split/move; through validate_tracklets and through validate_data(tracklet=True); "
        "non-trivial = at least one edge; distinct by structural input; "
        "GRAPHS WITH CYCLES: exhaustive: every digraph (self loops, 2-cycles included) on <=3 nodes x every labelling up to renaming "
        "(2595 cases, both tiers); 4-node digraphs with self loops sampled (thorough: in addition every loop-free 4-node digraph x every "
        "labelling, 61440 cases); random graphs up to 12 nodes with planted self loops / 2-cycles / 3-cycles / closed tracklets / isolated "
        "rings / back edges through divisions, labellings = linking components perturbed; verdict, named ids AND the kind of every message "
        "(with the node it names) compared with the model in Coq; "
        "TRACKLET IDS FLAGGED MISSING (validate_data with a real missing mask; the flagged node stays in the graph unlabelled): exhaustive: every DAG on <=3 "
        "nodes x every labelling x every non-empty mask (894 cases); 4-node DAGs x labellings x one or two flagged nodes sampled; larger graphs with "
        "planted cycles, one to three flagged nodes, nodes inside a path preferred; validator on the filtered node list (Coq: the same filtered list), "
        "validate_data and read_to_memory with the mask stored must agree with it")
EXHAUSTIVE_BLOCKS = ["all DAGs on <=4 nodes x all labellings up to renaming",
                     "all digraphs (self loops and 2-cycles included) on <=3 nodes x all labellings up to renaming",
                     "thorough tier: all loop-free digraphs on 4 nodes x all labellings up to renaming",
                     "all DAGs on <=3 nodes x all labellings up to renaming x all non-empty missing masks (through validate_data)"]
PARALLEL = True
ASSUMPTIONS = ["networkx DiGraph / subgraph / degree / is_weakly_connected are modelled by their mathematical meaning; "
               "is_directed_acyclic_graph (topological_generations, Kahn by generations) is modelled as a peeling of the node set, its "
               "per-node counters by their meaning",
               "node ids unique; edges between listed nodes"]


def reference_partition(nodes, edges):
    """The documented tracklets: maximal unbranched paths = components of the 'linking' edges
    (only edge leaving its source and only edge entering its target).

    Graphs with cycles (decided from docs/tracking.md, not from the validator): a tracklet is "a simple path of connected
    nodes" with an initiating and a terminating node, and it must be maximal.  A component of linking edges is forced into one
    class by maximality; it is a tracklet only if it IS a simple path, i.e. the subgraph it induces (all edges of the graph among
    its nodes, linking or not) has no directed cycle.  A component that induces a cycle -- an isolated ring a->b->c->a, a 2-cycle,
    a node with a self loop, or a linking chain x1->..->xk whose end feeds back into x1 through a division -- has no initiating
    node / is not a path, so it is NOT a tracklet, and no class containing one of its nodes can be valid (a sub-chain is not
    maximal, the whole component is not a path).  A cycle all of whose nodes lie in different linking components (every edge of it
    leaves a division or enters a merge) does not make any tracklet invalid."""
    es = {tuple(e) for e in edges}
    outd = {n: len({b for a, b in es if a == n}) for n in nodes}
    ind = {n: len({a for a, b in es if b == n}) for n in nodes}
    linking = [(a, b) for a, b in es if outd[a] == 1 and ind[b] == 1]
    return {c for c in components(nodes, linking) if not has_directed_cycle(c, es)}


def is_maximal_unbranched_path(T, nodes, edges):
    """Second, independent reading of the same definition, class by class: the subgraph induced by T is exactly a simple directed
    path x1->x2->...->xk through all of T (k-1 edges, no other edge among T, so no cycle, no self loop), every edge of it is the only
    edge leaving its source and the only edge entering its target in the whole graph, and no such edge of the graph has exactly one
    end in T (maximal)."""
    T = set(T)
    es = {tuple(e) for e in edges}
    outd = {n: len({b for a, b in es if a == n}) for n in nodes}
    ind = {n: len({a for a, b in es if b == n}) for n in nodes}
    inner = [(a, b) for a, b in es if a in T and b in T]
    if len(inner) != len(T) - 1:
        return False
    starts = [x for x in T if not any(b == x for _, b in inner)]
    if len(starts) != 1:
        return False
    seen = [starts[0]]
    while True:
        nxt = [b for a, b in inner if a == seen[-1]]
        if not nxt:
            break
        if len(nxt) > 1 or nxt[0] in seen:
            return False
        seen.append(nxt[0])
    if set(seen) != T:
        return False
    if any(outd[a] != 1 or ind[b] != 1 for a, b in inner):
        return False
    return not any(outd[a] == 1 and ind[b] == 1 and ((a in T) != (b in T)) for a, b in es)


def perturb(rng, nodes, part):
    part = [set(c) for c in part]
    r = rng.random()
    if r < 0.35 or not part:
        pass
    elif r < 0.55 and len(part) >= 2:
        a, b = rng.sample(range(len(part)), 2)
        part[a] |= part[b]
        del part[b]
    elif r < 0.8:
        c = rng.choice(part)
        if len(c) >= 2:
            x = rng.choice(sorted(c))
            c.discard(x)
            part.append({x})
    else:
        c = rng.choice(part)
        x = rng.choice(sorted(c))
        c.discard(x)
        rng.choice(part).add(x)
        part = [p for p in part if p]
    lab = {}
    for i, c in enumerate(part):
        for x in c:
            lab[x] = i
    return [lab[n] for n in nodes]


def generate(rng: random.Random, tier: str):
    r2 = random.Random(rng.random())
    for c in _generate(rng, tier):
        yield respell(r2, c)


def _generate(rng: random.Random, tier: str):
    for n in range(5):
        for edges in all_dags(n):
            for labels in set_partitions(n):
                yield mk_case("tracklets", n, edges, labels)
    for _ in range(600 if tier == "quick" else 8000):
        n = rng.choice([5, 5, 6, 8, 10, 12])
        order = list(range(n))
        rng.shuffle(order)
        style = rng.choice(["sparse", "forest", "dense"])
        edges = []
        for j in range(1, n):
            if style == "forest":
                if rng.random() < 0.85:
                    edges.append((order[rng.randrange(max(0, j - 3), j)], order[j]))
                if rng.random() < 0.12:
                    edges.append((order[rng.randrange(0, j)], order[j]))
            else:
                p = 0.25 if style == "sparse" else 0.5
                for i in range(max(0, j - 4), j):
                    if rng.random() < p:
                        edges.append((order[i], order[j]))
        edges = list(dict.fromkeys(edges))
        if rng.random() < 0.1 and edges:
            edges.append(rng.choice(edges))  # parallel duplicate: networkx collapses it
        nodes = NODE_IDS[:n]
        es = [[nodes[a], nodes[b]] for a, b in edges]
        part = reference_partition(nodes, es)
        labels = perturb(rng, nodes, sorted(part, key=lambda c: min(c)))
        via = "data" if rng.random() < 0.25 else "direct"
        yield {"kind": "tracklets", "nodes": nodes, "edges": es, "labels": [LABEL_IDS[l % len(LABEL_IDS)] for l in labels], "via": via}
    yield from _generate_cyclic(rng, tier)
    yield from _generate_masked(rng, tier)


def _generate_masked(rng: random.Random, tier: str):
    """Tracklet ids flagged missing ("mask": one flag per node).  validate_data hands validate_tracklets the nodes that are NOT flagged
    (_annotated_nodes) and ALL the edges, so a flagged node stays in the graph without a label; the label stored at its position is a fill
    value (here: the label of another class or a fresh one, as the labelling enumerates).  The Coq input is the FILTERED node list with all
    the edges -- ITrackletsDag / ITrackletsAll can express it (edges may mention ids outside the node list), no new input constructor.
    Expected verdict: the documented partition of the FULL graph, with the flagged nodes unlabelled."""
    import itertools

    # exhaustive: every DAG on <=3 nodes x every labelling up to renaming x every non-empty mask
    for n in range(1, 4):
        for edges in all_dags(n):
            for labels in set_partitions(n):
                for mask in itertools.product([False, True], repeat=n):
                    if any(mask):
                        yield dict(mk_case("tracklets", n, edges, labels), mask=list(mask), via="data")
    # 4 nodes: DAGs x labellings x one or two flagged nodes, sampled
    dags4 = list(all_dags(4))
    parts4 = list(set_partitions(4))
    for _ in range(1200 if tier == "quick" else 15000):
        mask = [False] * 4
        for i in rng.sample(range(4), rng.choice([1, 1, 2])):
            mask[i] = True
        yield dict(mk_case("tracklets", 4, rng.choice(dags4), rng.choice(parts4)), mask=mask, via="data" if rng.random() < 0.3 else "direct")
    # larger graphs (cycles planted): the documented partition perturbed, one to three flagged nodes (nodes inside a path preferred)
    for _ in range(800 if tier == "quick" else 8000):
        n = rng.choice([4, 5, 6, 8, 10])
        edges, what = planted_cyclic(rng, n)
        if rng.random() < 0.5:
            edges = [e for e in edges if e[0] < e[1]] or edges            # mostly acyclic
        nodes = NODE_IDS[:n]
        es = [[nodes[a], nodes[b]] for a, b in edges]
        part = linking_components(nodes, es)
        labels = perturb(rng, nodes, sorted(part, key=lambda c: min(c)))
        inner = [i for i, x in enumerate(nodes) if any(e[0] == x for e in es) and any(e[1] == x for e in es)]
        mask = [False] * n
        for _k in range(rng.choice([1, 1, 2, 3])):
            mask[rng.choice(inner) if inner and rng.random() < 0.6 else rng.randrange(n)] = True
        yield {"kind": "tracklets_all", "nodes": nodes, "edges": es, "labels": [LABEL_IDS[l % len(LABEL_IDS)] for l in labels],
               "via": "data" if rng.random() < 0.4 else "direct", "planted": what, "mask": mask}


def annotated(c):
    """(nodes, labels) restricted to the nodes whose tracklet id is not flagged missing"""
    mask = c.get("mask") or [False] * len(c["nodes"])
    return ([x for x, m in zip(c["nodes"], mask) if not m], [l for l, m in zip(c["labels"], mask) if not m])


def _generate_cyclic(rng: random.Random, tier: str):
    """Graphs with cycles (kind tracklets_all: compared with TracksCyc.validate_tracklets, messages included)."""
    # exhaustive: every digraph on <=3 nodes, self loops and 2-cycles included, x every labelling up to renaming
    for n in range(4):
        for edges in all_digraphs(n, loops=True):
            for labels in set_partitions(n):
                yield mk_case("tracklets_all", n, edges, labels)
    # 4 nodes: thorough = every loop-free digraph x every labelling; both tiers: sample of the digraphs with self loops
    if tier != "quick":
        for edges in all_digraphs(4):
            if is_dag(4, edges):
                continue                      # already in the DAG block
            for labels in set_partitions(4):
                yield mk_case("tracklets_all", 4, edges, labels)
    pairs = [(a, b) for a in range(4) for b in range(4)]
    parts4 = list(set_partitions(4))
    for _ in range(1500 if tier == "quick" else 12000):
        dens = rng.choice([0.15, 0.25, 0.35, 0.5])
        edges = [p for p in pairs if rng.random() < (dens if p[0] != p[1] else dens / 2)]
        yield mk_case("tracklets_all", 4, edges, rng.choice(parts4))
    # planted cycles in larger graphs
    for _ in range(1500 if tier == "quick" else 12000):
        n = rng.choice([4, 5, 5, 6, 8, 10, 12])
        edges, what = planted_cyclic(rng, n)
        nodes = NODE_IDS[:n]
        es = [[nodes[a], nodes[b]] for a, b in edges]
        part = linking_components(nodes, es)          # cyclic components included: "the ring carries one label" is the base case
        labels = perturb(rng, nodes, sorted(part, key=lambda c: min(c)))
        via = "data" if rng.random() < 0.2 else "direct"
        yield {"kind": "tracklets_all", "nodes": nodes, "edges": es, "labels": [LABEL_IDS[l % len(LABEL_IDS)] for l in labels],
               "via": via, "planted": what}


def run_impl(c):
    from geff.validate.tracks import validate_tracklets

    nodes = np.array(c["nodes"], dtype="uint64")
    edges = np.array(c["edges"], dtype="uint64").reshape(-1, 2)
    labels = np.array(c["labels"], dtype="int64")
    missing = None
    a_nodes, a_labels = nodes, labels
    if c.get("mask") is not None:
        # the validator is given what validate_data must hand over: the nodes not flagged missing, and all the edges
        missing = np.array(c["mask"], dtype=bool)
        a_nodes, a_labels = np.array(annotated(c)[0], dtype="uint64"), np.array(annotated(c)[1], dtype="int64")
    try:
        valid, errors = validate_tracklets(a_nodes, edges, a_labels)
    except Exception as e:
        return {"exc": type(e).__name__}
    out = {"valid": bool(valid), "named": named_ids(errors, "Tracklet", set(c["labels"])), "msgs": parsed_msgs(errors)}
    if c.get("via") == "data":
        from geff.validate.data import ValidationConfig, validate_data
        from geff_spec import GeffMetadata

        md = GeffMetadata(directed=True, node_props_metadata={}, edge_props_metadata={}, track_node_props={"tracklet": "trk"})
        g = {"metadata": md, "node_ids": nodes, "edge_ids": edges, "node_props": {"trk": {"values": labels, "missing": missing}}, "edge_props": {}}
        try:
            validate_data(g, ValidationConfig(tracklet=True))
            out["data"] = "ok"
        except ValueError:
            out["data"] = "ValueError"
        except Exception as e:
            out["data"] = type(e).__name__
        from harness.c12 import via_store

        out["data_store"] = via_store(g, ValidationConfig(tracklet=True))
        try:
            validate_data(g, ValidationConfig(tracklet=False, lineage=True))
            out["data_off"] = "ok"
        except Exception as e:
            out["data_off"] = type(e).__name__
        # both annotations declared and both validations requested; the lineage annotation is correct (component index), so the
        # outcome must be the tracklet verdict
        comp = {}
        for k, cc in enumerate(sorted(components(c["nodes"], c["edges"]), key=lambda s: min(s))):
            for x in cc:
                comp[x] = k
        md2 = GeffMetadata(directed=True, node_props_metadata={}, edge_props_metadata={}, track_node_props={"tracklet": "trk", "lineage": "lin"})
        g2 = dict(g, metadata=md2, node_props={"trk": {"values": labels, "missing": missing},
                                               "lin": {"values": np.array([comp[x] for x in c["nodes"]], dtype="int64"), "missing": None}})
        try:
            validate_data(g2, ValidationConfig(tracklet=True, lineage=True))
            out["data_both"] = "ok"
        except Exception as e:
            out["data_both"] = type(e).__name__
    return out


def coq_case(c, o):
    if "exc" in o:
        # the model never raises (C13_never_raises): an exception of the implementation is a correspondence mismatch
        return f"(ITrackletsAll {cpairs(c['edges'])} {cpairs(list(zip(*annotated(c))))}, ORaises)"
    if None in o["named"]:
        return None
    nl = cpairs(list(zip(*annotated(c))))        # with a mask: the nodes not flagged missing (all the edges stay)
    if any(m[1] is None for m in o["msgs"]):
        # a message the model does not know: the observation cannot be the model's
        return f"(ITrackletsAll {cpairs(c['edges'])} {nl}, OInvalid {clist(o['named'], cz)})"
    msgs = clist(o["msgs"], lambda m: f"({cz(m[0])}, {m[1]}{'' if m[2] is None else ' ' + cz(m[2])})")
    # acyclic generators: both models (with and without the cycle test); graphs with cycles: the model with the cycle test
    ctor = "ITrackletsDag" if c["kind"] == "tracklets" else "ITrackletsAll"
    return f"({ctor} {cpairs(c['edges'])} {nl}, OMsgs {'true' if o['valid'] else 'false'} {msgs})"


def oracle(c, o):
    if "exc" in o:
        return Failure(c, o, f"validate_tracklets raised {o['exc']}", {"why": "raises"})
    ref = reference_partition(c["nodes"], c["edges"])
    cl = classes(*annotated(c))                  # the reference above is computed on the full graph: flagged nodes stay, unlabelled
    bad = [t for t, ns in cl.items() if frozenset(ns) not in ref]
    bad2 = [t for t, ns in cl.items() if not is_maximal_unbranched_path(ns, c["nodes"], c["edges"])]
    if bad != bad2:
        raise AssertionError(f"harness: the two readings of the documented definition disagree on {c}: {bad} vs {bad2}")
    if c["kind"] == "tracklets" and has_directed_cycle(c["nodes"], [tuple(e) for e in c["edges"]]):
        raise AssertionError(f"harness: the acyclic generator produced a cycle: {c}")
    if o["valid"] != (not bad):
        kind = "accepts-invalid" if o["valid"] else "rejects-valid"
        return Failure(c, o, f"{kind}: classes that are not maximal unbranched paths: {bad}", {"why": kind})
    if None in o["named"]:
        return Failure(c, o, "an error message does not name its tracklet", {"why": "unnamed"})
    if sorted(set(o["named"])) != sorted(bad):
        return Failure(c, o, f"messages name {o['named']}, invalid tracklets are {bad}", {"why": "names"})
    if "data" in o:
        if (o["data"] == "ok") != o["valid"] or o["data"] not in ("ok", "ValueError"):
            return Failure(c, o, f"validate_data(tracklet=True) gives {o['data']} but validator says valid={o['valid']}", {"why": "wiring"})
        if o.get("data_store") is not None and o["data_store"] != o["data"]:
            return Failure(c, o, f"read_to_memory(store, data_validation=ValidationConfig(tracklet=True)) gives {o['data_store']} but "
                           f"validate_data gives {o['data']}", {"why": "wiring-read"})
        if o["data_off"] != "ok":
            return Failure(c, o, f"tracklet validation disabled but validate_data raised {o['data_off']}", {"why": "disabled-raises"})
        if (o["data_both"] == "ok") != o["valid"] or o["data_both"] not in ("ok", "ValueError"):
            return Failure(c, o, f"validate_data(tracklet=True, lineage=True) with a correct lineage annotation gives {o['data_both']} "
                           f"but the tracklet annotation is valid={o['valid']}", {"why": "wiring-both"})
    return None


def nontrivial(c, o):
    return bool(c["edges"])


_STATS: dict = {}


def _count(key):
    _STATS[key] = _STATS.get(key, 0) + 1


def extra_coverage():
    """counts of the second half (graphs with cycles): inputs with a directed cycle, message kinds, planted structures"""
    return {"cyclic_block": dict(sorted(_STATS.items()))}


def describe(c, o):
    if c["kind"] == "tracklets_all":
        cyc = has_directed_cycle(c["nodes"], [tuple(e) for e in c["edges"]])
        _count("inputs_with_directed_cycle" if cyc else "inputs_acyclic")
        if cyc:
            _count("cyclic_accepted" if o.get("valid") else "cyclic_rejected")
            if any(a == b for a, b in c["edges"]):
                _count("inputs_with_self_loop")
            if any([b, a] in c["edges"] for a, b in c["edges"] if a != b):
                _count("inputs_with_2cycle")
        for m in o.get("msgs", []):
            _count(f"message_{m[1]}")
        for k in c.get("planted", []):
            _count(f"planted_{k}")
        if c.get("via") == "data":
            _count("through_validate_data_and_read_to_memory")
    if c.get("mask") is not None:
        _count("masked_inputs")
        _count("masked_accepted" if o.get("valid") else "masked_rejected")
    base = (f"n={len(c['nodes'])}:e={len(c['edges'])}:classes={len(set(c['labels']))}:{'valid' if o.get('valid') else 'invalid'}"
            + (":masked" if c.get("mask") is not None else ""))
    if c["kind"] == "tracklets_all":
        cyc = has_directed_cycle(c["nodes"], [tuple(e) for e in c["edges"]])
        kinds = sorted({m[1] or "?" for m in o.get("msgs", [])})
        return f"all:{'cyclic' if cyc else 'dag'}:" + base + ":" + "+".join(kinds)
    return base


def search(rng, budget):
    yield from generate(rng, "thorough")
