"""C13 -- tracklet validation decides the documented tracklet definition."""
from __future__ import annotations

import random

import numpy as np

from harness.common import Failure, clist, cz
from harness.tracks_gen import (respell, LABEL_IDS, NODE_IDS, all_dags, classes, components, cpairs, is_dag, mk_case, named_ids,
                                set_partitions)

PROP = "C13"
RULE = ("exhaustive: every DAG on <=4 labelled nodes x every labelling up to renaming (8278 cases, both tiers); sampled 5-node DAGs; "
        "random DAGs/forests up to 12 nodes with divisions, merges, parallel duplicate edges; labellings = reference partition "
        "perturbed by merge/split/move; through validate_tracklets and through validate_data(tracklet=True); "
        "non-trivial = at least one edge; distinct by structural input")
EXHAUSTIVE_BLOCKS = ["all DAGs on <=4 nodes x all labellings up to renaming"]
ASSUMPTIONS = ["networkx DiGraph / subgraph / degree / is_weakly_connected are modelled by their mathematical meaning",
               "acyclic inputs only (the property quantifies over acyclic graphs); node ids unique; edges between listed nodes"]
ASSUMPTIONS += ["nx.is_directed_acyclic_graph is modelled by Kahn peeling (TracksCyc.v, proved to pass on every graph without closed walks and to "
                "reject every class whose nodes all have a predecessor in the class); cyclic inputs (every digraph with a cycle on <=3 nodes x "
                "labellings, and the repository's own cyclic test input) are in the correspondence only"]
EXHAUSTIVE_BLOCKS += ["all digraphs with a directed cycle on <=3 nodes (self-loops allowed) x all labellings up to renaming: correspondence only"]


def reference_partition(nodes, edges):
    """The documented tracklets: maximal unbranched paths = components of the 'linking' edges
    (only edge leaving its source and only edge entering its target)."""
    es = {tuple(e) for e in edges}
    outd = {n: len({b for a, b in es if a == n}) for n in nodes}
    ind = {n: len({a for a, b in es if b == n}) for n in nodes}
    linking = [(a, b) for a, b in es if outd[a] == 1 and ind[b] == 1]
    return {c for c in components(nodes, linking)}


def perturb(rng, nodes, part):
    part = [set(c) for c in part]
    r = rng.random()
    if r < 0.35 or not part:
        pass
    elif r < 0.55 and len(part) >= 2:
        a, b = rng.sample(range(len(part)), 2)
        part[a] |= part[b]
        del part[b]
    elif r < 0.8:
        c = rng.choice(part)
        if len(c) >= 2:
            x = rng.choice(sorted(c))
            c.discard(x)
            part.append({x})
    else:
        c = rng.choice(part)
        x = rng.choice(sorted(c))
        c.discard(x)
        rng.choice(part).add(x)
        part = [p for p in part if p]
    lab = {}
    for i, c in enumerate(part):
        for x in c:
            lab[x] = i
    return [lab[n] for n in nodes]


def generate(rng: random.Random, tier: str):
    r2 = random.Random(rng.random())
    for c in _generate(rng, tier):
        yield respell(r2, c)


def _generate(rng: random.Random, tier: str):
    for n in range(5):
        for edges in all_dags(n):
            for labels in set_partitions(n):
                yield mk_case("tracklets", n, edges, labels)
    for _ in range(600 if tier == "quick" else 8000):
        n = rng.choice([5, 5, 6, 8, 10, 12])
        order = list(range(n))
        rng.shuffle(order)
        style = rng.choice(["sparse", "forest", "dense"])
        edges = []
        for j in range(1, n):
            if style == "forest":
                if rng.random() < 0.85:
                    edges.append((order[rng.randrange(max(0, j - 3), j)], order[j]))
                if rng.random() < 0.12:
                    edges.append((order[rng.randrange(0, j)], order[j]))
            else:
                p = 0.25 if style == "sparse" else 0.5
                for i in range(max(0, j - 4), j):
                    if rng.random() < p:
                        edges.append((order[i], order[j]))
        edges = list(dict.fromkeys(edges))
        if rng.random() < 0.1 and edges:
            edges.append(rng.choice(edges))  # parallel duplicate: networkx collapses it
        nodes = NODE_IDS[:n]
        es = [[nodes[a], nodes[b]] for a, b in edges]
        part = reference_partition(nodes, es)
        labels = perturb(rng, nodes, sorted(part, key=lambda c: min(c)))
        via = "data" if rng.random() < 0.25 else "direct"
        yield {"kind": "tracklets", "nodes": nodes, "edges": es, "labels": [LABEL_IDS[l % len(LABEL_IDS)] for l in labels], "via": via}


def run_impl(c):
    from geff.validate.tracks import validate_tracklets

    nodes = np.array(c["nodes"], dtype="uint64")
    edges = np.array(c["edges"], dtype="uint64").reshape(-1, 2)
    labels = np.array(c["labels"], dtype="int64")
    try:
        valid, errors = validate_tracklets(nodes, edges, labels)
    except Exception as e:
        return {"exc": type(e).__name__}
    out = {"valid": bool(valid), "named": named_ids(errors, "Tracklet")}
    if c.get("via") == "data":
        from geff.validate.data import ValidationConfig, validate_data
        from geff_spec import GeffMetadata

        md = GeffMetadata(directed=True, node_props_metadata={}, edge_props_metadata={}, track_node_props={"tracklet": "trk"})
        g = {"metadata": md, "node_ids": nodes, "edge_ids": edges, "node_props": {"trk": {"values": labels, "missing": None}}, "edge_props": {}}
        try:
            validate_data(g, ValidationConfig(tracklet=True))
            out["data"] = "ok"
        except ValueError:
            out["data"] = "ValueError"
        except Exception as e:
            out["data"] = type(e).__name__
        from harness.c12 import via_store

        out["data_store"] = via_store(g, ValidationConfig(tracklet=True))
        try:
            validate_data(g, ValidationConfig(tracklet=False, lineage=True))
            out["data_off"] = "ok"
        except Exception as e:
            out["data_off"] = type(e).__name__
        # both annotations declared and both validations requested; the lineage annotation is correct (component index), so the
        # outcome must be the tracklet verdict
        comp = {}
        for k, cc in enumerate(sorted(components(c["nodes"], c["edges"]), key=lambda s: min(s))):
            for x in cc:
                comp[x] = k
        md2 = GeffMetadata(directed=True, node_props_metadata={}, edge_props_metadata={}, track_node_props={"tracklet": "trk", "lineage": "lin"})
        g2 = dict(g, metadata=md2, node_props={"trk": {"values": labels, "missing": None},
                                               "lin": {"values": np.array([comp[x] for x in c["nodes"]], dtype="int64"), "missing": None}})
        try:
            validate_data(g2, ValidationConfig(tracklet=True, lineage=True))
            out["data_both"] = "ok"
        except Exception as e:
            out["data_both"] = type(e).__name__
    return out


def _generate_cyclic():
    """every digraph WITH a directed cycle (self-loops included) on <=3 nodes x every labelling: correspondence only (the property and
    the oracle speak about acyclic graphs); ties the code's cycle test (nx.is_directed_acyclic_graph) to TracksCyc.v"""
    from harness.tracks_gen import all_digraphs

    for n in range(1, 4):
        for edges in all_digraphs(n, loops=True):
            if is_dag(n, edges):
                continue
            for labels in set_partitions(n):
                yield dict(mk_case("tracklets", n, edges, labels), cyclic=True)


_generate_acyclic = _generate


def _generate(rng: random.Random, tier: str):  # noqa: F811
    yield from _generate_acyclic(rng, tier)
    yield from _generate_cyclic()


def coq_case(c, o):
    if "exc" in o or None in o["named"]:
        return None
    nl = cpairs(list(zip(c["nodes"], c["labels"])))
    return f"(ITracklets {cpairs(c['edges'])} {nl}, OInvalid {clist(o['named'], cz)})"


def oracle(c, o):
    if "exc" in o:
        return Failure(c, o, f"validate_tracklets raised {o['exc']}", {"why": "raises"})
    if c.get("cyclic"):
        return None  # outside the property (acyclic graphs): model correspondence only
    ref = reference_partition(c["nodes"], c["edges"])
    cl = classes(c["nodes"], c["labels"])
    bad = [t for t, ns in cl.items() if frozenset(ns) not in ref]
    if o["valid"] != (not bad):
        kind = "accepts-invalid" if o["valid"] else "rejects-valid"
        return Failure(c, o, f"{kind}: classes that are not maximal unbranched paths: {bad}", {"why": kind})
    if None in o["named"]:
        return Failure(c, o, "an error message does not name its tracklet", {"why": "unnamed"})
    if sorted(set(o["named"])) != sorted(bad):
        return Failure(c, o, f"messages name {o['named']}, invalid tracklets are {bad}", {"why": "names"})
    if "data" in o:
        if (o["data"] == "ok") != o["valid"] or o["data"] not in ("ok", "ValueError"):
            return Failure(c, o, f"validate_data(tracklet=True) gives {o['data']} but validator says valid={o['valid']}", {"why": "wiring"})
        if o.get("data_store") is not None and o["data_store"] != o["data"]:
            return Failure(c, o, f"read_to_memory(store, data_validation=ValidationConfig(tracklet=True)) gives {o['data_store']} but "
                           f"validate_data gives {o['data']}", {"why": "wiring-read"})
        if o["data_off"] != "ok":
            return Failure(c, o, f"tracklet validation disabled but validate_data raised {o['data_off']}", {"why": "disabled-raises"})
        if (o["data_both"] == "ok") != o["valid"] or o["data_both"] not in ("ok", "ValueError"):
            return Failure(c, o, f"validate_data(tracklet=True, lineage=True) with a correct lineage annotation gives {o['data_both']} "
                           f"but the tracklet annotation is valid={o['valid']}", {"why": "wiring-both"})
    return None


def nontrivial(c, o):
    return bool(c["edges"])


def describe(c, o):
    return f"n={len(c['nodes'])}:e={len(c['edges'])}:classes={len(set(c['labels']))}:{'valid' if o.get('valid') else 'invalid'}"


def search(rng, budget):
    yield from generate(rng, "thorough")
